"""Shared paths, environment handling and small helpers for the /verif machinery.

Every check imports malt from VERIF_REPO (default /repo) so that it always sees
the current working tree of the repository under verification.
"""
import os
import sys
import time
import json
import shutil
import itertools

VERIF = os.path.dirname(os.path.dirname(os.path.abspath(__file__)))
SPEC = os.path.join(VERIF, 'spec')
BUILD = os.path.join(VERIF, 'build')
EVIDENCE = os.path.join(VERIF, 'evidence')
REPO = os.environ.get('VERIF_REPO', '/repo')
GUARD = 'DIASTATIC_MALT_VERIF'


class MachineryError(Exception):
    """The check could not decide (TLC error, model/CPython disagreement, harness crash): exit 2."""


def seed():
    try:
        return int(os.environ.get('VERIF_SEED', '0'))
    except ValueError:
        return 0


def use_repo():
    """Put the repository under verification first on sys.path and return its path."""
    os.environ.setdefault(GUARD, '1')
    if REPO in sys.path:
        sys.path.remove(REPO)
    sys.path.insert(0, REPO)
    import malt  # noqa: F401
    got = os.path.dirname(os.path.dirname(os.path.abspath(malt.__file__)))
    if os.path.realpath(got) != os.path.realpath(REPO):
        raise MachineryError('malt imported from %s, expected %s' % (got, REPO))
    return REPO


def scratch(name):
    """A fresh scratch directory under /verif/build (never /tmp)."""
    d = os.path.join(BUILD, name)
    shutil.rmtree(d, ignore_errors=True)
    os.makedirs(d, exist_ok=True)
    return d


def rmtree(d):
    shutil.rmtree(d, ignore_errors=True)


class Timer:
    def __init__(self):
        self.t0 = time.time()

    def s(self):
        return round(time.time() - self.t0, 2)


def chunks(seq, n):
    it = iter(seq)
    while True:
        c = list(itertools.islice(it, n))
        if not c:
            return
        yield c


def dump(obj, path):
    os.makedirs(os.path.dirname(path), exist_ok=True)
    with open(path, 'w') as f:
        json.dump(obj, f, indent=1, sort_keys=True, default=str)
