"""C14 helper: renders the tagged values of spec/Builtins.tla as real Python objects, instruments
iterables / callables / streams so that every __iter__, __next__, key/function call, __bool__, write and
flush is logged, drives one call (and the __next__ steps the specification lists) and returns the
observation in the normal form that is compared with the expectation printed by TLC.

Nothing here decides what is *correct*: expected values, exception types and event sequences all come
from the specification.
"""
import contextlib
import math

INSTRUMENTED = ('iter', 'gen', 'iterobj')


class It(object):
    """One-shot iterator logging every __next__."""

    def __init__(self, xs, log, src):
        self.xs, self.log, self.src, self.i = list(xs), log, src, 0

    def __iter__(self):
        return self

    def __next__(self):
        if self.i < len(self.xs):
            self.i += 1
            self.log.append(('pull', self.src, self.i, ()))
            return self.xs[self.i - 1]
        self.log.append(('stop', self.src, 0, ()))
        raise StopIteration


def gen(xs, log, src):
    i = 0
    for x in xs:
        i += 1
        log.append(('pull', src, i, ()))
        yield x
    log.append(('stop', src, 0, ()))


class IterObj(object):
    """Re-iterable user object: __iter__ is logged and hands out a logging iterator."""

    def __init__(self, xs, log, src):
        self.xs, self.log, self.src = list(xs), log, src

    def __iter__(self):
        self.log.append(('iter', self.src, 0, ()))
        return It(self.xs, self.log, self.src)


class BoolObj(object):
    def __init__(self, truth, log, src, i):
        self.truth, self.log, self.src, self.i = truth, log, src, i

    def __bool__(self):
        self.log.append(('bool', self.src, self.i, ()))
        return bool(self.truth)


class AbsObj(object):
    def __init__(self, n):
        self.n = n

    def __abs__(self):
        return self.n + 100


class IntObj(object):
    def __init__(self, n):
        self.n = n

    def __int__(self):
        return self.n


class FloatObj(object):
    def __init__(self, h):
        self.h = h

    def __float__(self):
        return self.h / 2.0


class IdxObj(object):
    def __init__(self, n):
        self.n = n

    def __index__(self):
        return self.n


class LenObj(object):
    def __init__(self, r):
        self.r = r

    def __len__(self):
        return self.r


class Stream(object):
    """File-like object: text written and number of flush() calls."""

    def __init__(self):
        self.parts, self.flushes = [], 0

    def write(self, s):
        self.parts.append(s)
        return len(s)

    def flush(self):
        self.flushes += 1

    def text(self):
        return ''.join(self.parts)


def _fn(name, log):
    if name == 'fn_sum':
        def f(*a):
            log.append(('call', 0, 0, tuple(a)))
            return sum(a)
    elif name == 'fn_pos':
        def f(x):
            log.append(('call', 0, 0, (x,)))
            return x > 0
    elif name == 'fn_odd':
        def f(x):
            log.append(('call', 0, 0, (x,)))
            return x % 2 == 1
    elif name == 'fn_neg':
        def f(x):
            log.append(('call', 0, 0, (x,)))
            return -x
    elif name == 'fn_mod2':
        def f(x):
            log.append(('call', 0, 0, (x,)))
            return x % 2
    elif name == 'fn_const':
        def f(x):
            log.append(('call', 0, 0, (x,)))
            return 0
    else:
        raise KeyError(name)
    return f


def build(v, log, src, strtab, stream):
    """Tagged value -> Python object."""
    t, n, xs = v['t'], v['n'], v['xs']
    if t == 'int':
        return n
    if t == 'bool':
        return bool(n)
    if t == 'float':
        return n / 2.0
    if t == 'nan':
        return float('nan')
    if t == 'inf':
        return n * float('inf')
    if t == 'bigint':
        return n * 10 ** 400
    if t == 'none':
        return None
    if t == 'str':
        return strtab[n - 1]
    if t == 'list':
        return list(xs)
    if t == 'tuple':
        return tuple(xs)
    if t == 'set':
        return set(xs)
    if t == 'dict':
        return {x: x * 10 for x in xs}
    if t == 'mixlist':
        return [1, 'a']
    if t == 'iter':
        return It(xs, log, src)
    if t == 'gen':
        return gen(xs, log, src)
    if t == 'iterobj':
        return IterObj(xs, log, src)
    if t == 'boolobjs':
        return [BoolObj(x, log, src, i + 1) for i, x in enumerate(xs)]
    if t.startswith('fn_'):
        return _fn(t, log)
    if t == 'absobj':
        return AbsObj(n)
    if t == 'intobj':
        return IntObj(n)
    if t == 'floatobj':
        return FloatObj(n)
    if t == 'idxobj':
        return IdxObj(n)
    if t == 'lenobj':
        return LenObj(n)
    if t == 'lenobj_str':
        return LenObj('a')
    if t == 'lenobj_true':
        return LenObj(True)
    if t == 'lenobj_big':
        return LenObj(2 ** 70)
    if t == 'lenobj_float':
        return LenObj(1.0)
    if t == 'stream':
        return stream
    raise KeyError('unknown value tag %r' % (t,))


def build_call(rec, strtab):
    """-> (args, kwargs, log, stream) for the call described by a TLC record (fresh objects every time)."""
    log, stream = [], Stream()
    vals, np_, kws = rec['vals'], rec['np'], rec['kw']
    nsrc = 0
    args = []
    multi = rec['b'] in ('zip', 'map')
    for i in range(np_):
        src = 0
        if multi:
            if rec['b'] == 'zip' or i >= 1:
                nsrc += 1
                src = nsrc
        else:
            src = 1
        args.append(build(vals[i], log, src, strtab, stream))
    kwargs = {}
    for j, name in enumerate(kws):
        kwargs[name] = build(vals[np_ + j], log, 1, strtab, stream)
    return tuple(args), kwargs, log, stream


def norm_value(r):
    """Observed result -> (type name, canonical text)."""
    if type(r) is range:
        return ('range', repr(list(r)))
    if type(r) is float and math.isnan(r):
        return ('float', 'nan')
    return (type(r).__name__, repr(r))


def norm_expected(v):
    """Tagged expected value -> the same normal form."""
    t, n, xs = v['t'], v['n'], v['xs']
    if t == 'int':
        return ('int', repr(n))
    if t == 'bool':
        return ('bool', repr(bool(n)))
    if t == 'float':
        return ('float', repr(n / 2.0))
    if t == 'nan':
        return ('float', 'nan')
    if t == 'inf':
        return ('float', repr(n * float('inf')))
    if t == 'bigint':
        return ('int', repr(n * 10 ** 400))
    if t == 'none':
        return ('NoneType', 'None')
    if t == 'list':
        return ('list', repr(list(xs)))
    if t == 'tuple':
        return ('tuple', repr(tuple(xs)))
    if t == 'range':
        return ('range', repr(list(xs)))
    raise KeyError('no expected normal form for tag %r' % (t,))


def expected_events(evs, srcs):
    """Events the specification lists, restricted to what the harness can observe: pulls/stops of the
    instrumented sources, iter() of re-iterable objects, function/key calls, __bool__ calls."""
    out = []
    for e in evs:
        k, s = e['e'], e['s']
        if k in ('pull', 'stop') and srcs[s - 1] not in INSTRUMENTED:
            continue
        out.append((k, s, e['i'], tuple(e['a'])))
    return out


def expected_obs(rec):
    """The observation the specification demands, in the form produced by observe()."""
    out = rec['out']
    srcs = rec['srcs']
    o = dict(kind=out['k'], exc=out['exc'], value=None, ev=expected_events(rec['ev'], srcs), steps=[],
             stdout='', stream='', flushes=(0, 0))
    if out['k'] == 'ok':
        o['value'] = norm_expected(out['v'])
    for st in rec['steps']:
        o['steps'].append(dict(kind=st['kind'], exc=st['exc'],
                               value=norm_expected(st['v']) if st['kind'] == 'yield' else None,
                               ev=expected_events(st['ev'], srcs)))
    pr = rec['pr']
    if pr['to'] == 'stdout':
        o['stdout'] = ''.join(pr['text'])
        o['flushes'] = (pr['flushes'], 0)
    elif pr['to'] == 'stream':
        o['stream'] = ''.join(pr['text'])
        o['flushes'] = (0, pr['flushes'])
    return o


def observe(fn, rec, strtab):
    """Run fn(*args, **kwargs) for the call of `rec`, then as many __next__ as the specification lists."""
    args, kwargs, log, stream = build_call(rec, strtab)
    out = Stream()
    o = dict(kind='ok', exc='', value=None, ev=[], steps=[], stdout='', stream='', flushes=(0, 0))
    lazy = rec['out']['k'] == 'lazy'
    r = None
    with contextlib.redirect_stdout(out):
        try:
            r = fn(*args, **kwargs)
        except Exception as e:   # the exception *type* is the observation
            o['kind'], o['exc'] = 'exc', type(e).__name__
            o['msg'] = str(e)[:200]
        o['ev'] = list(log)
        del log[:]
        if o['kind'] == 'ok':
            if lazy:
                o['kind'] = 'lazy'
                if not hasattr(r, '__next__'):
                    o['kind'] = 'ok'
                    o['value'] = norm_value(r)
                else:
                    for _ in rec['steps']:
                        st = dict(kind='yield', exc='', value=None, ev=[])
                        try:
                            st['value'] = norm_value(next(r))
                        except StopIteration:
                            st['kind'] = 'stop'
                        except Exception as e:
                            st['kind'], st['exc'] = 'exc', type(e).__name__
                        st['ev'] = list(log)
                        del log[:]
                        o['steps'].append(st)
                        if st['kind'] != 'yield':
                            break
            else:
                o['value'] = norm_value(r)
    o['stdout'] = out.text()
    o['stream'] = stream.text()
    o['flushes'] = (out.flushes, stream.flushes)
    return o


def diff(exp, obs):
    """First clause on which an observation departs from the expectation ('' = none)."""
    if exp['kind'] != obs['kind']:
        if obs['kind'] == 'exc':
            return 'raises-' + obs['exc']
        if exp['kind'] == 'exc':
            return 'no-' + exp['exc']
        return 'laziness'
    if exp['kind'] == 'exc' and exp['exc'] != obs['exc']:
        return 'exception-type'
    if exp['ev'] != obs['ev']:
        return 'call-events'
    if exp['kind'] == 'ok' and exp['value'] != obs['value']:
        return 'value' if exp['value'][0] == obs['value'][0] else 'type'
    if len(exp['steps']) != len(obs['steps']):
        return 'steps'
    for a, b in zip(exp['steps'], obs['steps']):
        if (a['kind'], a['exc']) != (b['kind'], b['exc']):
            return 'step-outcome'
        if a['value'] != b['value']:
            return 'item'
        if a['ev'] != b['ev']:
            return 'pull-trace'
    if exp['stdout'] != obs['stdout'] or exp['stream'] != obs['stream']:
        return 'output'
    if tuple(exp['flushes']) != tuple(obs['flushes']):
        return 'flush'
    return ''
