"""Rendering of Scoping.tla states to source, CPython's symtable view, and the activity analysis' view."""
import ast
import symtable

from . import common

STMT = dict(B='v = 0', A='v += 1', F='for v in ():\n    pass', W='with cm() as v:\n    pass', M='import v',
            D='def v():\n    pass', U='(v)')


def _ind(text, n):
    return '\n'.join(('    ' * n + l) if l else l for l in text.split('\n'))


def fun_body(occ, inner):
    lines = []
    if 'G' in occ:
        lines.append('global v')
    if 'N' in occ:
        lines.append('nonlocal v')
    if 'Gi' in occ:
        lines.append('if 1:\n    global v')
    if 'Ni' in occ:
        lines.append('if 1:\n    nonlocal v')
    for k in ('B', 'A', 'F', 'W', 'M', 'D', 'U'):
        if k in occ:
            lines.append(STMT[k])
    if 'X' in occ:
        lines.append('del v')
    if inner:
        lines.append(inner)
    return '\n'.join(lines) or 'pass'


def render_scope(K, O, i):
    """Source text (statement) that introduces scope i (0-based) and everything nested in it."""
    k, occ = K[i], set(O[i])
    inner = render_scope(K, O, i + 1) if i + 1 < 3 and K[i + 1] != 'none' else ''
    hdr = '*, k=v' if 'H' in occ else ''
    occ = occ - {'H'}
    if k == 'function':
        params = ', '.join(x for x in ('v' if 'P' in occ else '', hdr) if x)
        return 'def s%d(%s):\n%s' % (i + 1, params, _ind(fun_body(occ - {'P'}, inner), 1))
    if k == 'lambda':
        params = ', '.join(x for x in ('v' if 'P' in occ else '', hdr) if x)
        body = ['v' if 'U' in occ else '0']
        if inner:
            body.append(inner[len('_l%d = ' % (i + 2)):] if inner.startswith('_l') else '0')
        return '_l%d = lambda %s: (%s)' % (i + 1, params, ', '.join(body))
    if k == 'class':
        lines = []
        if 'G' in occ:
            lines.append('global v')
        if 'N' in occ:
            lines.append('nonlocal v')
        if 'B' in occ:
            lines.append('v = 0')
        if 'D' in occ:
            lines.append('def v(self):\n    pass')
        if 'U' in occ:
            lines.append('(v)')
        if inner:
            lines.append(inner)
        return 'class s%d%s:\n%s' % (i + 1, '(kw=v)' if hdr else '', _ind('\n'.join(lines) or 'pass', 1))
    if k == 'comprehension':
        return '_c%d = [%s for %s in %s]' % (i + 1, 'v' if 'U' in occ else '0', 'v' if 'T' in occ else '_i', 'v' if 'I' in occ else '()')
    raise common.MachineryError('bad scope kind %r' % k)


def render(K, O):
    return render_scope(K, O, 0) + '\n'


def sym_class(tab):
    try:
        s = tab.lookup('v')
    except KeyError:
        return 'absent'
    if s.is_parameter():
        return 'param'
    if s.is_declared_global():
        return 'global_explicit'
    if s.is_nonlocal():
        return 'nonlocal'
    if s.is_local():
        return 'local'
    if s.is_free():
        return 'free'
    if s.is_global():
        return 'global_implicit'
    return 'absent'


def symtable_view(src):
    """{scope name: class of v} for the function scopes s1..s3; None if the source is not legal Python."""
    try:
        top = symtable.symtable(src, '<scoping>', 'exec')
        compile(src, '<scoping>', 'exec')
    except SyntaxError:
        return None
    out = {}

    def walk(t):
        if t.get_type() == 'function' and t.get_name().startswith('s'):
            out[t.get_name()] = sym_class(t)
        for c in t.get_children():
            walk(c)
    walk(top)
    return out


def activity_view(src):
    """{function name: class of v} as reported by the real activity analysis (ARGS_AND_BODY_SCOPE of each def)."""
    from malt.pyct import qual_names, anno, transformer, naming
    from malt.pyct.static_analysis import activity, annos
    node = ast.parse(src).body[0]
    info = transformer.EntityInfo(name='s1', source_code=src, source_file=None, future_features=(), namespace={})
    ctx = transformer.Context(info, naming.Namer({}), None)
    node = qual_names.resolve(node)
    node = activity.resolve(node, ctx, None)
    out = {}
    for n in ast.walk(node):
        if isinstance(n, ast.FunctionDef) and n.name.startswith('s') and n.name[1:].isdigit():
            sc = anno.getanno(n, annos.NodeAnno.ARGS_AND_BODY_SCOPE)
            names = lambda st: {str(q) for q in st}
            if 'v' in names(anno.getanno(n.args, anno.Static.SCOPE).params.keys()):
                c = 'param'
            elif 'v' in names(sc.globals):
                c = 'global_explicit'
            elif 'v' in names(sc.nonlocals):
                c = 'nonlocal'
            elif 'v' in names(sc.bound):
                c = 'local'
            elif 'v' in names(sc.read):
                c = 'free-or-global'
            else:
                c = 'absent'
            out[n.name] = c
    return out
