"""Callables under test for C13.  NOT imported as a module: vf/c13_callables.py renders the header and the
sections a case needs (they start at the "section:" comment lines) once per case (the marker C13CASEID is replaced by a
unique id, so that every function has a code object that is unequal to the one of every other case - code
objects compare by value and key the conversion cache), writes the text to a scratch file and executes it as
a fresh module under the module name the case asks for.

Every instrumented target records what it received as
    (name, case-id, implicit receiver or None, a, rest, k, kw)
in LOG, raises Boom(record) if RAISE is set, and returns the record.  Every body contains an `if`
statement (conditional expression for the lambda): instrumented ag__.if_stmt / ag__.if_exp firing inside
the callee is how the harness sees that converted code ran.
"""
import collections
import functools
import unittest

LOG = []
RAISE = False


class Boom(Exception):
  pass


def _boom():
  raise Boom(LOG[-1])


# --- section: function
def target(a='da', *rest, k='dk', **kw):
  r = ('target', 'C13CASEID', None, a, rest, k, kw)
  LOG.append(r)
  if RAISE:
    raise Boom(r)
  return r


# --- section: lambda
lam = lambda a='da', *rest, k='dk', **kw: (LOG.append(('lam', 'C13CASEID', None, a, rest, k, kw)), _boom() if RAISE else LOG[-1])[1]


# --- section: closure
def make_closure(tag):
  def inner(a='da', *rest, k='dk', **kw):
    r = ('closure', 'C13CASEID', tag, a, rest, k, kw)
    LOG.append(r)
    if RAISE:
      raise Boom(r)
    return r
  return inner


# --- section: decorated
def _deco(f):
  @functools.wraps(f)
  def wrapper(*args, **kwargs):
    case = 'C13CASEID'
    if case is None:
      return None
    return f(*args, **kwargs)
  return wrapper


@_deco
def decorated(a='da', *rest, k='dk', **kw):
  r = ('decorated', 'C13CASEID', None, a, rest, k, kw)
  LOG.append(r)
  if RAISE:
    raise Boom(r)
  return r


# --- section: obj
class Obj(object):
  """Instance methods, class methods, static methods, callable object."""

  def meth(self, a='da', *rest, k='dk', **kw):
    r = ('meth', 'C13CASEID', self, a, rest, k, kw)
    LOG.append(r)
    if RAISE:
      raise Boom(r)
    return r

  @classmethod
  def cmeth(cls, a='da', *rest, k='dk', **kw):
    r = ('cmeth', 'C13CASEID', cls, a, rest, k, kw)
    LOG.append(r)
    if RAISE:
      raise Boom(r)
    return r

  @staticmethod
  def smeth(a='da', *rest, k='dk', **kw):
    r = ('smeth', 'C13CASEID', None, a, rest, k, kw)
    LOG.append(r)
    if RAISE:
      raise Boom(r)
    return r

  def __call__(self, a='da', *rest, k='dk', **kw):
    r = ('call', 'C13CASEID', self, a, rest, k, kw)
    LOG.append(r)
    if RAISE:
      raise Boom(r)
    return r


# --- section: slots
class SlotsObj(object):
  """Callable object that cannot be weakly referenced (no negative caching possible)."""
  __slots__ = ('tag',)

  def __call__(self, a='da', *rest, k='dk', **kw):
    r = ('slotscall', 'C13CASEID', self, a, rest, k, kw)
    LOG.append(r)
    if RAISE:
      raise Boom(r)
    return r


# --- section: staticcall
class StaticCall(object):

  @staticmethod
  def __call__(a='da', *rest, k='dk', **kw):
    r = ('staticcall', 'C13CASEID', None, a, rest, k, kw)
    LOG.append(r)
    if RAISE:
      raise Boom(r)
    return r


# --- section: classcall
class ClassCall(object):

  @classmethod
  def __call__(cls, a='da', *rest, k='dk', **kw):
    r = ('classcall', 'C13CASEID', cls, a, rest, k, kw)
    LOG.append(r)
    if RAISE:
      raise Boom(r)
    return r


# --- section: gencall
class GenCall(object):

  def __call__(self, a='da', *rest, k='dk', **kw):
    r = ('gencall', 'C13CASEID', self, a, rest, k, kw)
    LOG.append(r)
    if RAISE:
      raise Boom(r)
    yield r


# --- section: nativecall
class NativeCall(object):
  """Callable object whose __call__ is a native binding (no __code__)."""
  __call__ = dict


# --- section: partialsub
class PartialSub(functools.partial):
  """A functools.partial subclass whose own __call__ is what Python runs."""

  def __call__(self, a='da', *rest, k='dk', **kw):
    r = ('partialsubcall', 'C13CASEID', self, a, rest, k, kw)
    LOG.append(r)
    if RAISE:
      raise Boom(r)
    return r


# --- section: meta
class Meta(type):

  def __call__(cls, a='da', *rest, k='dk', **kw):
    r = ('metacall', 'C13CASEID', cls, a, rest, k, kw)
    LOG.append(r)
    if RAISE:
      raise Boom(r)
    return r


class WithMeta(metaclass=Meta):
  pass


# --- section: cls
class Cls(object):
  """A constructor."""

  def __init__(self, a='da', *rest, k='dk', **kw):
    r = ('init', 'C13CASEID', None, a, rest, k, kw)
    LOG.append(r)
    if RAISE:
      raise Boom(r)
    self.got = r


# --- section: nt
NT = collections.namedtuple('NT', ['a', 'b', 'k', 'z'], defaults=('da', 'db', 'dk', 'dz'))
NT2 = collections.namedtuple('NT2', ['a', 'b'], defaults=('da', 'db'))


class NTSub(NT):

  def meth(self, a='da', *rest, k='dk', **kw):
    r = ('ntsubmeth', 'C13CASEID', self, a, rest, k, kw)
    LOG.append(r)
    if RAISE:
      raise Boom(r)
    return r


# --- section: testcase
class TC(unittest.TestCase):

  def runTest(self):
    pass

  def meth(self, a='da', *rest, k='dk', **kw):
    r = ('tcmeth', 'C13CASEID', self, a, rest, k, kw)
    LOG.append(r)
    if RAISE:
      raise Boom(r)
    return r


# --- section: owner
class OwnerBase(object):
  """The harness attaches owner_meth of ANOTHER (user) copy of this file to the copy of this class that
  lives in an allow-listed module."""


def owner_meth(self, a='da', *rest, k='dk', **kw):
  r = ('ownermeth', 'C13CASEID', self, a, rest, k, kw)
  LOG.append(r)
  if RAISE:
    raise Boom(r)
  return r


# --- section: callfunc
def call_func(self, a='da', *rest, k='dk', **kw):
  """Becomes the __call__ of a user class when this copy lives in an allow-listed module."""
  r = ('callfunc', 'C13CASEID', self, a, rest, k, kw)
  LOG.append(r)
  if RAISE:
    raise Boom(r)
  return r


# --- section: gen
def gen(a='da', *rest, k='dk', **kw):
  r = ('gen', 'C13CASEID', None, a, rest, k, kw)
  LOG.append(r)
  if RAISE:
    raise Boom(r)
  yield r


# --- section: acoro
async def acoro(a='da', *rest, k='dk', **kw):
  r = ('acoro', 'C13CASEID', None, a, rest, k, kw)
  LOG.append(r)
  if RAISE:
    raise Boom(r)
  return r


# --- section: lru
@functools.lru_cache(maxsize=None)
def cached(a='da', *rest, k='dk', **kw):
  r = ('cached', 'C13CASEID', None, a, rest, k, tuple(sorted(kw.items())))
  LOG.append(r)
  if RAISE:
    raise Boom(r)
  return r


# --- section: forelse
def forelse(a='da', *rest, k='dk', **kw):
  r = ('forelse', 'C13CASEID', None, a, rest, k, kw)
  LOG.append(r)
  for _ in ():
    pass
  else:
    if RAISE:
      raise Boom(r)
  return r


# --- section: exec
_SRC = '''
def %s(a='da', *rest, k='dk', **kw):
  r = ('%s', 'C13CASEID', None, a, rest, k, kw)
  LOG.append(r)
  if RAISE:
    raise Boom(r)
  return r
'''
exec(_SRC % ('execd', 'execd'), globals())                                           # co_filename '<string>'
exec(compile(_SRC % ('nosource', 'nosource'), '<vfc13-no-source>', 'exec'), globals())  # no source anywhere

# --- section: wrapt
try:
  import wrapt

  @wrapt.decorator
  def _wrapt_deco(wrapped, instance, args, kwargs):
    return wrapped(*args, **kwargs)

  @_wrapt_deco
  def wrapted(a='da', *rest, k='dk', **kw):
    r = ('wrapted', 'C13CASEID', None, a, rest, k, kw)
    LOG.append(r)
    if RAISE:
      raise Boom(r)
    return r
except ImportError:  # the harness reports the kind as not realisable
  wrapted = None
