"""C10, code -> spec: free-running multi-threaded runs of the real conversion cache, recorded as event traces.

One job = one trace: a fresh traced transpiler (vf/c10_probe.py) installed as malt.impl.api._TRANSPILER,
a fresh pool of real functions (vf/c10_pool.py), N threads hammering it through
PyToPy.transform / malt.to_graph / api.convert wrappers / api.converted_call with random start barriers and
sys.setswitchinterval(1e-6); redefinitions happen concurrently, collections at thread-private lifecycles and
at the checkpoint between the two phases.  The heap part of the specification is exercised as well: closures over
distinct cells holding equal values (twins), captured variables rebound concurrently / at the checkpoints / in
private lifecycles (Rebind), and private lifecycles in which the next generation's code object is allocated at
the address of the dead one (DefineFn at an address from FreeAddrs).  The recorded trace is judged by TLC (spec/TraceConvCache.tla),
not here.  What is compared here is only the *differential* part of the property: every returned function
against a cache-less fresh conversion of that exact function object (values on a few inputs, and the
conversion options that reach the generated function scopes).
"""
import ast
import gc
import os
import sys
import random
import tempfile
import threading
import types
import weakref

from . import common
from . import c10_pool as poolmod
from . import c10_probe as probemod

ENTRIES = ('transform', 'transform', 'transform', 'to_graph', 'convert', 'converted_call')


def options_table():
    from malt.core import converter as conv
    F = conv.Feature
    return [
        conv.ConversionOptions(recursive=True, user_requested=True, optional_features=None),
        conv.ConversionOptions(recursive=False, user_requested=True, optional_features=None),
        conv.ConversionOptions(recursive=True, user_requested=True, optional_features=F.EQUALITY_OPERATORS),
        conv.ConversionOptions(recursive=True, user_requested=True, optional_features=(F.EQUALITY_OPERATORS, F.LISTS)),
        conv.ConversionOptions(recursive=True, user_requested=False, optional_features=None),
        conv.ConversionOptions(recursive=True, user_requested=True, internal_convert_user_code=False, optional_features=None),
    ]


# pairs of option values (indices) that differ in exactly one field: recursive / user_requested /
# internal_convert_user_code / optional_features.  Every job works on one such pair plus one more value.
ONE_FIELD_PAIRS = [(0, 1), (0, 4), (0, 5), (2, 3)]


# ---------------------------------------------------------------------------------------------
class ScopeSpy:
    """Records the ConversionOptions that reach FunctionScope while a function under observation runs."""

    def __init__(self):
        from malt.operators import function_wrappers
        self.cls = function_wrappers.FunctionScope
        self.orig = self.cls.__init__
        self.tls = threading.local()

    def install(self):
        orig, tls = self.orig, self.tls

        def spy(this, function_name, scope_name, options):
            rec = getattr(tls, 'rec', None)
            if rec is not None:
                rec.append((function_name, poolmod.Registry.opt_key(options) or repr(options)))
            return orig(this, function_name, scope_name, options)

        self.cls.__init__ = spy

    def remove(self):
        self.cls.__init__ = self.orig

    def observe(self, fn, extra_args=()):
        self.tls.rec = []
        try:
            b = poolmod.behaviour(fn, extra_args=extra_args)
        finally:
            scopes, self.tls.rec = self.tls.rec, None
        return b, scopes


class StressPool:
    """Slots (name -> live function object) over four globals dicts."""

    def __init__(self, sources, reg, fresh_version):
        from malt.lang import directives
        self.sources = sources
        self.reg = reg
        self.fresh_version = fresh_version
        self.A = poolmod.new_globals('c10pool_A', 100)
        self.B = poolmod.new_globals('c10pool_B', 200)
        self.QA = poolmod.new_globals('c10pool_QA', 100)
        self.QB = poolmod.new_globals('c10pool_QB', 200)
        self.slots = {}
        self.lock = threading.Lock()
        # every compile() uses a version of its own: code objects compare by value, and two compilations of
        # one source file would be *equal* code objects (one cache entry, by WeakKeyDictionary semantics)
        code = sources.compile(fresh_version())
        exec(code, self.A)
        exec(code, self.B)
        del code
        self.slots.update(pA=self.A['plain'], pB=self.B['plain'], hA=self.A['helper'],
                          pA8=poolmod.clone_with_defaults(self.A['plain'], (8,)),
                          ld=self.A['make_dir'](directives.set_loop_options),
                          lu=self.A['make_dir'](self.A['record']))
        for g in (self.A, self.B):
            poolmod.forget_factories(g)
        # a function whose source cannot be read: every conversion of it fails before transform_ast (ParseFail)
        self.N = poolmod.new_globals('c10pool_N', 100)
        exec(compile(poolmod.NOSRC, '<c10-no-source-%d>' % fresh_version(), 'exec'), self.N)
        self.slots['ns'] = self.N['nosrc']
        reg.expected_fail.add(reg.code_id(self.N['nosrc'].__code__))
        self.make_q()

    def make_q(self):
        code = self.sources.compile(self.fresh_version())
        exec(code, self.QA)
        exec(code, self.QB)
        del code
        # q1, q4, q5: one code object, one globals dict, equal defaults, distinct cells that hold equal values (twins);
        # q4 / q5 are the ones whose captured variable is rebound while requests are running
        self.slots.update(q1=self.QA['make'](1, 5), q2=self.QA['make'](2, 5), q3=self.QA['make'](1, 6),
                          qB=self.QB['make'](1, 5), q4=self.QA['make'](1, 5), q5=self.QA['make'](1, 5))
        for g in (self.QA, self.QB):
            poolmod.forget_factories(g)

    def drop_q(self):
        """Drops the q family; returns [(code id, weakref to the code object)]."""
        out = []
        for nm in ('q1', 'q2', 'q3', 'qB', 'q4', 'q5'):
            f = self.slots.pop(nm, None)
            if f is not None:
                cid = self.reg.code_id(f.__code__, create=False)
                if cid and cid not in [w[0] for w in out]:
                    out.append((cid, weakref.ref(f.__code__)))
            del f
        return out

    def redefine_A(self, version):
        """Same names, same module namespace, new code objects."""
        code = self.sources.compile(version)
        with self.lock:
            exec(code, self.A)
            poolmod.forget_factories(self.A)
            self.slots['pA'] = self.A['plain']
            self.slots['hA'] = self.A['helper']
            self.slots['pA8'] = poolmod.clone_with_defaults(self.A['plain'], (8,))
        del code


def family(slot):
    if slot.startswith('reuse'):
        return 'reuse'
    return {'p': 'plain', 'h': 'helper', 'q': 'closure', 'l': 'looper', 'n': 'nosource'}.get(slot[0], slot)


REBINDABLE = ('q4', 'q5')       # requested through transform / to_graph only: no value is taken while threads run
CELL_VALUES = (1, 2, 3)


def captured_seen(fn, b):
    """What a result of a request for fn read through its closure when it was called (behaviour b): the functions
    made by `make` return their captured k as the third component."""
    if fn.__code__.co_freevars != ('k',) or not b or b[0][0] != 'ok':
        return None
    try:
        return (repr(ast.literal_eval(b[0][1])[2]),)
    except Exception:  # noqa: BLE001 - not the shape of make.fn's result: nothing to report
        return None


# ---------------------------------------------------------------------------------------------
def plan_jobs(seed, tier):
    """The list of stress jobs (deterministic in the seed)."""
    rnd = random.Random(seed * 7919 + 17)
    jobs = []
    if tier == 'quick':
        shape = [(1, 4), (2, 16), (4, 26), (8, 24), (16, 18), (32, 10)]
    else:
        shape = [(1, 20), (2, 180), (3, 140), (4, 220), (8, 220), (16, 190), (32, 140)]
    for nthreads, count in shape:
        for _ in range(count):
            jobs.append(dict(id=len(jobs) + 1, seed=rnd.randrange(1 << 30), nthreads=nthreads))
    # scripted sequential histories (one thread): both orders of the two loopers, every option value twice
    for first, second in (('ld', 'lu'), ('lu', 'ld')):
        items = [('req', s, oi, 'transform', None, 0) for oi in (0, 2) for s in (first, second, first)]
        jobs.append(dict(id=len(jobs) + 1, seed=rnd.randrange(1 << 30), nthreads=1, script={'1': [items], '2': [[]]}))
    for a, b in ONE_FIELD_PAIRS:
        items = [('req', s, oi, 'transform', None, 0) for s in ('pA', 'q1') for oi in (a, b, a)]
        jobs.append(dict(id=len(jobs) + 1, seed=rnd.randrange(1 << 30), nthreads=1, script={'1': [items], '2': [[]]}))
    # sequential histories over the heap part of the specification: twins requested one after the other and one of
    # them rebound afterwards (by the script / at the checkpoint); generations of private functions whose code object
    # takes the address of the dead one and is the subject of the next request
    for oi, entry in ((0, 'transform'), (2, 'to_graph')):
        items = [('req', 'q4', oi, entry, None, 0), ('req', 'q5', oi, entry, None, 0), ('rebind', 'q5', 3),
                 ('req', 'q1', oi, entry, None, 0), ('req', 'q4', oi, entry, None, 0), ('rebind', 'q4', 2),
                 ('reuse', 'fn', [oi]), ('reuse', 'plain', [oi]), ('reuse', 'fn', [oi, 1])]
        jobs.append(dict(id=len(jobs) + 1, seed=rnd.randrange(1 << 30), nthreads=1,
                         script={'1': [items], '2': [[('req', 'q5', oi, entry, None, 0), ('req', 'q4', oi, entry, None, 0)]]}))
    return jobs


SLOTS = ['pA', 'pB', 'pA8', 'q1', 'q2', 'q3', 'qB', 'q4', 'q5', 'hA', 'ld', 'lu', 'ns']


def _make_items(rnd, nthreads, slots, ois, script=None):
    """Work items of one phase, per thread.  A job works on a few slots and option values only, so that many
    threads ask for the same few keys at the same time."""
    if script is not None:
        return script
    per = max(1, min(4, 16 // nthreads))
    hot = rnd.sample(slots, 2)
    out = []
    for t in range(nthreads):
        items = []
        for _ in range(per):
            r = rnd.random()
            if r < 0.05:
                items.append(('redefine',))
                continue
            if r < 0.11:
                items.append(('private', rnd.choice(('plain', 'fn')), [rnd.choice(ois)]))
                continue
            if r < 0.14:
                items.append(('reuse', rnd.choice(('fn', 'fn', 'plain')), [rnd.choice(ois)]))
                continue
            if r < 0.19:
                items.append(('rebind', rnd.choice(REBINDABLE), rnd.choice(CELL_VALUES)))
                continue
            slot = rnd.choice(hot) if rnd.random() < 0.5 else rnd.choice(slots)
            oi = rnd.choice(ois)
            entry = rnd.choice(ENTRIES)
            plan = None
            if entry == 'transform':
                q = rnd.random()
                if q < 0.08:
                    plan = ('fail',)
                elif q < 0.13:
                    plan = ('pfail',)
                elif q < 0.26:
                    plan = ('nest', rnd.choice(slots), rnd.choice(ois), rnd.random() < 0.25, rnd.random() < 0.5)
            items.append(('req', slot, oi, entry, plan, rnd.choice((-1, 0, 3))))
        out.append(items)
    return out


def run_job(job):
    """Runs one stress job in this process; returns dict(trace=, diffs=[violation dicts], stats=)."""
    from malt.impl import api
    from malt.core import converter as conv

    rnd = random.Random(job['seed'])
    nthreads = job['nthreads']
    root = os.path.join(job['scratch'], 'p%d' % os.getpid())
    os.makedirs(os.path.join(root, 'tmp'), exist_ok=True)
    old_tmp = tempfile.tempdir
    tempfile.tempdir = os.path.join(root, 'tmp')
    mods_before = poolmod.generated_module_names()
    old_switch = sys.getswitchinterval()
    old_transpiler = api._TRANSPILER
    opts = options_table()
    reg = poolmod.Registry()
    for i, o in enumerate(opts):
        reg.set_opt(o, i + 1)
    probe = probemod.Probe(reg)
    T = probemod.traced_transpiler(probe)
    sources = poolmod.sources_for(os.path.join(root, 'src'))
    spy = ScopeSpy()
    diffs = []
    dlock = threading.Lock()
    stats = dict(requests=0, private=0, redefine=0, collected=0, uncollectable=0, compared=0, injected=0,
                 rebinds=0, reuse=0, reuse_at_address=0, looks=0)
    checker_tid = nthreads + 1
    next_version = [10]
    vlock = threading.Lock()

    def fresh_version():
        with vlock:
            next_version[0] += 1
            return next_version[0]

    pool = StressPool(sources, reg, fresh_version)

    def diff(sig, what, **w):
        with dlock:
            diffs.append(dict(signature=sig, what=what, witness=dict(w, job=dict(job))))

    route = threading.local()

    class Router:
        """Installed as api._TRANSPILER for the duration of the job.  Requests normally go to the traced
        transpiler; while a *reference* (fresh conversion) is being observed, the conversions of its callees go to
        fresh, cache-less transpilers as well, so that the reference never depends on the cache under test."""

        def transform(self, obj, user_context):
            if getattr(route, 'fresh', False):
                return api.PyToPy().transform(obj, user_context)
            return T.transform(obj, user_context)

    def reference(fn, o):
        return api.PyToPy().transform(fn, conv.ProgramContext(options=o))[0]

    def observe_reference(ref):
        route.fresh = True
        try:
            return spy.observe(ref)
        finally:
            route.fresh = False

    def compare(fn, oi, g, slot, entry, x=None, val=None, memo=None, fac=None):
        """g (and/or the value obtained through a calling entry point) against a fresh conversion of fn.

        The fresh conversion and the original are observed once per (function object, options); a returned
        function is observed on all inputs (plus the options reaching its function scopes) the first time a
        given factory is handed out for that function object, and on one input every further time."""
        key = (id(fn), oi)
        ent = memo.get(key) if memo is not None else None
        if ent is None:
            try:
                ref = reference(fn, opts[oi])
            except Exception as e:  # noqa: BLE001
                raise common.MachineryError('C10 pool function %s does not convert on a fresh transpiler: %r' % (slot, e))
            b_ref, s_ref = observe_reference(ref)
            b_org = poolmod.behaviour(fn)
            if b_ref != b_org:
                raise common.MachineryError('C10 pool function %s: fresh conversion and original disagree %r / %r' % (
                    slot, b_ref, b_org))
            ent = dict(fn=fn, ref=ref, b=b_ref, s=s_ref, seen=set())
            if memo is not None:
                memo[key] = ent
        b_ref, s_ref = ent['b'], ent['s']
        stats['compared'] += 1
        fam = family(slot)
        if g is not None:
            if fac is not None and fac in ent['seen']:
                i = stats['compared'] % len(poolmod.INPUTS)
                b_g = poolmod.behaviour(g, inputs=poolmod.INPUTS[i:i + 1])
                b_want, s_g, s_want = b_ref[i:i + 1], None, None
            else:
                b_g, s_g = spy.observe(g)
                b_want, s_want = b_ref, s_ref
                if fac is not None:
                    ent['seen'].add(fac)
            seen = captured_seen(fn, b_g)
            if seen is not None:
                stats['looks'] += 1
                probe.look(fn, oi + 1, seen)
            if b_g != b_want:
                diff('c10:fresh-diff:value:%s' % fam,
                     'the function returned for a request behaves differently from a fresh conversion of that function object',
                     slot=slot, options=oi + 1, entry=entry, returned=b_g, fresh=b_want)
            elif s_g != s_want:
                diff('c10:fresh-diff:options:%s' % fam,
                     'the function returned for a request was converted under other options than requested',
                     slot=slot, options=oi + 1, entry=entry, returned=s_g, fresh=s_want)
        if val is not None:
            want = b_ref[poolmod.INPUTS.index(x)]
            if val != want:
                diff('c10:fresh-diff:call-value:%s' % fam,
                     'calling through %s gives another result than calling a fresh conversion' % entry,
                     slot=slot, options=oi + 1, entry=entry, got=val, fresh=want)

    def refresh(memo, only=None):
        """The captured variables were rebound: the fresh conversions (bound to the functions' own cells) and the
        originals are observed again; they have to agree with each other again."""
        for (_, oi), ent in memo.items():
            if only is not None and not any(ent['fn'] is f for f in only):
                continue
            b_ref, s_ref = observe_reference(ent['ref'])
            b_org = poolmod.behaviour(ent['fn'])
            if b_ref != b_org:
                raise common.MachineryError('C10 pool: after a rebinding the fresh conversion and the original disagree '
                                            '%r / %r' % (b_ref, b_org))
            ent.update(b=b_ref, s=s_ref, seen=set())

    def find_done(fn, oi):
        cid = reg.code_id(fn.__code__, create=False)
        eid = reg.env_id(fn, create=False)
        for d in getattr(probe.tls, 'done', ()):
            if (d['cid'], d['eid'], d['oid']) == (cid, eid, oi + 1):
                return d
        return None

    def build_plan(spec):
        if spec is None:
            return None
        if spec[0] == 'fail':
            return probemod.Plan(fail=True)
        if spec[0] == 'pfail':
            return probemod.Plan(parse_fail=True)
        _, nslot, noi, nfail, propagate = spec
        nfn = pool.slots.get(nslot)
        if nfn is None:
            return None
        return probemod.Plan(nested=(nfn, opts[noi], probemod.Plan(fail=True) if nfail else None), propagate=propagate)

    def do_request(item, stash):
        _, slot, oi, entry, plan_spec, x = item
        fn = pool.slots.get(slot)
        if fn is None:
            return
        o = opts[oi]
        if entry in ('to_graph', 'convert') and not (o.user_requested and o.internal_convert_user_code):
            entry = 'transform'
        if slot in ('ld', 'lu') and entry in ('convert', 'converted_call'):
            entry = 'transform'   # the looper's observable is a shared counter: it is only called at checkpoints
        if slot in REBINDABLE and entry in ('convert', 'converted_call'):
            entry = 'to_graph' if (o.user_requested and o.internal_convert_user_code) else 'transform'
        plan = build_plan(plan_spec) if entry == 'transform' else None
        if plan is not None and plan.nested is not None:
            nfn, nopt, _ = plan.nested
            if nfn.__code__ is fn.__code__ and nopt == o:
                plan = None     # exclusion of the specification: no re-entrance on the key being converted
        probe.tls.next_plan = plan
        probe.tls.done = []
        g = val = fac = None
        stats['requests'] += 1
        try:
            if entry == 'transform':
                g = T.transform(fn, conv.ProgramContext(options=o))[0]
                fac = (find_done(fn, oi) or {}).get('fac')
            elif entry == 'to_graph':
                g = api.to_graph(fn, recursive=o.recursive,
                                 experimental_optional_features=tuple(o.optional_features) or None)
                fac = (find_done(fn, oi) or {}).get('fac')
            elif entry == 'convert':
                w = api.convert(recursive=o.recursive, optional_features=tuple(o.optional_features) or None,
                                user_requested=True)(fn)
                try:
                    val = ('ok', repr(w(x)))
                except probemod.InjectedFault:
                    raise
                except Exception as e:  # noqa: BLE001
                    val = ('exc', type(e).__name__)
                d = find_done(fn, oi) or {}
                g, fac = d.get('g'), d.get('fac')
            else:
                try:
                    val = ('ok', repr(api.converted_call(fn, (x,), None, options=o)))
                except probemod.InjectedFault:
                    raise
                except Exception as e:  # noqa: BLE001
                    val = ('exc', type(e).__name__)
                d = find_done(fn, oi) or {}
                g, fac = d.get('g'), d.get('fac')
        except probemod.InjectedFault:
            stats['injected'] += 1
            return
        except Exception as e:  # noqa: BLE001 - a request that raises is compared with the fresh conversion below
            stash.append(dict(fn=fn, oi=oi, g=None, slot=slot, entry=entry, x=None, val=None, exc=e, fac=None))
            return
        finally:
            probe.tls.next_plan = None
            probe.tls.done = []
        stash.append(dict(fn=fn, oi=oi, g=g, slot=slot, entry=entry, x=x, val=val, exc=None, fac=fac))

    def do_private(item):
        """A thread-private function: defined, requested, compared, dropped (its code object dies)."""
        _, which, ois = item
        stats['private'] += 1
        P = poolmod.new_globals('c10priv', 300 + probe.tid())
        code = sources.compile(fresh_version())
        exec(code, P)
        del code
        fn = P['plain'] if which == 'plain' else P['make'](1, 5)
        poolmod.forget_factories(P)
        pmemo = {}
        for oi in ois:
            probe.tls.next_plan = None
            probe.tls.done = []
            stats['requests'] += 1
            try:
                g = T.transform(fn, conv.ProgramContext(options=opts[oi]))[0]
            except Exception as e:  # noqa: BLE001
                check_exception(fn, oi, 'private-' + which, 'transform', e)
                continue
            compare(fn, oi, g, 'private-' + which, 'transform', memo=pmemo)
            if which == 'fn':
                # the captured variable is rebound after the request: the result has to follow
                do_rebind(fn, 2)
                refresh(pmemo)
                compare(fn, oi, g, 'private-' + which, 'transform', memo=pmemo)
            del g
        pmemo.clear()
        probe.tls.done = []
        probe.tls.last = None
        watch = []
        for v in list(P.values()) + [fn]:
            c = getattr(v, '__code__', None)
            if c is not None:
                cid = reg.code_id(c, create=False)
                if cid and cid not in [w[0] for w in watch]:
                    watch.append((cid, weakref.ref(c)))
            del c
        del fn, v
        P.clear()
        for cid, wr in watch:
            if wr() is None:
                stats['collected'] += 1
                probe.collected(cid)
            else:
                stats['uncollectable'] += 1

    def do_rebind(fn, value):
        if fn is not None and probe.rebind(fn, 'k', value):
            stats['rebinds'] += 1

    def do_reuse(item):
        """Generations of thread-private functions: a pair of twins (one new code object, two function objects over
        distinct cells holding equal values) is requested, compared, one twin's captured variable is rebound, both are
        compared again, then everything is dropped; the code object of the next generation - another definition - is
        allocated where the dead one was and is the subject of this thread's next request."""
        _, which, ois = item
        stats['reuse'] += 1
        P = poolmod.new_globals('c10reuse', 400 + probe.tid())
        templates = []
        for _ in range(2):
            ns = poolmod.new_globals('c10templ', 500 + probe.tid())
            code = sources.compile(fresh_version())
            exec(code, ns)
            del code
            templates.append(ns)
        P['helper'] = templates[0]['helper']
        slot = 'reuse-' + which
        address = None
        for gen, ns in enumerate(templates):
            # what executing the def again gives: a new code object (here: a copy of the template's, so that its
            # lifetime is exactly that of the functions made from it; the template itself is never converted)
            tcode = ns['plain'].__code__ if which == 'plain' else ns['make'](1, 5).__code__
            parked = []
            code = tcode.replace(co_name=tcode.co_name)
            while address is not None and id(code) != address and len(parked) < 400:
                parked.append(code)
                code = tcode.replace(co_name=tcode.co_name)
            if address is not None and id(code) == address:
                stats['reuse_at_address'] += 1
            del parked
            if which == 'plain':
                twins = [types.FunctionType(code, P, 'plain', (7,))]
            else:
                twins = []
                for _ in range(2):
                    f = types.FunctionType(code, P, 'fn', (5,), (types.CellType(1),))
                    f.__kwdefaults__ = {'kw': 5}
                    twins.append(f)
                del f
            wr, address = weakref.ref(code), id(code)
            del code, tcode
            pmemo, got = {}, []
            for oi in ois:
                for fn in twins:
                    probe.tls.next_plan = None
                    probe.tls.done = []
                    stats['requests'] += 1
                    try:
                        got.append((fn, oi, T.transform(fn, conv.ProgramContext(options=opts[oi]))[0]))
                    except Exception as e:  # noqa: BLE001
                        check_exception(fn, oi, slot, 'transform', e)
            for rebound in (False, True):
                if rebound:
                    if which != 'fn':
                        break
                    do_rebind(twins[-1], 2 + gen)
                    refresh(pmemo)
                for fn, oi, g in got:
                    compare(fn, oi, g, slot, 'transform', memo=pmemo)
            pmemo.clear()
            del got[:]
            probe.tls.done = []
            probe.tls.last = None
            cid = reg.code_id(twins[0].__code__, create=False)
            fn = g = None
            del twins[:]
            if wr() is None:
                stats['collected'] += 1
                probe.collected(cid)
            else:
                stats['uncollectable'] += 1
                address = None
        P.clear()

    def check_exception(fn, oi, slot, entry, exc):
        try:
            reference(fn, opts[oi])
        except Exception as e:  # noqa: BLE001
            if slot == 'ns' and type(e).__name__ in (type(exc).__name__, 'InaccessibleSourceCodeError'):
                stats['expected_failures'] = stats.get('expected_failures', 0) + 1
                return      # the fresh conversion fails in the same way: the request behaved like it
            raise common.MachineryError('C10 pool function %s does not convert on a fresh transpiler: %r' % (slot, e))
        diff('c10:request-raised:%s' % type(exc).__name__,
             'a request raised %s although a fresh conversion of that function succeeds' % type(exc).__name__,
             slot=slot, options=oi + 1, entry=entry, exception=repr(exc))

    def checkpoint(stashes):
        memo = {}
        again = []
        # afterwards one of the twins is rebound and the results handed out for the twins are observed once more
        target = rnd.choice(('q1', 'q4', 'q5'))
        twins = [pool.slots.get(nm) for nm in ('q1', 'q4', 'q5')]
        for st in stashes:
            for s in st:
                if s['exc'] is None and s['g'] is not None and any(s['fn'] is f for f in twins):
                    again.append(s)
        for st in stashes:
            for s in st:
                if s['exc'] is not None:
                    check_exception(s['fn'], s['oi'], s['slot'], s['entry'], s['exc'])
                elif s['slot'] == 'ns':
                    # conversion fails (no source): the calling entry points fall back to the original function
                    want = poolmod.behaviour(s['fn'], inputs=(s['x'],))[0]
                    if s['val'] != want:
                        diff('c10:fresh-diff:call-value:nosource', 'fallback call of an unconvertible function gives another result',
                             slot='ns', got=s['val'], original=want)
                else:
                    compare(s['fn'], s['oi'], s['g'], s['slot'], s['entry'], s['x'], s['val'], memo, s['fac'])
            del st[:]
        if again:
            tf = pool.slots.get(target)
            do_rebind(tf, 1 + tf.__closure__[0].cell_contents % 3)
            refresh(memo, only=twins)
            for s in again:
                compare(s['fn'], s['oi'], s['g'], s['slot'], s['entry'], memo=memo)
        memo.clear()
        del twins, again

    barrier = threading.Barrier(nthreads)
    stashes = [[] for _ in range(nthreads)]
    crashed = []

    def worker(tid, items, delay):
        probe.register_thread(tid)
        r = random.Random(job['seed'] * 31 + tid)
        try:
            barrier.wait()
            for _ in range(delay):          # random start offset after the barrier
                pass
            for item in items:
                if r.random() < 0.3:
                    for _ in range(r.randrange(200)):
                        pass
                if item[0] == 'req':
                    do_request(item, stashes[tid - 1])
                elif item[0] == 'redefine':
                    stats['redefine'] += 1
                    pool.redefine_A(fresh_version())
                elif item[0] == 'rebind':
                    do_rebind(pool.slots.get(item[1]), item[2])
                elif item[0] == 'reuse':
                    do_reuse(item)
                else:
                    do_private(item)
        except threading.BrokenBarrierError:
            pass
        except BaseException as e:  # noqa: BLE001
            crashed.append(e)
            barrier.abort()

    hung = False
    import logging as _logging
    _logging.disable(_logging.WARNING)      # converted_call logs a warning whenever it falls back
    spy.install()
    api._TRANSPILER = Router()
    try:
        probe.register_thread(checker_tid)
        job_slots = rnd.sample(SLOTS, 5)
        job_ois = list(rnd.choice(ONE_FIELD_PAIRS))
        job_ois.append(rnd.choice([i for i in range(len(opts)) if i not in job_ois]))
        switch = rnd.choice((1e-6, 1e-6, 1e-5, 1e-4, 5e-3))
        for phase in (1, 2):
            per_thread = _make_items(rnd, nthreads, job_slots, job_ois,
                                     (job.get('script') or {}).get(str(phase)) if job.get('script') else None)
            ths = [threading.Thread(target=worker, args=(i + 1, per_thread[i], rnd.randrange(2000)), daemon=True)
                   for i in range(nthreads)]
            sys.setswitchinterval(switch)
            for th in ths:
                th.start()
            for th in ths:
                th.join(120)
            sys.setswitchinterval(old_switch)
            if any(th.is_alive() for th in ths):
                hung = True
                break
            if crashed:
                break
            barrier.reset()
            checkpoint(stashes)
            if phase == 1:
                # environment between the phases: the q family dies and is born again with new code objects
                probe.tls.done = []
                probe.tls.last = None
                watch = pool.drop_q()
                gc.collect()
                for cid, wr in watch:
                    if wr() is None:
                        stats['collected'] += 1
                        probe.collected(cid)
                    else:
                        stats['uncollectable'] += 1
                pool.make_q()
    finally:
        sys.setswitchinterval(old_switch)
        api._TRANSPILER = old_transpiler
        _logging.disable(_logging.NOTSET)
        spy.remove()
        tempfile.tempdir = old_tmp
    if crashed:
        e = crashed[0]
        if isinstance(e, common.MachineryError):
            raise e
        raise common.MachineryError('C10 stress worker crashed: %r' % (e,))
    if hung:
        diff('c10:hang', 'requests did not return within 120 s (threads still blocked)', nthreads=nthreads)
    # requests that raised inside calling entry points (converted_call swallows the exception and falls back)
    seen = set()
    for (tid, cid, eid, oid, exc) in probe.errors:
        k = type(exc).__name__
        if k in seen or cid in reg.expected_fail:
            continue
        seen.add(k)
        diff('c10:request-raised:%s' % k,
             'a request raised %s (%s) - the conversion cache handed out something unusable' % (k, exc),
             thread=tid, code=cid, env=eid, options=oid)
    with probe.evlock:
        events = list(probe.events)
    stats.update(events=len(events), transforms=sum(probe.ntr.values()), attempts=sum(probe.natt.values()),
                 addr_reuse=probe.addr_reuses,
                 codes=reg.n_codes(), envs=reg.n_envs(), opts=reg.n_opts(), threads=checker_tid)
    trace = dict(id=job['id'], fns=[], ev=events)
    # cleanup
    poolmod.purge_generated_modules(mods_before)
    common.rmtree(os.path.join(root, 'tmp'))
    return dict(id=job['id'], trace=trace, diffs=diffs, stats=stats, job=dict(job))


def run_job_safe(job):
    try:
        return run_job(job)
    except common.MachineryError as e:
        return dict(id=job['id'], machinery=str(e), job=dict(job))
    except Exception as e:  # noqa: BLE001
        import traceback
        return dict(id=job['id'], machinery='stress job crashed: %r\n%s' % (e, traceback.format_exc()), job=dict(job))
