"""Structural descriptions of MiniPy nodes, used to give violations stable, semantic signatures."""


def parents(p):
    """node -> (parent node, section) for every node; section in body/orelse/final/handler; functions via def."""
    par = {}

    def walk(blk, parent, section):
        for n in blk:
            par[n] = (parent, section)
            d = p['nodes'][n - 1]
            walk(d['body'], n, 'body')
            walk(d['orelse'], n, 'orelse')
            walk(d['final'], n, 'finally')
            for h in d['handlers']:
                walk(h['body'], n, 'handler')
            if d['kind'] == 'def':
                walk(p['fns'][d['f'] - 1]['body'], n, 'fn')
    for f in p['fns']:
        if f['parent'] == 0:          # the function under test and the module-level functions
            walk(f['body'], 0, 'fn')
    return par


def path(p, n, par=None):
    """[(kind, section)] from the function root down to n (only within n's own function)."""
    par = par or parents(p)
    out = []
    while n in par:
        q, sec = par[n]
        if q == 0 or sec == 'fn':
            break
        out.append((p['nodes'][q - 1]['kind'], sec, q))
        n = q
    return list(reversed(out))


def kind(p, n):
    return 'args' if n == 0 else p['nodes'][n - 1]['kind']


def ctx(p, n, par=None, keep=('try', 'while', 'for')):
    if n == 0:
        return ''
    return '/'.join('%s.%s' % (k, s) for k, s, _ in path(p, n, par) if k in keep)


def relation(p, a, b, par=None):
    """How node b is placed relative to node a: the differing parts of their structural paths."""
    par = par or parents(p)
    pa = path(p, a, par) if a else []
    pb = path(p, b, par) if b else []
    i = 0
    while i < len(pa) and i < len(pb) and pa[i] == pb[i]:
        i += 1
    # same compound statement, different section (e.g. try.handler vs try.finally)
    same_stmt = i < len(pa) and i < len(pb) and pa[i][2] == pb[i][2]
    ra = '/'.join('%s.%s' % (k, s) for k, s, _ in pa[i:])
    rb = '/'.join('%s.%s' % (k, s) for k, s, _ in pb[i:])
    return ra, rb, same_stmt


def in_section(p, n, stmt, section, par=None):
    par = par or parents(p)
    return any(q == stmt and s == section for _, s, q in path(p, n, par))
