"""MiniPy programs: construction, random generation, rendering to Python, CPython reference runner.

A program is a dict of flat tables (see spec/MiniPy.tla).  Rendering puts one statement per line,
so a line number identifies a node; `render` returns the source and the line -> node map.
"""
import os
import sys
import json
import random

NAMES = ['x', 'y', 'z']
NODE_DEFAULT = dict(kind='', fn=0, k=0, tgt=[], e=0, body=[], orelse=[], final=[], handlers=[], name='', f=0,
                    exc=0, args=[], form='', nch=0, attr='')
EXPR_DEFAULT = dict(kind='', k=0, reads=[], args=[], name='', attr='')
JUMPS = ('break', 'continue', 'return', 'raise')
BINOPS = dict(add='+', sub='-', mul='*', lt='<', le='<=', gt='>', ge='>=', eq='==', ne='!=')


class Builder:
    def __init__(self):
        self.nodes = []
        self.exprs = []
        self.fns = []
        self.k = 0

    def newk(self):
        self.k += 1
        return self.k

    def node(self, **kw):
        d = dict((k, (list(v) if isinstance(v, list) else v)) for k, v in NODE_DEFAULT.items())
        d.update(kw)
        self.nodes.append(d)
        return len(self.nodes)

    def expr(self, **kw):
        d = dict((k, (list(v) if isinstance(v, list) else v)) for k, v in EXPR_DEFAULT.items())
        d.update(kw)
        self.exprs.append(d)
        return len(self.exprs)

    def fn(self, name, params, parent):
        self.fns.append(dict(name=name, params=list(params), body=[], parent=parent, nonlocals=[], globals=[], kwonly=0))
        return len(self.fns)

    # convenience constructors -------------------------------------------------
    def T(self, reads=()):
        return self.expr(kind='T', k=self.newk(), reads=list(reads))

    def D(self, reads=()):
        return self.expr(kind='D', k=self.newk(), reads=list(reads))

    def I(self, reads=(), pairs=False):
        return self.expr(kind='I', k=self.newk(), reads=list(reads), name='2' if pairs else '')

    def attr(self, base, attr):
        return self.expr(kind='attr', name=base, attr=attr)

    def setattr_node(self, fn, base, attr, value_expr):
        e = self.expr(kind='seq2', args=[value_expr, self.expr(kind='name', name=base)])
        return self.node(kind='setattr', fn=fn, name=base, attr=attr, e=e)

    def finish(self):
        return finish_program(dict(nodes=self.nodes, exprs=self.exprs, fns=self.fns))


TRIP_CAP = 2      # = MaxTrip of the exploration bounds: decision slots reserved per comprehension element


def ndecisions(p, e):
    """Decision slots an evaluation of expression e can consume (an upper bound)."""
    x = p['exprs'][e - 1]
    if x['kind'] == 'lamv':       # creating a lambda evaluates nothing
        return 0
    if x['kind'] == 'comp':       # the iterable once, condition and element once per item
        return ndecisions(p, x['args'][0]) + TRIP_CAP * sum(ndecisions(p, a) for a in x['args'][1:])
    n = 1 if x['kind'] in ('D', 'I') else 0
    return n + sum(ndecisions(p, a) for a in x['args'])


def binds(p, fid):
    out = set(p['fns'][fid - 1]['params'])
    for d in p['nodes']:
        if d['fn'] == fid:
            if d['kind'] in ('assign', 'aug', 'assign2', 'for', 'call', 'del', 'newobj', 'newlist', 'pop', 'getitem'):
                out |= set(d['tgt'])
            if d['kind'] == 'with' and d['name']:
                out.add(d['name'])
            if d['kind'] == 'def':
                out.add(d['name'])
            for h in d['handlers']:
                if h.get('name'):
                    out.add(h['name'])
    return out


def finish_program(p):
    """Fill derived fields: nch per node, legal nonlocal declarations, names table, lexical ancestors."""
    # a call statement may call a lambda value: its body is evaluated by the calling node
    maxlam = max([ndecisions(p, x['args'][0]) for x in p['exprs'] if x['kind'] == 'lamv'] or [0])
    for d in p['nodes']:
        d['nch'] = ndecisions(p, d['e']) if d['e'] else 0
        if d['kind'] == 'call':
            d['nch'] = maxlam
    for fid in range(2, len(p['fns']) + 1):
        f = p['fns'][fid - 1]
        keep = []
        for nm in f['nonlocals']:
            if nm in f['params']:
                continue
            q = f['parent']
            ok = False
            while q:
                if nm in (binds(p, q) - set(p['fns'][q - 1]['nonlocals']) - set(p['fns'][q - 1]['globals'])):
                    ok = True
                    break
                q = p['fns'][q - 1]['parent']
            if ok:
                keep.append(nm)
        f['nonlocals'] = keep
    names = set()
    for f in p['fns']:
        names.add(f['name'])
        names |= set(f['params']) | set(f['nonlocals'])
    hnames = set()
    for d in p['nodes']:
        names |= set(d['tgt']) | set(d['args'])
        if d['name']:
            names.add(d['name'])
        for h in d['handlers']:
            h.setdefault('name', '')
            if h['name']:
                names.add(h['name'])
                hnames.add(h['name'])
    p['hnames'] = sorted(hnames)
    attrs = {d['attr'] for d in p['nodes'] if d.get('attr')} | {x['attr'] for x in p['exprs'] if x.get('attr')}
    p['attrs'] = sorted(attrs) or ['v']
    for d in p['nodes']:
        d.setdefault('attr', '')
    for x in p['exprs']:
        x.setdefault('attr', '')
    for x in p['exprs']:
        names |= set(x['reads'])
        if x['name']:
            names.add(x['name'])
    p['names'] = sorted(names)
    p.setdefault('pure', 0)
    p['gnames'] = sorted({nm for f in p['fns'] for nm in f['globals']})      # module-level variables
    names |= set(p['gnames'])
    p['names'] = sorted(names)
    p.setdefault('keys', 0)       # 1: the state object is a dict with constant keys (o['v']) instead of attributes (o.v)
    p['lists'] = 1 if any(d['kind'] in ('newlist', 'append', 'pop', 'getitem', 'setitem') for d in p['nodes']) else 0
    p['anc'] = ancestors(p)
    return p


COMPOUND = ('if', 'while', 'for', 'try', 'with')


def ancestors(p, kinds=COMPOUND):
    """anc[n] = compound statements of the same function lexically enclosing n, including n itself if compound."""
    anc = {i + 1: [] for i in range(len(p['nodes']))}

    def walk(blk, stack):
        for n in blk:
            d = p['nodes'][n - 1]
            own = list(stack) + ([n] if d['kind'] in kinds else [])
            anc[n] = own
            for b in (d['body'], d['orelse'], d['final']):
                walk(b, own)
            for h in d['handlers']:
                walk(h['body'], own)
            if d['kind'] == 'def':
                walk(p['fns'][d['f'] - 1]['body'], [])
    for f in p['fns']:
        if f['parent'] == 0:          # the function under test and the module-level functions
            walk(f['body'], [])
    return [anc[i + 1] for i in range(len(p['nodes']))]


def blocks_of(p, n):
    d = p['nodes'][n - 1]
    out = [d['body'], d['orelse'], d['final']] + [h['body'] for h in d['handlers']]
    return [b for b in out if b]


# ------------------------------------------------------------------ random generation
CONTEXTS = os.environ.get('VERIF_CONTEXTS', '1') != '0'


class Contexts:
    """Expression contexts of the class: lambda bodies, comprehension elements and conditions, default values and
    decorators of nested functions, lambdas kept in variables and called later (shared by both generators)."""

    def __init__(self, rnd, names):
        self.r = rnd
        self.names = list(names)
        self.lams = {}          # function id -> names (h0 / h1) that were assigned a lambda in it

    def simple(self, b, scope, decisions=True):
        """A small element / body expression (at most one decision)."""
        r = self.r
        rd = lambda: [r.choice(scope) for _ in range(r.randint(0, 2))]
        q = r.random()
        if q < 0.55 or not decisions:
            if q < 0.1:
                return b.expr(kind=r.choice(['and', 'or']), args=[b.T(rd()), b.T(rd())])
            return b.T(rd())
        if q < 0.85:
            return b.expr(kind='ifexp', args=[b.D(rd()), b.T(rd()), b.T(rd())])
        if q < 0.93:
            return b.expr(kind='not', args=[b.D(rd())])
        return b.expr(kind=r.choice(['and', 'or']), args=[b.D(rd()), b.T(rd())])

    def bound(self, default):
        # mostly a fresh name; sometimes one that shadows a variable of the function
        return self.r.choice(self.names) if self.r.random() < 0.25 else default

    def value(self, b, scope):
        """An expression that evaluates user constructs in a nested expression scope."""
        r = self.r
        q = r.random()
        if q < 0.2:
            return b.expr(kind='lam', name='', args=[self.simple(b, scope)])
        if q < 0.5:
            nm = self.bound('p')
            arg = b.T([r.choice(scope)]) if r.random() < 0.7 else b.expr(kind='name', name=r.choice(scope))
            if r.random() < 0.3:        # a lambda called inside a lambda: (lambda p: (lambda q: BODY(p, q, x))(ARG2))(ARG)
                inner = b.expr(kind='lam', name='q', args=[self.simple(b, scope + [nm, 'q'] * 2), b.expr(kind='name', name=nm)])
                return b.expr(kind='lam', name=nm, args=[inner, arg])
            return b.expr(kind='lam', name=nm, args=[self.simple(b, scope + [nm] * 2), arg])
        nm = self.bound('c')
        it = b.I([r.choice(scope) for _ in range(r.randint(0, 1))])
        if nm in self.names:
            if r.random() < 0.5:        # [... for x in I(k, x)]: the iterable reads the function's x before the target is bound
                it = b.I([nm])
            # A target that shadows a variable of the function: the element stays free of constructs the converter wraps
            # in lambdas.  CPython 3.12.1 miscompiles an inlined comprehension whose target is captured by a nested lambda
            # while the same name is declared nonlocal in the enclosing function (the assignment of the result is lost);
            # the generated code is correct Python there, the interpreter is not (DESIGN.md, deviations).
            elt = b.T([r.choice(scope + [nm] * 2) for _ in range(r.randint(0, 2))])
            if r.random() < 0.35:
                return b.expr(kind='comp', name=nm, args=[it, elt, b.D([nm])])
            return b.expr(kind='comp', name=nm, args=[it, elt])
        if r.random() < 0.35:
            return b.expr(kind='comp', name=nm, args=[it, self.simple(b, scope + [nm] * 2, False), b.D([nm])])
        return b.expr(kind='comp', name=nm, args=[it, self.simple(b, scope + [nm] * 2)])

    def lambda_stmt(self, b, fn, scope):
        """h0 = lambda: BODY  /  h1 = lambda p: BODY"""
        r = self.r
        if r.random() < 0.4:
            nm, e = 'h0', b.expr(kind='lamv', name='', args=[self.simple(b, scope)])
        else:
            pn = self.bound('p')
            nm, e = 'h1', b.expr(kind='lamv', name=pn, args=[self.simple(b, scope + [pn] * 2)])
        self.lams.setdefault(fn, set()).add(nm)
        return b.node(kind='assign', fn=fn, tgt=[nm], e=e)

    def callable_lams(self, b, fn):
        out = set()
        q = fn
        while q:
            out |= self.lams.get(q, set())
            q = b.fns[q - 1]['parent']
        return sorted(out)

    def lambda_call(self, b, fn, scope, allow_return=True):
        r = self.r
        nm = r.choice(self.callable_lams(b, fn))
        form = r.choice(['assign', 'assign', 'expr'] + (['return'] if allow_return else []))
        return b.node(kind='call', fn=fn, name=nm, form=form, args=[r.choice(scope)] if nm == 'h1' else [],
                      tgt=[r.choice(self.names)] if form == 'assign' else [])

    # -- attribute state: one object `o` with attributes v, w, created and initialised by the first statements of the program
    ATTRS = ('v', 'w')

    def object_prologue(self, b):
        out = [b.node(kind='newobj', fn=1, tgt=['o'])]
        for at in self.ATTRS:
            out.append(b.setattr_node(1, 'o', at, b.T(['a'] if self.r.random() < 0.5 else [])))
        return out

    def object_stmt(self, b, fn, scope, value):
        """o.v = <value>  /  x = o.v  (in any function: nested functions reach `o` through their closure)"""
        r = self.r
        at = r.choice(self.ATTRS)
        if r.random() < 0.6:
            return b.setattr_node(fn, 'o', at, value)
        return b.node(kind='assign', fn=fn, tgt=[r.choice(self.names)], e=b.attr('o', at))

    # -- list state: one list `l`, a local of the function under test, created by its first statements
    def list_prologue(self, b):
        out = [b.node(kind='newlist', fn=1, tgt=['l'])]
        for _ in range(self.r.choice([1, 2, 2])):      # mostly non-empty, so that pop / indexing usually succeed
            out.append(b.node(kind='append', fn=1, name='l', e=b.T(['a'] if self.r.random() < 0.5 else [])))
        return out

    def list_stmt(self, b, fn, scope, value):
        """l.append(<value>) / x = l.pop() / x = l[k] / l[k] = <value>  (only in the function that owns l)"""
        r = self.r
        q = r.random()
        if q < 0.45:
            return b.node(kind='append', fn=fn, name='l', e=value)
        if q < 0.6:
            return b.node(kind='pop', fn=fn, name='l', tgt=[r.choice(self.names)])
        if q < 0.85:
            return b.node(kind='getitem', fn=fn, name='l', k=r.choice([0, 0, 0, 1]), tgt=[r.choice(self.names)])
        return b.node(kind='setitem', fn=fn, name='l', k=r.choice([0, 0, 0, 1]), e=value)

    def decorate_def(self, b, node, scope):
        """Give the nested function of a def node a decorator and / or a parameter with a default value."""
        r = self.r
        d = b.nodes[node - 1]
        f = b.fns[d['f'] - 1]
        if r.random() < 0.3:
            d['k'] = b.newk()
        if r.random() < 0.3:
            f['params'].append('r')
            d['e'] = self.simple(b, scope)
            f['kwonly'] = 1 if r.random() < 0.4 else 0


def initial_assignments(b, rnd, names, prob, cx=None, objects=False, lists=False):
    pre = cx.object_prologue(b) if (objects and cx is not None) else []
    if lists and cx is not None:
        pre += cx.list_prologue(b)
    return pre + _initial_assignments(b, rnd, names, prob)


def _initial_assignments(b, rnd, names, prob, fn=1):
    """Most programs start by binding their variables: otherwise half of all generated programs can only end in the
    NameError of their first read and exercise nothing behind it.  The rest keeps possibly-unbound variables."""
    if rnd.random() >= prob:
        return []
    keep = [nm for nm in names if rnd.random() < 0.9]
    arg = ['a', 'b'] if fn == 1 else ['p']
    return [b.node(kind='assign', fn=fn, tgt=[nm], e=b.T([rnd.choice(arg)] if rnd.random() < 0.5 else [])) for nm in keep]


class RandomGen:
    """Seeded random programs of the effectful profile (class C01/C05 depending on flags)."""

    def __init__(self, rnd, maxdepth=3, loop_else=False, maxfns=3, ifexp=True, exprstmt=True, dele=True,
                 try_=True, with_=True, calls=True, names=None, hnames=True, directives=True, contexts=None, lam_rate=0.08,
                 def_rate=0.0, call_rate=0.0, closure_bias=False, init=0.7, obj_rate=0.3,
                 globfns=0, list_rate=0.2, list_stmt_rate=0.15, glob_rate=0.2):
        self.contexts = CONTEXTS if contexts is None else contexts
        self.globfns = globfns          # number of module-level functions the function under test (and they) can call
        self.init = init                # probability that the program starts by assigning its variables
        self.objects = self.contexts and rnd.random() < obj_rate     # this program keeps attribute state on an object `o`
        self.lists = self.contexts and rnd.random() < list_rate     # ... and a list `l` (a local of the function under test)
        self.list_stmt_rate = list_stmt_rate
        self.globs = self.contexts and rnd.random() < glob_rate     # ... and a module-level variable gv, read and rebound
        self.lam_rate = lam_rate        # share of statements that store / call a lambda value
        self.def_rate = def_rate        # extra share of statements that define / call a nested function (closure profile)
        self.call_rate = call_rate
        self.closure_bias = closure_bias    # nested functions mostly read / rebind the enclosing function's variables
        self.hnames = hnames
        self.directives = directives
        self.r = rnd
        self.b = Builder()
        self.maxdepth = maxdepth
        self.loop_else = loop_else
        self.maxfns = maxfns
        self.ifexp = ifexp
        self.exprstmt = exprstmt
        self.dele = dele
        self.try_ = try_
        self.with_ = with_
        self.calls = calls
        self.names = list(names or NAMES) + (['gv'] if self.globs else [])
        self.cx = Contexts(rnd, self.names)

    def reads(self, scope, lo=0, hi=2):
        return [self.r.choice(scope) for _ in range(self.r.randint(lo, hi))]

    def test(self, scope, depth=0):
        r = self.r.random()
        b = self.b
        if r < 0.65 or depth > 1:
            return b.D(self.reads(scope))
        if r < 0.75:
            return b.expr(kind='not', args=[self.test(scope, depth + 1)])
        if r < 0.93:
            return b.expr(kind=self.r.choice(['and', 'or']), args=[self.test(scope, depth + 1), self.test(scope, depth + 1)])
        if r < 0.96 and self.contexts:     # an overloadable operator below a comparison operand
            inner = b.expr(kind=self.r.choice(['and', 'or']), args=[b.T(self.reads(scope, 0, 1)), self.r.choice(
                [b.expr(kind='none'), b.T(self.reads(scope, 0, 1))])]) if self.r.random() < 0.7 else b.expr(kind='not', args=[b.D([])])
            return b.expr(kind='isnone', args=[inner])
        return b.expr(kind='name', name=self.r.choice(scope))

    def value(self, scope, depth=0):
        r = self.r.random()
        b = self.b
        if depth == 0 and self.contexts and self.r.random() < 0.12:
            return self.cx.value(b, scope)
        if r < 0.7 or depth > 0:
            return b.T(self.reads(scope))
        if r < 0.8:
            return b.expr(kind='name', name=self.r.choice(scope))
        if r < 0.84 and depth == 0 and self.contexts:      # a literal operand / branch: x or None, D() and True, T() if D() else 0
            lit = self.r.choice([b.expr(kind='none'), b.expr(kind='bool', k=1), b.expr(kind='bool', k=0), b.expr(kind='const', k=0)])
            q = self.r.random()
            if q < 0.4:
                return b.expr(kind=self.r.choice(['and', 'or']), args=[b.T(self.reads(scope)), lit])
            if q < 0.7:
                return b.expr(kind=self.r.choice(['and', 'or']), args=[b.D(self.reads(scope, 0, 1)), lit])
            return b.expr(kind='ifexp', args=[b.D(self.reads(scope, 0, 1)), lit, b.T(self.reads(scope, 0, 1))])
        if r < 0.9 and self.ifexp:
            inner = (lambda: b.expr(kind='ifexp', args=[b.D(self.reads(scope, 0, 1)), b.T(self.reads(scope, 0, 1)), b.T(self.reads(scope, 0, 1))]))
            return b.expr(kind='ifexp', args=[self.test(scope, 1),
                                             inner() if self.r.random() < 0.25 else self.value(scope, 1),
                                             inner() if self.r.random() < 0.25 else self.value(scope, 1)])
        return b.expr(kind=self.r.choice(['and', 'or']), args=[self.value(scope, 1), self.value(scope, 1)])

    def directive(self, fn):
        if self.directives and self.r.random() < 0.2:
            return [self.b.node(kind='directive', fn=fn, k=100 + self.b.newk())]
        return []

    def block(self, fn, scope, depth, inloop, infinally=False, lo=1, hi=3):
        out = []
        for _ in range(self.r.randint(lo, hi)):
            n = self.stmt(fn, scope, depth, inloop, infinally)
            out.append(n)
            if self.b.nodes[n - 1]['kind'] in JUMPS:
                break
        return out

    def stmt(self, fn, scope, depth, inloop, infinally):
        r = self.r.random()
        b = self.b
        N = b.nodes
        deep = depth >= self.maxdepth
        if self.contexts and self.calls and self.r.random() < self.lam_rate:
            if self.cx.callable_lams(b, fn) and self.r.random() < 0.6:
                return self.cx.lambda_call(b, fn, scope, allow_return=not infinally)
            return self.cx.lambda_stmt(b, fn, scope)
        if self.objects and self.r.random() < 0.12:
            return self.cx.object_stmt(b, fn, scope, self.value(scope, 1))
        if self.lists and fn == 1 and self.r.random() < self.list_stmt_rate:
            return self.cx.list_stmt(b, fn, scope, self.value(scope, 1))
        if self.calls and self.def_rate and depth <= 1 and len(b.fns) < self.maxfns and self.r.random() < self.def_rate:
            return self.def_stmt(fn, scope, depth)
        if self.calls and self.call_rate and self.r.random() < self.call_rate:
            c = self.call_stmt(fn, scope, infinally)
            if c:
                return c
        if self.contexts and r < 0.03:     # x, y = e1, e2
            t1, t2 = self.r.choice(self.names), self.r.choice(self.names)
            if self.r.random() < 0.4:
                e1, e2 = b.expr(kind='name', name=t2), b.expr(kind='name', name=t1)
            else:
                e1, e2 = self.value(scope, 1), self.value(scope, 1)
            return b.node(kind='assign2', fn=fn, tgt=[t1, t2], e=b.expr(kind='seq2', args=[e1, e2]))
        if r < 0.26 or deep:
            return b.node(kind='assign', fn=fn, tgt=[self.r.choice(self.names)], e=self.value(scope))
        if r < 0.30 and self.exprstmt:
            return b.node(kind='expr', fn=fn, e=b.T(self.reads(scope)))
        if r < 0.42:
            i = b.node(kind='if', fn=fn)
            N[i - 1]['e'] = self.test(scope)
            N[i - 1]['body'] = self.block(fn, scope, depth + 1, inloop, infinally)
            if self.r.random() < 0.6:
                N[i - 1]['orelse'] = self.block(fn, scope, depth + 1, inloop, infinally)
            return i
        if r < 0.52:
            i = b.node(kind='while', fn=fn)
            N[i - 1]['e'] = self.test(scope)
            N[i - 1]['body'] = self.directive(fn) + self.block(fn, scope, depth + 1, True, infinally)
            if self.loop_else and self.r.random() < 0.3:
                N[i - 1]['orelse'] = self.block(fn, scope, depth + 1, inloop, infinally)
            return i
        if r < 0.62:
            i = b.node(kind='for', fn=fn, tgt=[self.r.choice(self.names)])
            if self.contexts and self.r.random() < 0.25:      # for x, y in I2(...): a tuple target
                N[i - 1]['tgt'] = [self.r.choice(self.names), self.r.choice(self.names)]
            N[i - 1]['e'] = b.I(self.reads(scope), pairs=len(N[i - 1]['tgt']) == 2)
            N[i - 1]['body'] = self.directive(fn) + self.block(fn, scope, depth + 1, True, infinally)
            if self.loop_else and self.r.random() < 0.3:
                N[i - 1]['orelse'] = self.block(fn, scope, depth + 1, inloop, infinally)
            return i
        if r < 0.72 and self.try_:
            i = b.node(kind='try', fn=fn)
            N[i - 1]['body'] = self.block(fn, scope, depth + 1, inloop, infinally)
            hs = []
            for c in self.r.sample([1, 2], self.r.randint(0, 2)):
                hs.append(dict(cls=c, name=self.r.choice(['', '', 'ex', self.r.choice(self.names)]) if self.hnames else '',
                               body=self.block(fn, scope + ['ex'] if self.hnames else scope, depth + 1, inloop, infinally)))
            N[i - 1]['handlers'] = hs
            body = N[i - 1]['body']
            if infinally and hs and self.contexts and self.r.random() < 0.4 and N[body[-1] - 1]['kind'] not in JUMPS:
                # inside a finally block a raise is generated only where a handler of the same try catches it
                body.append(b.node(kind='raise', fn=fn, exc=hs[0]['cls']))
            if hs and self.contexts and self.r.random() < 0.25:      # try / except / else
                N[i - 1]['orelse'] = self.block(fn, scope, depth + 1, inloop, infinally)
            if not hs or self.r.random() < 0.5:
                N[i - 1]['final'] = self.block(fn, scope, depth + 1, False, True)
            return i
        if r < 0.77 and self.with_:
            i = b.node(kind='with', fn=fn, k=b.newk(), name=self.r.choice(['', 'x', 'y']))
            N[i - 1]['body'] = self.block(fn, scope, depth + 1, inloop, infinally)
            return i
        if r < 0.82 and inloop:
            return b.node(kind=self.r.choice(['break', 'continue']), fn=fn)
        if r < 0.88 and not infinally:
            return b.node(kind='return', fn=fn, e=self.value(scope))
        if r < 0.92:
            return b.node(kind='raise', fn=fn, exc=self.r.choice([1, 2]))
        if r < 0.935 and self.dele:
            return b.node(kind='del', fn=fn, tgt=[self.r.choice(self.names)])
        if r < 0.965 and depth <= 1 and len(b.fns) < self.maxfns and self.calls:
            return self.def_stmt(fn, scope, depth)
        if len(b.fns) > 1 and self.calls:
            c = self.call_stmt(fn, scope, infinally)
            if c:
                return c
        return b.node(kind='pass', fn=fn)

    def declare_global(self, fid):
        if self.globs and self.r.random() < 0.6:
            self.b.fns[fid - 1]['globals'] = ['gv']

    def def_stmt(self, fn, scope, depth):
        b = self.b
        np_ = self.r.choice([0, 1, 1, 2])
        params = ['p', 'q'][:np_]
        name = 'g%d' % (len(b.fns) + 1)
        if self.contexts and self.r.random() < 0.08 and not any(f['name'] == 'set_trace' for f in b.fns):
            name = 'set_trace'       # an ordinary user function: only pdb.set_trace / ipdb.set_trace / breakpoint are debugger entries
        fid = b.fn(name, params, fn)
        b.fns[fid - 1]['nonlocals'] = self.r.sample(self.names, self.r.choice([0, 1, 1, 2]) if self.closure_bias else self.r.randint(0, 1))
        inner = (self.names * 3 + params) if self.closure_bias else scope + params
        self.declare_global(fid)
        b.fns[fid - 1]['nonlocals'] = [x for x in b.fns[fid - 1]['nonlocals'] if x not in b.fns[fid - 1]['globals']]
        b.fns[fid - 1]['body'] = self.block(fid, inner, depth + 1, False, False)
        nd = b.node(kind='def', fn=fn, name=b.fns[fid - 1]['name'], f=fid)
        if self.contexts:
            self.cx.decorate_def(b, nd, scope)
        return nd

    def call_stmt(self, fn, scope, infinally):
        b = self.b
        top = fn
        while b.fns[top - 1]['parent']:
            top = b.fns[top - 1]['parent']
        cands = [f for f in range(2, len(b.fns) + 1) if b.fns[f - 1]['parent'] == fn
                 or (b.fns[f - 1]['parent'] == 0 and (top == 1 or f < top))]
        if top != 1 and fn == top and self.r.random() < 0.3:
            cands = cands + [top]           # a module-level function calling itself (the bounds end the recursion)
        if not cands:
            return None
        f = self.r.choice(cands)
        form = self.r.choice(['assign', 'assign', 'expr'] + ([] if infinally else ['return']))
        args = [self.r.choice(scope) for _ in b.fns[f - 1]['params']]
        return b.node(kind='call', fn=fn, name=b.fns[f - 1]['name'], form=form, args=args,
                      tgt=[self.r.choice(self.names)] if form == 'assign' else [])

    def program(self, lo=2, hi=4):
        b = self.b
        b.fn('f', ['a', 'b'], 0)
        self.declare_global(1)
        for _ in range(self.globfns):      # module-level functions: own variables only, converted when they are called
            params = ['p', 'q'][:self.r.choice([1, 1, 2])]
            fid = b.fn('G%d' % (len(b.fns) + 1), params, 0)
            self.declare_global(fid)
            objs, self.objects = self.objects, False     # the object `o` belongs to the function under test
            gbody = self.block(fid, self.names + params * 2, 1, False, lo=1, hi=3)
            self.objects = objs
            b.fns[fid - 1]['body'] = _initial_assignments(b, self.r, self.names, 0.8, fn=fid) + gbody
        body = self.block(1, self.names + ['a', 'b'], 0, False, lo=lo, hi=hi)
        b.fns[0]['body'] = initial_assignments(b, self.r, self.names, self.init, self.cx, self.objects, self.lists) + body
        p = b.finish()
        p['keys'] = 1 if (self.objects and not p.get('lists') and self.r.random() < 0.4) else 0   # (LISTS is claimed for locals only)
        return p


def gen_random(seed, **kw):
    lo = kw.pop('lo', 2)
    hi = kw.pop('hi', 4)
    return RandomGen(random.Random(seed), **kw).program(lo, hi)


# ------------------------------------------------------------------ rendering
def r_expr(p, e):
    x = p['exprs'][e - 1]
    k = x['kind']
    if k in ('T', 'D', 'I'):
        # the same call is written in different argument forms (plain, starred, split): the values passed are the same,
        # the converter has to build the argument tuple of converted_call differently
        rd = list(x['reads'])
        if rd and x['k'] % 7 == 3:
            args = [str(x['k']), '*(%s,)' % ', '.join(rd)]
        elif len(rd) == 2 and x['k'] % 7 == 5:
            args = [str(x['k']), rd[0], '*[%s]' % rd[1]]
        else:
            args = [str(x['k'])] + rd
        return '%s(%s)' % (k + (x['name'] if k == 'I' else ''), ', '.join(args))
    if k == 'name':
        return x['name']
    if k == 'attr':
        return ('%s[%r]' if p.get('keys') else '%s.%s') % (x['name'], x['attr'])
    if k == 'seq2':
        return r_expr(p, x['args'][0])
    if k == 'const':
        return str(x['k'])
    if k == 'none':
        return 'None'
    if k == 'bool':
        return 'True' if x['k'] else 'False'
    if k in BINOPS:
        return '(%s %s %s)' % (r_expr(p, x['args'][0]), BINOPS[k], r_expr(p, x['args'][1]))
    if k == 'isnone':
        return '(%s is None)' % r_expr(p, x['args'][0])
    if k == 'range':
        return 'range(%s)' % r_expr(p, x['args'][0])
    if k == 'not':
        return '(not %s)' % r_expr(p, x['args'][0])
    if k in ('and', 'or'):
        return '(%s %s %s)' % (r_expr(p, x['args'][0]), k, r_expr(p, x['args'][1]))
    if k == 'ifexp':
        return '(%s if %s else %s)' % (r_expr(p, x['args'][1]), r_expr(p, x['args'][0]), r_expr(p, x['args'][2]))
    if k == 'lam':
        return '(lambda%s: %s)(%s)' % ((' ' + x['name']) if x['name'] else '', r_expr(p, x['args'][0]),
                                      r_expr(p, x['args'][1]) if len(x['args']) == 2 else '')
    if k == 'lamv':
        return '(lambda%s: %s)' % ((' ' + x['name']) if x['name'] else '', r_expr(p, x['args'][0]))
    if k == 'comp':
        return '[%s for %s in %s%s]' % (r_expr(p, x['args'][1]), x['name'], r_expr(p, x['args'][0]),
                                        (' if ' + r_expr(p, x['args'][2])) if len(x['args']) == 3 else '')
    raise ValueError(k)


def r_block(p, blk, ind, out):
    if not blk:
        out.append((0, '    ' * ind + 'pass'))
    for n in blk:
        r_stmt(p, n, ind, out)


def r_stmt(p, n, ind, out):
    d = p['nodes'][n - 1]
    s = '    ' * ind
    k = d['kind']

    def emit(t):
        out.append((n, s + t))
    if k == 'assign':
        emit('%s = %s' % (', '.join(d['tgt']), r_expr(p, d['e'])))
    elif k == 'aug':        # the expression is  target op rhs
        x = p['exprs'][d['e'] - 1]
        emit('%s %s= %s' % (d['tgt'][0], BINOPS[x['kind']], r_expr(p, x['args'][1])))
    elif k == 'assign2':    # the expression is seq2(e1, e2)
        x = p['exprs'][d['e'] - 1]
        emit('%s, %s = %s, %s' % (d['tgt'][0], d['tgt'][1], r_expr(p, x['args'][0]), r_expr(p, x['args'][1])))
    elif k == 'expr':
        emit(r_expr(p, d['e']))
    elif k == 'newobj':
        emit('%s = %s()' % (d['tgt'][0], 'KV' if p.get('keys') else 'O'))
    elif k == 'newlist':
        emit('%s = []' % d['tgt'][0])
    elif k == 'append':
        emit('%s.append(%s)' % (d['name'], r_expr(p, d['e'])))
    elif k == 'pop':
        emit('%s = %s.pop()' % (d['tgt'][0], d['name']))
    elif k == 'getitem':
        emit('%s = %s[%d]' % (d['tgt'][0], d['name'], d['k']))
    elif k == 'setitem':
        emit('%s[%d] = %s' % (d['name'], d['k'], r_expr(p, d['e'])))
    elif k == 'setattr':
        emit(('%s[%r] = %s' if p.get('keys') else '%s.%s = %s') % (d['name'], d['attr'], r_expr(p, d['e'])))
    elif k == 'if':
        emit('if %s:' % r_expr(p, d['e']))
        r_block(p, d['body'], ind + 1, out)
        if d['orelse']:
            out.append((0, s + 'else:'))
            r_block(p, d['orelse'], ind + 1, out)
    elif k == 'while':
        emit('while %s:' % r_expr(p, d['e']))
        r_block(p, d['body'], ind + 1, out)
        if d['orelse']:
            out.append((0, s + 'else:'))
            r_block(p, d['orelse'], ind + 1, out)
    elif k == 'for':
        emit('for %s in %s:' % (', '.join(d['tgt']), r_expr(p, d['e'])))
        r_block(p, d['body'], ind + 1, out)
        if d['orelse']:
            out.append((0, s + 'else:'))
            r_block(p, d['orelse'], ind + 1, out)
    elif k == 'try':
        out.append((0, s + 'try:'))
        r_block(p, d['body'], ind + 1, out)
        for h in d['handlers']:
            out.append((0, s + 'except E%d%s:' % (h['cls'], (' as ' + h['name']) if h.get('name') else '')))
            r_block(p, h['body'], ind + 1, out)
        if d['orelse']:
            out.append((0, s + 'else:'))
            r_block(p, d['orelse'], ind + 1, out)
        if d['final']:
            out.append((0, s + 'finally:'))
            r_block(p, d['final'], ind + 1, out)
    elif k == 'with':
        emit('with CM(%d)%s:' % (d['k'], (' as ' + d['name']) if d['name'] else ''))
        r_block(p, d['body'], ind + 1, out)
    elif k in ('break', 'continue', 'pass'):
        emit(k)
    elif k == 'directive':
        emit('set_loop_options(maximum_iterations=%d)' % d['k'])
    elif k == 'return':
        emit('return %s' % r_expr(p, d['e']))
    elif k == 'raise':
        emit('raise E%d()' % d['exc'])
    elif k == 'del':
        emit('del %s' % d['tgt'][0])
    elif k == 'def':
        f = p['fns'][d['f'] - 1]
        if d['k']:
            out.append((0, s + '@DEC(%d)' % d['k']))
        params = list(f['params'])
        if d['e']:      # the last parameter has a default value (evaluated when the def statement executes)
            params[-1] = '%s=%s' % (params[-1], r_expr(p, d['e']))
            if f.get('kwonly'):     # ... and is keyword-only: def g(p, *, r=E)
                params.insert(len(params) - 1, '*')
        emit('def %s(%s):' % (f['name'], ', '.join(params)))
        if f['nonlocals']:
            out.append((0, s + '    nonlocal ' + ', '.join(f['nonlocals'])))
        if f['globals']:
            out.append((0, s + '    global ' + ', '.join(f['globals'])))
        r_block(p, f['body'], ind + 1, out)
    elif k == 'call':
        args = list(d['args'])
        callee = [g for g in p['fns'] if g['name'] == d['name']]
        if callee and callee[0].get('kwonly') and len(args) == len(callee[0]['params']):
            args[-1] = '%s=%s' % (callee[0]['params'][-1], args[-1])
        elif callee and args and len(args) == len(callee[0]['params']) and n % 5 == 2:      # last argument by keyword
            args[-1] = '%s=%s' % (callee[0]['params'][-1], args[-1])
        elif callee and args and len(args) == len(callee[0]['params']) and n % 5 == 4:      # ... through a dict
            args[-1] = '**{%r: %s}' % (callee[0]['params'][-1], args[-1])
        elif args and n % 5 == 1:                                                           # all positional, starred
            args = ['*(%s,)' % ', '.join(args)]
        c = '%s(%s)' % (d['name'], ', '.join(args))
        if d['form'] == 'assign':
            emit('%s = %s' % (d['tgt'][0], c))
        elif d['form'] == 'return':
            emit('return ' + c)
        else:
            emit(c)
    else:
        raise ValueError(k)


def render(p, name=None):
    out = []
    for g in p['fns'][1:]:
        if g['parent'] == 0:          # module-level functions, defined before the function under test
            out.append((0, 'def %s(%s):' % (g['name'], ', '.join(g['params']))))
            if g['globals']:
                out.append((0, '    global ' + ', '.join(g['globals'])))
            r_block(p, g['body'], 1, out)
            out.append((0, ''))
    f = p['fns'][0]
    out.append((0, 'def %s(%s):' % (name or f['name'], ', '.join(f['params']))))
    if f['globals']:
        out.append((0, '    global ' + ', '.join(f['globals'])))
    r_block(p, f['body'], 1, out)
    src = '\n'.join(t for _, t in out) + '\n'
    linemap = {i + 1: n for i, (n, _) in enumerate(out) if n}
    return src, linemap


# ------------------------------------------------------------------ CPython reference runner
class Tok:
    __slots__ = ('v',)

    def __init__(self, v):
        self.v = v

    def __repr__(self):
        return 'Tok%r' % (self.v,)


class E1(Exception):
    pass


class E2(Exception):
    pass


class OutOfDecisions(BaseException):
    pass


def enc(v):
    if isinstance(v, Tok):
        return list(v.v)
    if v is None:
        return ['n', 0, 0]
    if isinstance(v, bool):
        return ['b', int(v), 0]
    if isinstance(v, int):
        return ['i', v, 0]
    if isinstance(v, IList):
        return ['l2' if v.pairs else 'l', v.serial, len(v)]
    if isinstance(v, list):       # the result of a comprehension
        return ['c', len(v), 0]
    if isinstance(v, (Obj, KVDict)):
        return ['o', v._serial, 0]
    if isinstance(v, E1):
        return ['x', 1, 0]
    if isinstance(v, E2):
        return ['x', 2, 0]
    if callable(v):
        return ['f', 0, 0]
    return ['?', repr(type(v)), 0]


class IList(list):
    """The list an I() tracer returns: iterating it logs every fetch (also the one that finds it exhausted), so that the
    iteration protocol itself - how often the iterator is advanced - is part of the observable behaviour."""
    serial = 0
    run = None
    pairs = False

    def __iter__(self):
        j = 0
        for x in list.__iter__(self):
            j += 1
            self.run.log.append(['N', self.serial, [['i', j, 0]]])
            yield x
        self.run.log.append(['N', self.serial, [['i', j + 1, 0]]])


class KVDict(dict):
    """Constant-key state: d['v'] / d['w'] play the role of o.v / o.w (program flag `keys`)."""


class Obj:
    """A plain object with attribute state; _serial = order of creation within the run (= heap address in the spec)."""


def _no_directive(**kw):
    return None


class Run:
    """The external world of a MiniPy program: tracers driven by a decision vector, recording the effect log."""

    def __init__(self, decisions):
        self.dec = list(decisions)
        self.di = 0
        self.log = []
        self.nobj = 0

    def nextdec(self):
        if self.di >= len(self.dec):
            raise OutOfDecisions()
        d = self.dec[self.di]
        self.di += 1
        return d

    def T(self, k, *a):
        self.log.append(['T', k, [enc(x) for x in a]])
        return Tok(('t', k, len(self.log)))

    def D(self, k, *a):
        self.log.append(['D', k, [enc(x) for x in a]])
        return bool(self.nextdec())

    def I(self, k, *a):
        self.log.append(['I', k, [enc(x) for x in a]])
        d = self.nextdec()
        s = len(self.log)
        r = IList(Tok(('e', s, j)) for j in range(1, d + 1))
        r.serial = s
        r.run = self
        return r

    def DEC(self, k):
        self.log.append(['DEC', k, []])
        return lambda fn: fn

    def I2(self, k, *a):
        """A list of pairs (for loops with a tuple target): element j is (e[2j-1], e[2j])."""
        self.log.append(['I', k, [enc(x) for x in a]])
        d = self.nextdec()
        s = len(self.log)
        r = IList((Tok(('e', s, 2 * j - 1)), Tok(('e', s, 2 * j))) for j in range(1, d + 1))
        r.serial = s
        r.run = self
        r.pairs = True
        return r

    def O(self):
        self.nobj += 1
        o = Obj()
        o._serial = self.nobj
        return o

    def KV(self):
        self.nobj += 1
        o = KVDict()
        o._serial = self.nobj
        return o

    def CM(self, k):
        run = self

        class _CM:
            def __enter__(s):
                run.log.append(['enter', k, []])
                return Tok(('t', k, len(run.log)))

            def __exit__(s, *a):
                run.log.append(['exit', k, []])
                return False
        return _CM()

    def ns(self):
        return dict(T=self.T, D=self.D, I=self.I, I2=self.I2, CM=self.CM, O=self.O, KV=self.KV, DEC=self.DEC, E1=E1, E2=E2, set_loop_options=_no_directive)


def main_args(p, inp=None):
    if p.get('pure'):
        return list(inp)
    return [Tok(('t', 0, i + 1)) for i in range(len(p['fns'][0]['params']))]


def outcome(fn, args):
    """Run fn(*args) and classify the outcome the way the specification does."""
    try:
        v = fn(*args)
        return ['ret', enc(v)]
    except OutOfDecisions:
        return ['ood']
    except NameError:
        return ['exc', 'NameError']
    except (E1, E2) as e:
        return ['exc', type(e).__name__]
    except RecursionError:
        return ['exc', 'RecursionError']
    except TypeError as e:
        return ['exc', 'TypeError']
    except AttributeError as e:
        return ['exc', 'AttributeError']
    except IndexError as e:
        return ['exc', 'IndexError']
    except Exception as e:      # anything else is reported verbatim and never equals a specified outcome
        if type(e).__name__ == 'StagingError':
            # the malt.convert wrapper re-creates an exception whose type has an initialiser of its own (every built-in
            # exception outside its short list, e.g. IndexError) as a StagingError that quotes the original ("IndexError: pop
            # from empty list" is the last line of the message): property C12 decides that rule, here the quoted type counts
            import re
            m = re.findall(r'^\s+(\w+(?:Error|Exception))\b', str(e), re.M)
            if m and m[-1] in ('IndexError',):
                return ['exc', m[-1]]
        return ['exc', 'OTHER:%s:%s' % (type(e).__name__, str(e)[:120])]


def global_tokens(p):
    """Initial values of the module-level variables: tokens of their own."""
    return {nm: Tok(('t', 0, 11 + i)) for i, nm in enumerate(p.get('gnames', []))}


def globals_now(p, ns):
    """What the module-level variables hold (['u', 0, 0] = unbound), in the order of p['gnames']."""
    get = ns.get if isinstance(ns, dict) else (lambda k, d=None: getattr(ns, k, d))
    missing = object()
    return [(['u', 0, 0] if get(nm, missing) is missing else enc(get(nm))) for nm in p.get('gnames', [])]


def run_py(src, p, decisions, fname=None, inp=None):
    run = Run(decisions)
    ns = run.ns()
    ns.update(global_tokens(p))
    exec(compile(src, '<minipy>', 'exec'), ns)
    out = outcome(ns[fname or p['fns'][0]['name']], main_args(p, inp))
    return dict(log=run.log, out=out, used=run.di, gl=globals_now(p, ns))


def spec_outcome(rec):
    """Translate the `out` field printed by MiniPy.tla into the runner's outcome form."""
    o = rec['out']
    if o[0] == 'ret':
        return ['ret', o[1]]
    if o[1][0] == 'x':
        return ['exc', 'E%d' % o[1][1]]
    return ['exc', {1: 'NameError', 2: 'TypeError', 3: 'AttributeError', 4: 'IndexError'}[o[1][1]]]


def same_observation(rec, res):
    """Compare a specification execution with an observed run (full log; used for model validation)."""
    return (res['log'] == rec['log'] and res['out'] == spec_outcome(rec) and res['used'] == len(rec['dec'])
            and res.get('gl', []) == rec.get('gl', []))


if __name__ == '__main__':
    n = int(sys.argv[1])
    seed0 = int(sys.argv[2]) if len(sys.argv) > 2 else 0
    progs = [gen_random(seed0 + i) for i in range(n)]
    json.dump(progs, open(sys.argv[3], 'w'))
    print(render(progs[0])[0])


# ------------------------------------------------------------------ pure profile (C02, C19)
class PureGen:
    """Side-effect-free, total programs over small ints: every variable is assigned before any read."""

    def __init__(self, rnd, maxdepth=3, closures=True, objects=True, closure_heavy=False):
        self.closure_heavy = closure_heavy
        self.r = rnd
        self.b = Builder()
        self.maxdepth = maxdepth
        self.closures = closures
        self.objects = objects and rnd.random() < 0.5      # attribute state o.v / o.w that exists before every statement
        self.vars = ['x', 'y', 'z']
        self.loopvars = 0
        self.globs = rnd.random() < 0.3       # a module-level int variable gv, declared global and rebound by the function
        if self.globs:
            self.vars = self.vars + ['gv']

    def atom(self, scope):
        b = self.b
        q = self.r.random()
        if q < 0.3:
            return b.expr(kind='const', k=self.r.choice([0, 1, 1, 2, 3]))
        if q < 0.5 and self.objects:
            return b.attr('o', self.r.choice(['v', 'w']))
        return b.expr(kind='name', name=self.r.choice(scope))

    def arith(self, scope, depth=0):
        b = self.b
        if depth > 0 or self.r.random() < 0.45:
            return self.atom(scope)
        return b.expr(kind=self.r.choice(['add', 'add', 'sub', 'mul']), args=[self.arith(scope, 1), self.atom(scope)])

    def test(self, scope, depth=0):
        b = self.b
        r = self.r.random()
        if r < 0.1 and depth == 0:      # ((x < 1) or y) > 0, (not (x == y)) != z: overloadable operators below a comparison operand
            return b.expr(kind=self.r.choice(['lt', 'gt', 'eq', 'ne']), args=[self.test(scope, 1) if self.r.random() < 0.5 else b.expr(
                kind=self.r.choice(['and', 'or']), args=[self.test(scope, 1), self.atom(scope)]), self.atom(scope)])
        if r < 0.7 or depth > 0:
            return b.expr(kind=self.r.choice(['lt', 'le', 'gt', 'ge', 'eq', 'ne']), args=[self.arith(scope, 1), self.arith(scope, 1)])
        if r < 0.8:
            return b.expr(kind='not', args=[self.test(scope, 1)])
        return b.expr(kind=self.r.choice(['and', 'or']), args=[self.test(scope, 1), self.test(scope, 1)])

    def block(self, fn, scope, depth, inloop, lo=1, hi=3):
        out = []
        for _ in range(self.r.randint(lo, hi)):
            n = self.stmt(fn, scope, depth, inloop)
            out.append(n)
            if self.b.nodes[n - 1]['kind'] in JUMPS:
                break
        return out

    def stmt(self, fn, scope, depth, inloop):
        b, r, N = self.b, self.r, self.b.nodes
        q = r.random()
        if self.closure_heavy and fn == 1 and depth <= 1 and len(b.fns) < 4 and q < 0.3:
            q = 0.99       # go to the closure production
        if q < 0.12 and self.objects:
            return b.setattr_node(fn, 'o', r.choice(['v', 'w']), self.arith(scope))
        if q < 0.38 or depth >= self.maxdepth:
            t = self.tgt(fn)
            q2 = r.random()
            if q2 < 0.2 and t in scope:       # x op= e
                return b.node(kind='aug', fn=fn, tgt=[t], e=b.expr(kind=r.choice(['add', 'add', 'sub', 'mul']),
                                                                  args=[b.expr(kind='name', name=t), self.atom(scope)]))
            if q2 < 0.3:                      # x, y = e1, e2  (often a swap)
                t2 = self.tgt(fn)
                if r.random() < 0.5 and t in scope and t2 in scope:
                    e1, e2 = b.expr(kind='name', name=t2), b.expr(kind='name', name=t)
                else:
                    e1, e2 = self.arith(scope), self.arith(scope)
                return b.node(kind='assign2', fn=fn, tgt=[t, t2], e=b.expr(kind='seq2', args=[e1, e2]))
            return b.node(kind='assign', fn=fn, tgt=[t], e=self.arith(scope))
        if q < 0.58:
            i = b.node(kind='if', fn=fn)
            N[i - 1]['e'] = self.test(scope)
            N[i - 1]['body'] = self.block(fn, scope, depth + 1, inloop)
            if r.random() < 0.6:
                N[i - 1]['orelse'] = self.block(fn, scope, depth + 1, inloop)
            return i
        if q < 0.70:
            # counted while loop: `c = 0` / `while c < bound:` ... `c = c + 1` (the increment is the last statement
            # of the body; a `continue` before it makes the loop diverge, which the bounds prune on both sides)
            self.loopvars += 1
            c = 'c%d' % self.loopvars
            init = b.node(kind='assign', fn=fn, tgt=[c], e=b.expr(kind='const', k=0))
            i = b.node(kind='while', fn=fn)
            N[i - 1]['e'] = b.expr(kind='lt', args=[b.expr(kind='name', name=c), self.atom(scope)])
            body = self.block(fn, scope + [c], depth + 1, True, hi=2)
            inc = b.node(kind='assign', fn=fn, tgt=[c], e=b.expr(kind='add', args=[b.expr(kind='name', name=c), b.expr(kind='const', k=1)]))
            if N[body[-1] - 1]['kind'] in JUMPS:
                body = body[:-1] + [inc] if len(body) > 1 else [inc]
            else:
                body = body + [inc]
            N[i - 1]['body'] = body
            self.pending = [init, i]
            return ('seq', [init, i])
        if q < 0.82:
            self.loopvars += 1
            v = 'i%d' % self.loopvars
            i = b.node(kind='for', fn=fn, tgt=[v])
            N[i - 1]['e'] = b.expr(kind='range', args=[self.atom(scope)])
            N[i - 1]['body'] = self.block(fn, scope + [v], depth + 1, True, hi=2)
            return i
        if q < 0.88 and inloop:
            return b.node(kind=r.choice(['break', 'continue']), fn=fn)
        if q < 0.94:
            return b.node(kind='return', fn=fn, e=self.arith(scope))
        sibs = [i + 1 for i, f in enumerate(b.fns) if fn != 1 and f['parent'] == b.fns[fn - 1]['parent'] and i + 1 < fn]
        if sibs and r.random() < 0.5:      # a local function calling an earlier sibling: closures reached indirectly
            g = r.choice(sibs)
            return b.node(kind='call', fn=fn, name=b.fns[g - 1]['name'], form='assign', args=[r.choice(scope)], tgt=[self.tgt(fn)])
        if self.closures and depth <= 1 and len(b.fns) < 4:
            fid = b.fn('g%d' % (len(b.fns) + 1), ['p'], fn)
            if r.random() < 0.4:
                b.fns[fid - 1]['nonlocals'] = [r.choice(self.vars)]
            body = self.block(fid, scope + ['p'], depth + 1, False, hi=2)
            if N[body[-1] - 1]['kind'] != 'return':
                body.append(b.node(kind='return', fn=fid, e=self.arith(scope + ['p'])))
            b.fns[fid - 1]['body'] = body
            d = b.node(kind='def', fn=fn, name=b.fns[fid - 1]['name'], f=fid)
            callee = b.fns[fid - 1]['name']
            seq = [d]
            if r.random() < (0.5 if self.closure_heavy else 0.25):      # call through an alias while the function's own name may be dead
                seq.append(b.node(kind='assign', fn=fn, tgt=['k'], e=b.expr(kind='name', name=callee)))
                callee = 'k'
            if r.random() < (0.8 if self.closure_heavy else 0.5):   # the call happens later, after a statement that may rebind what the closure reads
                reads = sorted({x['name'] for x in b.exprs if x['kind'] == 'name' and x['name'] in self.vars}) or self.vars
                seq.append(self.stmt_simple(fn, scope, depth, inloop, prefer=reads if self.closure_heavy else None))
            seq.append(b.node(kind='call', fn=fn, name=callee, form='assign', args=[r.choice(scope)], tgt=[self.tgt(fn)]))
            return ('seq', [x for y in seq for x in (y[1] if isinstance(y, tuple) else [y])])
        return b.node(kind='assign', fn=fn, tgt=[self.tgt(fn)], e=self.arith(scope))

    def tgt(self, fn):
        """Assignment target: in a nested function only its nonlocal names or a private temporary (so that the other
        variables it mentions are reads of the enclosing function's variables, i.e. the function is a closure)."""
        if fn == 1:
            return self.r.choice(self.vars)
        f = self.b.fns[fn - 1]
        return self.r.choice(list(f['nonlocals']) * 2 + ['t%d' % fn])

    def stmt_simple(self, fn, scope, depth, inloop, prefer=None):
        b, r, N = self.b, self.r, self.b.nodes
        tgt = r.choice(prefer or self.vars)
        if r.random() < (0.8 if prefer else 0.5):
            i = b.node(kind='if', fn=fn)
            N[i - 1]['e'] = self.test(scope)
            N[i - 1]['body'] = [b.node(kind='assign', fn=fn, tgt=[tgt], e=self.arith(scope))]
            return i
        return b.node(kind='assign', fn=fn, tgt=[tgt], e=self.arith(scope))

    def program(self, lo=2, hi=4):
        b = self.b
        b.fn('f', ['a', 'b'], 0)
        scope = self.vars + ['a', 'b']
        body = [b.node(kind='assign', fn=1, tgt=[v], e=b.expr(kind=k, **kw)) for v, k, kw in
                (('x', 'name', dict(name='a')), ('y', 'const', dict(k=0)), ('z', 'const', dict(k=1)))]
        if self.globs:
            b.fns[0]['globals'] = ['gv']
            body.append(b.node(kind='assign', fn=1, tgt=['gv'], e=b.expr(kind='const', k=1)))
        if self.objects:
            body.append(b.node(kind='newobj', fn=1, tgt=['o']))
            body.append(b.setattr_node(1, 'o', 'v', b.expr(kind='name', name='b')))
            body.append(b.setattr_node(1, 'o', 'w', b.expr(kind='const', k=2)))
        body += self.block(1, scope, 0, False, lo=lo, hi=hi)
        if b.nodes[body[-1] - 1]['kind'] != 'return':
            # the result observes a random non-empty subset of the variables: what is not observed is dead at the end,
            # so liveness mistakes of the converter are not masked by a "return everything" epilogue
            terms = [(b.expr(kind='name', name=v), w) for v, w in (('x', 1), ('y', 3), ('z', 7)) if self.r.random() < 0.55]
            # (gv is never part of the result: what it holds is observed in the module after the call)
            if self.objects:
                terms += [(b.attr('o', at), w) for at, w in (('v', 11), ('w', 13)) if self.r.random() < 0.6]
            if not terms:
                terms = [(b.expr(kind='name', name=self.r.choice(self.vars)), 1)]
            total = None
            for e, w in terms:
                t = b.expr(kind='mul', args=[e, b.expr(kind='const', k=w)])
                total = t if total is None else b.expr(kind='add', args=[total, t])
            body.append(b.node(kind='return', fn=1, e=total))
        b.fns[0]['body'] = body
        p = b.finish()
        p['pure'] = 1
        p['keys'] = 1 if (self.objects and not p.get('lists') and self.r.random() < 0.4) else 0   # (LISTS is claimed for locals only)
        return p


def _flatten_seq(p_builder_block):
    out = []
    for n in p_builder_block:
        if isinstance(n, tuple):
            out.extend(n[1])
        else:
            out.append(n)
    return out


_orig_block = PureGen.block


def _block(self, fn, scope, depth, inloop, lo=1, hi=3):
    out = []
    for _ in range(self.r.randint(lo, hi)):
        n = self.stmt(fn, scope, depth, inloop)
        if isinstance(n, tuple):
            out.extend(n[1])
            last = n[1][-1]
        else:
            out.append(n)
            last = n
        if self.b.nodes[last - 1]['kind'] in JUMPS:
            break
    return out


PureGen.block = _block


def gen_pure(seed, **kw):
    lo = kw.pop('lo', 2)
    hi = kw.pop('hi', 4)
    return PureGen(random.Random(seed), **kw).program(lo, hi)
