"""./check <ID> [--tier quick|thorough] [--replay <file>] [--selftest]"""
import os
import sys
import argparse
import importlib
import traceback

from . import common, report


def main(argv=None):
    ap = argparse.ArgumentParser(prog='check')
    ap.add_argument('prop')
    ap.add_argument('--tier', default=os.environ.get('VERIF_TIER', 'quick'), choices=['quick', 'thorough'])
    ap.add_argument('--replay', default=None)
    ap.add_argument('--selftest', action='store_true')
    a = ap.parse_args(argv)
    prop = a.prop.upper()
    os.environ.setdefault('PYTHONHASHSEED', '0')
    # malt writes every generated module to a temporary file and removes it in an atexit handler, which worker processes
    # (os._exit) never run: all temporary files of this check and of its children go to a directory of their own, removed
    # when the check ends (nothing is left under /tmp)
    import tempfile
    runtmp = common.scratch('tmp_%d' % os.getpid())
    os.environ['TMPDIR'] = runtmp
    tempfile.tempdir = runtmp
    try:
        return _main(a, prop)
    finally:
        common.rmtree(runtmp)


def _main(a, prop):
    try:
        mod = importlib.import_module('vf.props.' + prop.lower())
    except ImportError:
        traceback.print_exc()
        print('MACHINERY-FAILURE property=%s no check module' % prop)
        return 2
    try:
        common.use_repo()
        if a.replay:
            return mod.replay(a.replay)
        if a.selftest:
            return mod.selftest()
        rep = report.Report(prop, a.tier, getattr(mod, 'LEVEL', 'model_checking'))
        mod.run(rep)
        return rep.finish()
    except common.MachineryError as e:
        print('MACHINERY-FAILURE property=%s %s' % (prop, e))
        return 2
    except Exception:
        traceback.print_exc()
        print('MACHINERY-FAILURE property=%s unexpected exception in the harness' % prop)
        return 2


if __name__ == '__main__':
    sys.exit(main())
