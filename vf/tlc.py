"""Driver for TLC: writes the config, runs under a timeout, parses counts, printed JSON and errors."""
import os
import re
import json
import signal
import subprocess
import time

from . import common

JAR = '/opt/veriftools/tla/tla2tools.jar'
DEPS = '/opt/veriftools/tla/CommunityModules-deps.jar'

_JSON_STR = re.compile(r'"((?:\{|\[)(?:[^"\\]|\\.)*(?:\}|\]))"')
_GEN = re.compile(r'(\d+) states generated, (\d+) distinct states found')
_SIMGEN = re.compile(r'(\d+) states checked|The number of states generated: (\d+)')
_COV = re.compile(r'^<(\w+) line (\d+), col \d+ to line \d+, col \d+ of module (\w+)>: (\d+):(\d+)', re.M)


class TLCResult:
    def __init__(self):
        self.rc = None
        self.stdout = ''
        self.generated = 0
        self.distinct = 0
        self.json = []
        self.violated = []        # names of violated invariants / properties
        self.errors = []          # other TLC errors (parse, evaluation, ...)
        self.deadlock = False
        self.timed_out = False
        self.wall_s = 0.0
        self.coverage = {}        # action name -> (count, distinct)
        self.postcondition_failed = False

    @property
    def ok(self):
        return (self.rc == 0 and not self.errors and not self.violated and not self.timed_out
                and not self.deadlock and not self.postcondition_failed)

    def require_ok(self, what=''):
        if not self.ok:
            tail = self.stdout[-3000:]
            raise common.MachineryError('TLC run %s failed: rc=%s violated=%s errors=%s timed_out=%s\n%s' % (
                what, self.rc, self.violated, self.errors[:3], self.timed_out, tail))
        return self


def parse_json_lines(text):
    out = []
    for m in _JSON_STR.finditer(text):
        raw = m.group(1)
        try:
            s = json.loads('"' + raw + '"')
            out.append(json.loads(s))
        except Exception:
            continue
    return out


def run_tlc(module, cfg, **kw):
    """run_tlc_once, retried (at most twice) when the JVM was killed by a signal it did not cause itself."""
    for attempt in range(3):
        res = run_tlc_once(module, cfg, **kw)
        if res.rc in (143, 137, -15, -9) and not res.timed_out:
            continue
        break
    return res


def run_tlc_once(module, cfg, env=None, workers=16, timeout=900, simulate=None, seed=None, deque=False,
            coverage=False, name=None, keep=False, jvm_mem='8g', extra=None, dump_dot=None, difftrace=False):
    """Run TLC on /verif/spec/<module>.tla with config text `cfg`.

    env: dict of environment variables visible to the spec through IOEnv.
    simulate: dict(num=..., depth=..., file=...) to run -simulate.
    """
    name = name or module
    work = os.path.join(common.BUILD, 'tlc', '%s_%d' % (name, os.getpid()))
    os.makedirs(work, exist_ok=True)
    cfg_path = os.path.join(work, module + '.cfg')
    with open(cfg_path, 'w') as f:
        f.write(cfg)
    props = ['-Djava.io.tmpdir=' + work]      # TLC unpacks its module archives into a temporary directory per run
    if deque:
        props.append('-Dtlc2.tool.queue.IStateQueue=StateDeque')
    cmd = ['java', '-XX:+UseParallelGC', '-Xmx' + jvm_mem] + props + [
        '-cp', JAR + ':' + DEPS, 'tlc2.TLC',
        '-workers', str(workers), '-metadir', os.path.join(work, 'meta'),
        '-noGenerateSpecTE', '-config', cfg_path]
    if coverage:
        cmd += ['-coverage', '1']
    if simulate:
        spec = 'num=%d' % simulate['num']
        if simulate.get('file'):
            spec = 'file=%s,' % simulate['file'] + spec
        cmd += ['-simulate', spec, '-depth', str(simulate.get('depth', 100))]
    if seed is not None:
        cmd += ['-seed', str(seed)]
    if dump_dot:
        cmd += ['-dump', 'dot,actionlabels', dump_dot]
    if extra:
        cmd += list(extra)
    cmd.append(os.path.join(common.SPEC, module + '.tla'))
    e = dict(os.environ)
    e.pop('JAVA_TOOL_OPTIONS', None)
    if env:
        e.update({k: str(v) for k, v in env.items()})
    res = TLCResult()
    t0 = time.time()
    p = subprocess.Popen(cmd, cwd=common.SPEC, env=e, stdout=subprocess.PIPE, stderr=subprocess.STDOUT,
                         text=True, start_new_session=True)
    try:
        out, _ = p.communicate(timeout=timeout)
    except subprocess.TimeoutExpired:
        res.timed_out = True
        try:
            os.killpg(p.pid, signal.SIGKILL)
        except ProcessLookupError:
            pass
        out, _ = p.communicate()
    res.wall_s = round(time.time() - t0, 2)
    res.rc = p.returncode
    res.stdout = out or ''
    m = None
    for m in _GEN.finditer(res.stdout):
        pass
    if m:
        res.generated, res.distinct = int(m.group(1)), int(m.group(2))
    else:
        for m in _SIMGEN.finditer(res.stdout):
            res.generated = int(m.group(1) or m.group(2))
            res.distinct = res.generated
    for m in re.finditer(r'Invariant (\S+) is violated', res.stdout):
        res.violated.append(m.group(1))
    for m in re.finditer(r'Action property (\S+) is violated|Temporal properties were violated', res.stdout):
        res.violated.append(m.group(1) or 'temporal')
    if 'Deadlock reached' in res.stdout:
        res.deadlock = True
    if re.search(r'[Pp]ost ?condition.*(violated|false|failed)', res.stdout):
        res.postcondition_failed = True
    for m in re.finditer(r'^Error: (.*)$', res.stdout, re.M):
        t = m.group(1)
        if 'is violated' in t or 'Deadlock reached' in t or 'behavior up to this point' in t:
            continue
        if 'ostcondition' in t:
            res.postcondition_failed = True
            continue
        res.errors.append(t)
    if coverage:
        for m in _COV.finditer(res.stdout):
            res.coverage[m.group(1)] = (int(m.group(4)), int(m.group(5)))
    res.json = parse_json_lines(res.stdout)
    if not keep:
        common.rmtree(work)
    return res


def sany(module_path):
    cmd = ['java', '-cp', JAR + ':' + DEPS, 'tla2sany.SANY', module_path]
    p = subprocess.run(cmd, cwd=os.path.dirname(module_path), stdout=subprocess.PIPE, stderr=subprocess.STDOUT, text=True)
    ok = p.returncode == 0 and 'Semantic errors' not in p.stdout and 'Parse Error' not in p.stdout and 'Fatal' not in p.stdout
    return ok, p.stdout


def parse_trace_states(stdout):
    """Parse a TLC counterexample ('State n: <action>' blocks) into a list of (header, text)."""
    out = []
    for m in re.finditer(r'^State (\d+): (.*?)\n(.*?)(?=^State \d+:|^\d+ states generated|\Z)', stdout, re.M | re.S):
        out.append((m.group(2).strip(), m.group(3).strip()))
    return out
