"""Shared driver for the monitors over MiniPy (CfgSound, ReachDef, Liveness, Activity)."""
import os
import re
import json

from . import common, mprun, export, skeleton, minipy as mp


def program_set(tier, seed, loop_else=False):
    """Skeletons enumerated by MiniPyGen (exhaustive up to the bound) + seeded random programs."""
    tlcs = []
    if tier == 'quick':
        sk, r1 = skeleton.enumerate_skeletons(4, 3, 2, loop_else=loop_else)
        progs = skeleton.decorated(sk, 1, seed)
        sk2, r2 = skeleton.enumerate_skeletons(3, 2, 2, loop_else=loop_else, funcs=True)
        progs += skeleton.decorated([s for s in sk2 if 'def' in s], 1, seed + 1)
        progs += mprun.random_programs(400, seed, lo=2, hi=3, maxdepth=3, loop_else=loop_else)
        tlcs = [r1, r2]
    else:
        sk, r1 = skeleton.enumerate_skeletons(5, 3, 2, loop_else=loop_else)
        progs = skeleton.decorated(sk, 1, seed)
        sk2, r2 = skeleton.enumerate_skeletons(4, 3, 2, loop_else=loop_else, funcs=True)
        progs += skeleton.decorated([s for s in sk2 if 'def' in s], 2, seed + 1)
        progs += mprun.random_programs(4000, seed, lo=2, hi=4, maxdepth=4, loop_else=loop_else)
        tlcs = [r1, r2]
    # very large random programs add cost, not shapes
    progs = [p for p in progs if len(p['nodes']) <= 45]
    return progs, tlcs


def bounds(tier):
    return dict(MaxDec=10) if tier == 'quick' else dict(MaxDec=12, MaxSteps=80)


def parse_bad(bad):
    """'<<"live", 1, 5, "z", ...>>' -> ['live', 1, 5, 'z', ...]"""
    out = []
    for tok in re.findall(r'"[^"]*"|-?\d+|TRUE|FALSE', bad):
        if tok.startswith('"'):
            out.append(tok[1:-1])
        elif tok in ('TRUE', 'FALSE'):
            out.append(tok == 'TRUE')
        else:
            out.append(int(tok))
    return out


def export_all(rep, progs, claims_fn=export.all_claims):
    """Export the real analyses' claims; a program on which the analyses themselves fail is a violation
    (they must handle every function of the class) and is left out of the exploration."""
    keep, claims = [], []
    for p in progs:
        try:
            c = claims_fn(p)
        except common.MachineryError:
            raise
        except Exception as e:
            rep.violation('%s:analysis-error:%s' % (rep.prop.lower(), type(e).__name__),
                          'the analyses fail on a function of the class: %s: %s' % (type(e).__name__, str(e)[:200]),
                          dict(source=mp.render(p)[0]))
            continue
        keep.append(p)
        claims.append(c)
    if not keep:
        raise common.MachineryError('the analyses failed on every program')
    return keep, claims


def run_monitor(rep, module, classify, loop_else=False, claims_fn=export.all_claims, progs=None):
    tier = rep.tier
    if progs is None:
        progs, tlcs = program_set(tier, common.seed(), loop_else)
        for r in tlcs:
            rep.add_tlc(r)
    wd = common.scratch('%s_%d' % (module, os.getpid()))
    progs, claims = export_all(rep, progs, claims_fn)
    cf = os.path.join(wd, 'claims.json')
    with open(cf, 'w') as f:
        json.dump(claims, f)
    res, wd2 = mprun.explore(progs, module=module, spec='MSpec', invariants=('Report',), env=dict(CLAIM_FILE=cf),
                             bounds=bounds(tier), name=module, timeout=3000)
    rep.add_tlc(res)
    recs = res.json
    if not recs:
        raise common.MachineryError('no executions explored')
    mprun.validate_model(progs, recs)
    rep.set('programs', len(progs))
    rep.set('executions', len(recs))
    rep.set('model_validated_on_cpython', len(recs))
    rep.validated(len(recs))
    nbad = 0
    for r in recs:
        if r['bad']:
            nbad += 1
            p = progs[r['pid'] - 1]
            sig, what = classify(p, parse_bad(r['bad']), claims[r['pid'] - 1])
            rep.violation(sig, what, dict(source=mp.render(p)[0], decisions=r['dec'], report=r['bad']))
    rep.set('executions_with_report', nbad)
    for p in progs[:2] + progs[-1:]:
        rep.sample(dict(source=mp.render(p)[0]))
    rep.assume('MiniPy.tla is the reference semantics; every explored execution was reproduced by CPython in this run')
    rep.assume('bounds: loop trips <= 2 per loop instance, decisions and steps per execution bounded (see MANIFEST level_note)')
    common.rmtree(wd)
    common.rmtree(wd2)
    return progs, claims, recs


def replay(path):
    w = json.load(open(path))
    print(w['witness']['source'])
    print('decisions:', w['witness']['decisions'], 'report:', w['witness']['report'])
    print(w['what'])
    return 0
