"""Shared driver for the monitors over MiniPy (CfgSound, ReachDef, Liveness, Activity)."""
import os
import re
import json

from . import common, mprun, export, skeleton, minipy as mp


def _sample(seq, n, rnd):
    seq = list(seq)
    if len(seq) <= n:
        return seq
    return [seq[i] for i in sorted(rnd.sample(range(len(seq)), n))]


OPENERS = ('if', 'ifelse', 'while', 'for', 'whileelse', 'forelse', 'with', 'try', 'def')
SECTIONS = ('else', 'except', 'finally')
JUMPS = ('break', 'continue', 'return', 'raise')


def features(toks):
    """Nesting interactions of a skeleton: for every compound statement, (where it sits, what it is, which jumps it
    contains per section, whether it ends its block, whether something follows the enclosing statement)."""
    root = dict(kind='fn', sec='body', kids=[], jumps={}, parent=None)
    cur = root
    for t in toks:
        if t in OPENERS:
            n = dict(kind=t, sec='body', kids=[], jumps={}, parent=cur, psec=cur['sec'])
            cur['kids'].append((cur['sec'], n))
            cur = n
        elif t in SECTIONS:
            cur['sec'] = t
        elif t == 'end':
            cur = cur['parent']
        else:
            cur['kids'].append((cur['sec'], t))
            if t in JUMPS:
                q = cur
                sec = cur['sec']
                while q is not None:       # the jump is inside every enclosing statement, in the section it was entered through
                    q['jumps'].setdefault(sec, set()).add(t)
                    sec = q.get('psec')
                    q = q['parent']
    out = set()

    def walk(n, followed):
        for i, (sec, k) in enumerate(n['kids']):
            same = [x for x in n['kids'] if x[0] == sec]
            last = same[-1][1] is k
            if isinstance(k, dict):
                js = tuple(sorted((s, tuple(sorted(v))) for s, v in k['jumps'].items()))
                ends = {}
                for s2, x in k['kids']:       # how each of its blocks ends
                    ends[s2] = x['kind'] if isinstance(x, dict) else x
                out.add((n['kind'], sec, k['kind'], js, tuple(sorted(ends.items())), last, followed if last else True))
                walk(k, (not last) or followed)
    walk(root, False)
    return out


def _stratified(seq, n, rnd, k=3):
    """A seeded sample of n skeletons in which every nesting interaction (features) that occurs at all occurs at least k
    times (as far as n allows); the rest is filled uniformly."""
    seq = list(seq)
    if len(seq) <= n:
        return seq
    order = list(range(len(seq)))
    rnd.shuffle(order)
    feats = [features(s) for s in seq]
    count = {}
    chosen = set()
    # greedy cover: repeatedly take the skeleton (first in the seeded order) with the most interactions seen < k times
    # (lazy evaluation: gains only shrink, so a popped entry whose gain is still current is the maximum)
    import heapq
    heap = [(-len(feats[i]), pos, i) for pos, i in enumerate(order)]
    heapq.heapify(heap)
    while heap and len(chosen) < n:
        g0, pos, i = heapq.heappop(heap)
        g = sum(1 for f in feats[i] if count.get(f, 0) < k)
        if g == 0:
            continue
        if -g0 != g:
            heapq.heappush(heap, (-g, pos, i))
            continue
        chosen.add(i)
        for f in feats[i]:
            count[f] = count.get(f, 0) + 1
    rest = [i for i in order if i not in chosen]
    chosen |= set(rest[:max(0, n - len(chosen))])
    return [seq[i] for i in sorted(chosen)]


# (family, max statements, sample size quick, sample size thorough, decoration variants, decorator options); None = all
FAMILY_PLAN = [
    ('exc', 5, 300, None, 1, {}), ('exc', 6, 0, 1000, 1, {}),
    ('loop', 5, 300, 1200, 1, {}), ('loop', 6, 0, 1000, 1, {}),
    ('loopexc', 5, 250, 1200, 1, {}),
    ('ctx', 5, 200, 800, 1, {}),
    ('nestedtry', 6, 400, None, 1, dict(balanced_exc=True)), ('nestedtry', 7, 0, 1000, 1, dict(balanced_exc=True)),
    ('tryfin', 6, 200, None, 1, dict(balanced_exc=True)),
    ('tryret', 7, 800, 2000, 1, {}),
    ('finnest', 7, 250, 1000, 1, dict(balanced_exc=True)),
    ('tryelse', 5, 300, 1000, 1, dict(balanced_exc=True)),
]


def program_set(tier, seed, loop_else=False, globfns=True):
    """The program batch of the MiniPy family.

    Exhaustive: every skeleton of spec/MiniPyGen.tla with <= 4 statements (all productions).  Deeper, focused
    enumerations of production families (exceptions, loops+jumps, loops+exceptions, context managers, nested
    functions): enumerated completely by TLC, then all (thorough) or a seeded sample (quick) is decorated.
    Plus seeded random programs (vf/minipy.RandomGen) of several profiles.
    """
    import random
    rnd = random.Random(seed * 9176 + 5)
    quick = tier == 'quick'
    tlcs = []
    sk, r = skeleton.enumerate_skeletons(4, 3, 2, loop_else=loop_else)
    tlcs.append(r)
    if quick:       # the thorough tier decorates every skeleton; the quick tier a seeded sample of them
        sk = _stratified(sk, 800, rnd, k=2)
    progs = skeleton.decorated(sk, 1, seed)
    for fam, n, nq, nt, variants, dopts in FAMILY_PLAN:
        want = nq if quick else nt
        if want == 0:
            continue
        sk, r = skeleton.enumerate_skeletons(n, 3, 2, loop_else=loop_else, allowed=skeleton.FAMILIES[fam])
        tlcs.append(r)
        sk = [s for s in sk if sum(1 for t in s if t not in ('end', 'else', 'except', 'finally')) > 4]   # <=4 already covered
        if want is not None:
            sk = _stratified(sk, want, rnd, k=1 if quick else 3)
        progs += skeleton.decorated(sk, 1 if quick else variants, seed + len(progs), **dopts)
    sk, r = skeleton.enumerate_skeletons(4 if quick else 5, 2, 2, loop_else=loop_else, funcs=True, allowed=skeleton.FAMILIES['fun'])
    tlcs.append(r)
    sk = [s for s in sk if 'def' in s]
    if quick:
        sk = _sample(sk, 500, rnd)
    progs += skeleton.decorated(sk, 1 if quick else 2, seed + 1, closure_bias=True)
    nrand = 200 if quick else 1500
    progs += mprun.random_programs(nrand, seed, lo=2, hi=3 if quick else 4, maxdepth=3, loop_else=loop_else)
    progs += mprun.random_programs(nrand // 2, seed + 7, lo=2, hi=4, maxdepth=3, loop_else=loop_else, with_=False, calls=False,
                                   dele=False, exprstmt=False)      # exception / jump focused
    if mp.CONTEXTS:     # lambdas kept in variables and called later, in and around compound statements
        progs += mprun.random_programs(200 if quick else 800, seed + 13, lo=2, hi=4, maxdepth=3, loop_else=loop_else, lam_rate=0.25,
                                       try_=False, with_=False, dele=False, hnames=False)
    # nested functions that read and rebind the enclosing function's variables, defined and called in and around compound statements
    progs += mprun.random_programs(200 if quick else 800, seed + 17, lo=2, hi=4, maxdepth=3, loop_else=loop_else, def_rate=0.12,
                                   call_rate=0.25, closure_bias=True, with_=False, dele=False, hnames=False)
    if globfns:     # module-level functions called (and converted recursively, or run unconverted) from the function under test
        progs += mprun.random_programs(150 if quick else 800, seed + 19, lo=2, hi=4, maxdepth=3, loop_else=loop_else, globfns=2,
                                       call_rate=0.3)
    # list state in and around try / loop / branch bodies (replayed under the LISTS feature as well)
    progs += mprun.random_programs(200 if quick else 800, seed + 23, lo=2, hi=4, maxdepth=3, loop_else=loop_else, list_rate=1.0,
                                   list_stmt_rate=0.3, calls=False, with_=False, dele=False, hnames=False)
    # the pure profile (ints, arithmetic, augmented and tuple assignment, counted loops, closures, attribute state): every
    # input tuple over 0..IntMax is explored
    progs += [mp.gen_pure(seed * 100003 + 70000 + i, maxdepth=3) for i in range(80 if quick else 400)]
    # very large random programs add cost, not shapes
    progs = [p for p in progs if len(p['nodes']) <= (60 if any(f['parent'] == 0 for f in p['fns'][1:]) else 45)]
    return progs, tlcs


def bounds(tier):
    return dict(MaxDec=10) if tier == 'quick' else dict(MaxDec=12, MaxSteps=80)


def reports(rec):
    """The violation reports of an execution record (a monitor keeps the first few distinct ones)."""
    b = rec.get('bad') or []
    return [b] if isinstance(b, str) else list(b)


def parse_bad(bad):
    """'<<"live", 1, 5, "z", ...>>' -> ['live', 1, 5, 'z', ...]"""
    out = []
    for tok in re.findall(r'"[^"]*"|-?\d+|TRUE|FALSE', bad):
        if tok.startswith('"'):
            out.append(tok[1:-1])
        elif tok in ('TRUE', 'FALSE'):
            out.append(tok == 'TRUE')
        else:
            out.append(int(tok))
    return out


_EXPORT = {}


def _export_chunk(idx):
    fn, progs = _EXPORT['fn'], _EXPORT['progs']
    out = []
    for i in idx:
        try:
            out.append((fn(progs[i]), None))
        except common.MachineryError as e:
            out.append((None, ('MachineryError', str(e))))
        except Exception as e:
            out.append((None, (type(e).__name__, str(e)[:300])))
    return out


def _parallel_export(progs, claims_fn, procs=12):
    import multiprocessing
    _EXPORT['fn'], _EXPORT['progs'] = claims_fn, progs
    n = len(progs)
    if n < 200:
        return _export_chunk(range(n))
    parts = [list(range(i, n, procs)) for i in range(procs)]
    with multiprocessing.get_context('fork').Pool(procs) as pool:
        res = pool.map(_export_chunk, parts)
    out = [None] * n
    for part, r in zip(parts, res):
        for i, x in zip(part, r):
            out[i] = x
    return out


def export_all(rep, progs, claims_fn=export.all_claims):
    """Export the real analyses' claims; a program on which the analyses themselves fail is a violation
    (they must handle every function of the class) and is left out of the exploration."""
    keep, claims = [], []
    results = _parallel_export(progs, claims_fn)
    for p, (c, err) in zip(progs, results):
        if err is not None and err[0] == 'MachineryError':
            raise common.MachineryError(err[1])
        try:
            if err is not None:
                raise RuntimeError(err)
        except Exception as e:
            e = type(err[0], (Exception,), {})(err[1])
            rep.violation('%s:analysis-error:%s' % (rep.prop.lower(), type(e).__name__),
                          'the analyses fail on a function of the class: %s: %s' % (type(e).__name__, str(e)[:200]),
                          dict(source=mp.render(p)[0]))
            continue
        keep.append(p)
        claims.append(c)
    if not keep:
        raise common.MachineryError('the analyses failed on every program')
    return keep, claims


def run_monitor(rep, module, classify, loop_else=False, claims_fn=export.all_claims, progs=None):
    tier = rep.tier
    if progs is None:
        progs, tlcs = program_set(tier, common.seed(), loop_else)
        for r in tlcs:
            rep.add_tlc(r)
    wd = common.scratch('%s_%d' % (module, os.getpid()))
    progs, claims = export_all(rep, progs, claims_fn)
    res, wd2 = mprun.explore(progs, module=module, spec='MSpec', invariants=('Report',), claims=claims,
                             bounds=bounds(tier), name=module, timeout=3000)
    rep.add_tlc(res)
    recs = res.json
    if not recs:
        raise common.MachineryError('no executions explored')
    mprun.validate_model(progs, recs)
    rep.set('programs', len(progs))
    rep.set('executions', len(recs))
    rep.set('model_validated_on_cpython', len(recs))
    rep.validated(len(recs))
    nbad = 0
    for r in recs:
        if r['bad']:
            nbad += 1
            p = progs[r['pid'] - 1]
            for b in reports(r):     # every distinct report of the execution is judged (an earlier one never hides a later one)
                sig, what = classify(p, parse_bad(b), claims[r['pid'] - 1])
                rep.violation(sig, what, dict(source=mp.render(p)[0], decisions=r['dec'], report=b))
    rep.set('executions_with_report', nbad)
    for p in progs[:2] + progs[-1:]:
        rep.sample(dict(source=mp.render(p)[0]))
    rep.assume('MiniPy.tla is the reference semantics; every explored execution was reproduced by CPython in this run')
    rep.assume('bounds: loop trips <= 2 per loop instance, decisions and steps per execution bounded (see MANIFEST level_note)')
    common.rmtree(wd)
    common.rmtree(wd2)
    return progs, claims, recs


def replay(path):
    w = json.load(open(path))
    print(w['witness']['source'])
    print('decisions:', w['witness']['decisions'], 'report:', w['witness']['report'])
    print(w['what'])
    return 0
