"""Exports what the real malt analyses claim about a MiniPy program, keyed by MiniPy node ids.

The analyses are run exactly as api.PyToPy.initial_analysis / control_flow.transform run them
(cfg.build, qual_names, activity, reaching_definitions, reaching_fndefs, liveness) on the parsed
source of the rendered program.  Only *observation* is added: analyzer objects are captured by
wrapping Analyzer.visit_forward / visit_reverse for the duration of the export.
"""
import ast
import contextlib

from . import common, minipy as mp


class Analysed:
    pass


@contextlib.contextmanager
def _capture(cls, meth, sink):
    orig = getattr(cls, meth)

    def wrapped(self, *a, **k):
        r = orig(self, *a, **k)
        sink.append(self)
        return r
    setattr(cls, meth, wrapped)
    try:
        yield
    finally:
        setattr(cls, meth, orig)


def analyse(p, upto='liveness'):
    """Run the real analyses on the rendered program. Returns an Analysed bundle."""
    from malt.pyct import cfg, qual_names, transformer, naming
    from malt.pyct.static_analysis import activity, reaching_definitions, reaching_fndefs, liveness
    a = Analysed()
    a.p = p
    a.src, a.lm = mp.render(p)
    a.byname = {f['name']: i + 1 for i, f in enumerate(p['fns'])}
    a.graphs = {}
    a.rd_analyzers, a.live_analyzers = [], []
    a.trees = []          # (analysed tree, function id) of the function under test and of every module-level function
    for node in ast.parse(a.src).body:      # each is analysed on its own, as it is when it is converted
        info = transformer.EntityInfo(name=node.name, source_code=a.src, source_file=None,
                                      future_features=(), namespace={})
        ctx = transformer.Context(info, naming.Namer({}), None)
        graphs = cfg.build(node)
        a.graphs.update(graphs)
        if upto != 'cfg':
            node = qual_names.resolve(node)
            node = activity.resolve(node, ctx, None)
            with _capture(reaching_definitions.Analyzer, 'visit_forward', a.rd_analyzers):
                node = reaching_definitions.resolve(node, ctx, graphs)
            node = reaching_fndefs.resolve(node, ctx, graphs)
            with _capture(liveness.Analyzer, 'visit_reverse', a.live_analyzers):
                node = liveness.resolve(node, ctx, graphs)
        a.trees.append((node, a.byname[node.name]))
    a.tree = [t for t, fid in a.trees if fid == 1][0]
    a.N = len(p['nodes'])
    return a


def fid_of_graph(a, g):
    """Function id of a graph; None for the graph of a lambda (its body executes as part of the evaluating statement)."""
    for fnode, gg in a.graphs.items():
        if gg is g:
            return None if isinstance(fnode, ast.Lambda) else a.byname[fnode.name]
    raise common.MachineryError('graph without function')


def node_id(a, ast_node):
    """MiniPy id of the statement a CFG node stands for; 0 = the arguments node; None = declaration (nonlocal/global)."""
    if isinstance(ast_node, ast.arguments):
        return 0
    if isinstance(ast_node, (ast.Nonlocal, ast.Global)):
        return None
    if isinstance(ast_node, ast.withitem):
        ln = ast_node.context_expr.lineno
    else:
        ln = ast_node.lineno
    if ln not in a.lm:
        raise common.MachineryError('CFG node at line %d has no MiniPy node:\n%s' % (ln, a.src))
    return a.lm[ln]


def _real_succ(cn, nid):
    """Successors with declaration nodes (nonlocal/global: execute nothing) contracted."""
    res, seen, todo = set(), set(), list(cn.next)
    while todo:
        b = todo.pop()
        if b in seen:
            continue
        seen.add(b)
        if nid(b) is None:
            todo.extend(b.next)
        else:
            res.add(b)
    return res


def _real_pred(cn, nid):
    res, seen, todo = set(), set(), list(cn.prev)
    while todo:
        b = todo.pop()
        if b in seen:
            continue
        seen.add(b)
        if nid(b) is None:
            todo.extend(b.prev)
        else:
            res.add(b)
    return res


def try_ids(a):
    """Map ast.Try objects to MiniPy try node ids by walking both trees in parallel."""
    out = {}

    def walk_block(stmts, ids):
        stmts = [s for s in stmts if not isinstance(s, (ast.Nonlocal, ast.Global))]
        if len(stmts) != len(ids):
            raise common.MachineryError('tree/program shape mismatch:\n' + a.src)
        for s, n in zip(stmts, ids):
            d = a.p['nodes'][n - 1]
            if isinstance(s, ast.Try):
                out[s] = n
                walk_block(s.body, d['body'])
                for h, hd in zip(s.handlers, d['handlers']):
                    out[h] = (n, hd['cls'])
                    walk_block(h.body, hd['body'])
                walk_block(s.orelse, d['orelse'])
                walk_block(s.finalbody, d['final'])
            elif isinstance(s, (ast.If, ast.While, ast.For)):
                out[s] = n
                walk_block(s.body, d['body'])
                walk_block(s.orelse, d['orelse'])
            elif isinstance(s, ast.With):
                out[s] = n
                walk_block(s.body, d['body'])
            elif isinstance(s, ast.FunctionDef):
                walk_block(s.body, a.p['fns'][d['f'] - 1]['body'])
    for tree, fid in a.trees:
        walk_block(tree.body, a.p['fns'][fid - 1]['body'])
    return out


def cfg_claims(a):
    """Per function: edges, entry successors, exit, error, mirror flag, stmt_prev/stmt_next by statement id."""
    N = a.N
    sid = try_ids(a)
    out = {}
    for fnode, g in a.graphs.items():
        if isinstance(fnode, ast.Lambda):
            continue
        fid = a.byname[fnode.name]

        def nid(cn):
            return node_id(a, cn.ast_node)
        nodes = [cn for cn in g.index.values()]
        edges = sorted({(nid(x), nid(y)) for x in nodes if nid(x) is not None for y in _real_succ(x, nid)})
        mirror = all((x in y.prev) for x in nodes for y in x.next) and all((y in x.next) for y in nodes for x in y.prev)
        entry_ok = isinstance(g.entry.ast_node, ast.arguments) and len(g.entry.prev) == 0
        # reachability inside the graph (contracted ids)
        sprev = [[] for _ in range(N)]
        snext = [[] for _ in range(N)]
        hprev, hnext = [], []
        for s, ps in g.stmt_prev.items():
            k = sid.get(s)
            real = set()
            for x in ps:
                if nid(x) is None:
                    real |= {nid(y) for y in _real_pred(x, nid)}
                else:
                    real.add(nid(x))
            ids = sorted(real)
            if isinstance(k, int):
                sprev[k - 1] = ids
            elif isinstance(k, tuple):
                hprev.append([k[0], k[1], ids])
        for s, ns in g.stmt_next.items():
            k = sid.get(s)
            # successors that are declarations are contracted to their real successors
            real = set()
            for x in ns:
                if nid(x) is None:
                    real |= {nid(y) for y in _real_succ(x, nid)}
                else:
                    real.add(nid(x))
            ids = sorted(real)
            if isinstance(k, int):
                snext[k - 1] = ids
            elif isinstance(k, tuple):
                hnext.append([k[0], k[1], ids])
        out[fid] = dict(edges=[list(e) for e in edges],
                        nodes=sorted({nid(x) for x in nodes if nid(x) is not None}),
                        exit=sorted({nid(x) for x in g.exit if nid(x) is not None}),
                        error=sorted({node_id(a, x) for x in g.error}),
                        mirror=bool(mirror), entryok=bool(entry_ok),
                        sprev=sprev, snext=snext, hprev=hprev, hnext=hnext)
    empty = dict(edges=[], nodes=[], exit=[], error=[], mirror=True, entryok=True,
                 sprev=[[] for _ in range(N)], snext=[[] for _ in range(N)], hprev=[], hnext=[])
    return [out.get(i + 1, empty) for i in range(len(a.p['fns']))]


# ---------------------------------------------------------------------------------------------
# dataflow claims: activity (per node), reaching definitions, liveness
# ---------------------------------------------------------------------------------------------
def _qn(q):
    return str(q)


def _idx(a, nid):
    """Index into per-node arrays: node id n -> n, the arguments node (0) -> N+1."""
    return a.N + 1 if nid == 0 else nid


def _stmt_table(a):
    """ast block statement -> MiniPy id (only If/While/For/Try)."""
    return {s: k for s, k in try_ids(a).items() if isinstance(k, int)
            and isinstance(s, (ast.If, ast.While, ast.For, ast.Try))}


def dataflow_claims(a):
    from malt.pyct import anno
    from malt.pyct.static_analysis import annos
    N = a.N
    W = N + 1
    fns = a.p['fns']

    def blank():
        return dict(
            aread=[[] for _ in range(W)], amod=[[] for _ in range(W)], adel=[[] for _ in range(W)],
            livein=[[] for _ in range(W)], liveout=[[] for _ in range(W)],
            sin=[[] for _ in range(N)], sout=[[] for _ in range(N)], hassl=[0] * N,
            defs=[[] for _ in range(N)], defin=[[] for _ in range(N)], hasdefin=[0] * N,
            leq=[], req=[])
    out = [blank() for _ in fns]

    # ---- activity per CFG node -------------------------------------------------------------
    for fnode, g in a.graphs.items():
        if isinstance(fnode, ast.Lambda):
            continue
        fid = a.byname[fnode.name]
        for cn in g.index.values():
            nid = node_id(a, cn.ast_node)
            if nid is None or not anno.hasanno(cn.ast_node, anno.Static.SCOPE):
                continue
            sc = anno.getanno(cn.ast_node, anno.Static.SCOPE)
            i = _idx(a, nid) - 1
            o = out[fid - 1]
            o['aread'][i] = sorted(set(o['aread'][i]) | {_qn(q) for q in sc.read})
            o['amod'][i] = sorted(set(o['amod'][i]) | {_qn(q) for q in sc.modified})
            o['adel'][i] = sorted(set(o['adel'][i]) | {_qn(q) for q in sc.deleted})

    # ---- liveness --------------------------------------------------------------------------
    for an in a.live_analyzers:
        fid = fid_of_graph(a, an.graph)
        if fid is None:
            continue
        o = out[fid - 1]
        order = list(an.graph.index.values())
        pos = {cn: i + 1 for i, cn in enumerate(order)}
        for cn in order:
            nid = node_id(a, cn.ast_node)
            if nid is not None:
                i = _idx(a, nid) - 1
                o['livein'][i] = sorted(_qn(q) for q in an.in_[cn])
                o['liveout'][i] = sorted(_qn(q) for q in an.out[cn])
            # equation table (uncontracted graph)
            if anno.hasanno(cn.ast_node, anno.Static.SCOPE):
                sc = anno.getanno(cn.ast_node, anno.Static.SCOPE)
                gen = {_qn(q) for q in sc.read}
                kill = {_qn(q) for q in (sc.modified | sc.deleted)}
                clos = set()
                for fn_ast in anno.getanno(cn.ast_node, anno.Static.DEFINED_FNS_IN):
                    if isinstance(fn_ast, ast.Lambda):
                        continue
                    fs = anno.getanno(fn_ast, annos.NodeAnno.ARGS_AND_BODY_SCOPE)
                    # generous upper bound of the closure term (the monitor decides soundness; see Liveness.tla)
                    clos |= {_qn(q) for q in (fs.read - (fs.bound - fs.nonlocals))}
            else:
                gen, kill, clos = set(), set(), set()
            o['leq'].append(dict(inn=sorted(_qn(q) for q in an.in_[cn]), out=sorted(_qn(q) for q in an.out[cn]),
                                 gen=sorted(gen), kill=sorted(kill), clos=sorted(clos),
                                 succ=sorted(pos[x] for x in cn.next)))
    st = _stmt_table(a)
    for s, k in st.items():
        fid = a.p['nodes'][k - 1]['fn']
        o = out[fid - 1]
        if anno.hasanno(s, anno.Static.LIVE_VARS_OUT):
            o['sout'][k - 1] = sorted(_qn(q) for q in anno.getanno(s, anno.Static.LIVE_VARS_OUT))
            o['sin'][k - 1] = sorted(_qn(q) for q in anno.getanno(s, anno.Static.LIVE_VARS_IN))
            o['hassl'][k - 1] = 1

    # ---- reaching definitions ----------------------------------------------------------------
    def2w = {}
    for an in a.rd_analyzers:
        fid = fid_of_graph(a, an.graph)
        if fid is None:
            continue
        for cn, stt in an.gen_map.items():
            nid = node_id(a, cn.ast_node)
            w = -1 if nid is None else fid * 1000 + nid
            for qn, ds in stt.value.items():
                for d in ds:
                    def2w[id(d)] = w
    for an in a.rd_analyzers:
        fid = fid_of_graph(a, an.graph)
        if fid is None:
            continue
        o = out[fid - 1]
        order = list(an.graph.index.values())
        pos = {cn: i + 1 for i, cn in enumerate(order)}

        def pairs(state):
            return sorted([_qn(q), def2w.get(id(d), -2)] for q, ds in state.value.items() for d in ds)
        for cn in order:
            if anno.hasanno(cn.ast_node, anno.Static.SCOPE):
                sc = anno.getanno(cn.ast_node, anno.Static.SCOPE)
                kill = sorted({_qn(q) for q in (sc.modified | sc.deleted)})
            else:
                kill = []
            gen = pairs(an.gen_map[cn]) if cn in an.gen_map else []
            o['req'].append(dict(inn=pairs(an.in_[cn]), out=pairs(an.out[cn]), gen=gen, kill=kill,
                                 pred=sorted(pos[x] for x in cn.prev)))

    class V(ast.NodeVisitor):
        def __init__(s):
            s.stmt = None

        def visit_Name(s, n):
            if isinstance(n.ctx, ast.Load) and n.lineno in a.lm and anno.hasanno(n, anno.Static.DEFINITIONS):
                idx = a.lm[n.lineno]
                fid = a.p['nodes'][idx - 1]['fn']
                ws = sorted({def2w.get(id(d), -2) for d in anno.getanno(n, anno.Static.DEFINITIONS)})
                out[fid - 1]['defs'][idx - 1].append([n.id, ws])

        def generic_visit(s, n):
            if n in st and anno.hasanno(n, anno.Static.DEFINED_VARS_IN):
                k = st[n]
                fid = a.p['nodes'][k - 1]['fn']
                out[fid - 1]['defin'][k - 1] = sorted(_qn(q) for q in anno.getanno(n, anno.Static.DEFINED_VARS_IN))
                out[fid - 1]['hasdefin'][k - 1] = 1
            super().generic_visit(n)
    for tree, fid in a.trees:
        V().visit(tree)
    # merge duplicate (name, defs) claims of one node
    for o in out:
        for i, lst in enumerate(o['defs']):
            m = {}
            for nm, ws in lst:
                m.setdefault(nm, set()).update(ws)
            o['defs'][i] = [[nm, sorted(ws)] for nm, ws in sorted(m.items())]
    return out


def all_claims(p):
    a = analyse(p)
    c = cfg_claims(a)
    d = dataflow_claims(a)
    for x, y in zip(c, d):
        x.update(y)
    return c
