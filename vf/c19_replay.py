"""C19 model validation: replay TLC's executions of TypeSem.tla on CPython.

The instrumented rendering of a program wraps every expression occurrence in __o(id, value) and logs every
binding with __s(id, value); the external functions draw their results from the decision vector TLC printed.
The (occurrence, tag) sequence and the outcome must equal what the specification computed.
"""
import types

from . import c19_lang as L

SAMPLE = {'int': 1, 'float': 1.5, 'bool': True, 'str': 's', 'none': None}


class Unsupported(Exception):
    pass


class OutOfDecisions(Exception):
    pass


def sample(tag):
    if tag[0] == 'list':
        return [SAMPLE[t] for t in tag[1:]]
    if tag[0] == 'tuple':
        return tuple(SAMPLE[t] for t in tag[1:])
    return SAMPLE[tag[0]]


def _prim(v):
    t = type(v)
    if t is list:
        return 'list'
    if t is tuple:
        return 'tuple'
    if v is None:
        return 'none'
    if t is bool:
        return 'bool'
    if t is int:
        return 'int'
    if t is float:
        return 'float'
    if t is str:
        return 'str'
    raise Unsupported('value %r' % (v,))


def tagof(v):
    t = type(v)
    if t is list:
        return ['list'] + [_prim(x) for x in v]
    if t is tuple:
        return ['tuple'] + [_prim(x) for x in v]
    if v is None:
        return ['none']
    if t is types.FunctionType:
        return ['fn']
    return [_prim(v)]


HM = 1000003
_TAGIDX = {'int': 1, 'float': 2, 'bool': 3, 'str': 4, 'none': 5, 'fn': 6, 'list': 7, 'tuple': 8}


def hash_events(ev):
    """The rolling hash HashEvs of TypeSem.tla."""
    h = 0
    for o, t in ev:
        c = 0
        for x in t:
            c = (c * 11 + _TAGIDX.get(x, 9)) % HM
        h = (h * 31 + o * 13 + c) % HM
    return h


class Run:
    def __init__(self, dec):
        self.dec = dec
        self.di = 0
        self.ev = []
        self.held = None

    def nxt(self):
        if self.di >= len(self.dec):
            raise OutOfDecisions()
        d = self.dec[self.di]
        self.di += 1
        return d

    def o(self, i, v):
        self.ev.append([i, tagof(v)])
        return v

    def s(self, i, v):
        self.ev.append([i, tagof(v)])

    def h(self, v):
        self.held = v
        return v

    def sh(self, i):
        self.ev.append([i, tagof(self.held)])

    def ext(self, name):
        res, nargs = L.EXTS[name]
        run = self
        if name == 'cb':
            return lambda: bool(run.nxt())
        if name == 'cn':
            return lambda: not bool(run.nxt())
        if name == 'ct':
            return lambda: 0 if run.nxt() else 1
        if len(res) == 1:
            return (lambda *a: sample(res[0]))
        return (lambda *a: sample(res[run.nxt() - 1]))

    def namespace(self):
        ns = {'__o': self.o, '__s': self.s, '__h': self.h, '__sh': self.sh}
        for name in L.EXTS:
            ns[name] = self.ext(name)
        for name, tag in L.GVALS.items():
            ns[name] = sample(tag)
        return ns


_EXC = ((NameError, 'NameError'), (TypeError, 'TypeError'), (ValueError, 'ValueError'), (IndexError, 'IndexError'))


def compile_program(p):
    return compile(L.render(p, instr=True), '<c19>', 'exec')


def run(code, p, dec):
    """Execute one decision vector; returns (events, outcome) in the spec's vocabulary."""
    r = Run(dec)
    ns = r.namespace()
    exec(code, ns)
    f1 = p['fns'][0]
    args = [sample(ts[r.nxt() - 1]) for ts in f1['ptypes']]
    try:
        v = ns['f'](*args)
        out = {'k': 'ret', 't': tagof(v)}
    except OutOfDecisions:
        out = {'k': 'ood', 't': []}
    except Unsupported as e:
        out = {'k': 'unsup-py', 't': [str(e)]}
    except Exception as e:
        for cls, nm in _EXC:
            if isinstance(e, cls):
                out = {'k': 'exc', 't': [nm]}
                break
        else:
            out = {'k': 'exc', 't': [type(e).__name__]}
    if r.di != len(dec) and out['k'] != 'ood':
        out = {'k': 'decisions-left', 't': [str(len(dec) - r.di)]}
    return r.ev, out
