"""C16 harness code that runs *inside* the real malt wrappers: the generic probe body, its nodes and probes.

`body` is the one function that gets wrapped / converted.  It is driven by a Node (a call tree that TLC
generated from spec/CtxStack.tla): it probes, calls every child through the child's wrapper with a probe
before and after (the `after` probe sits in a `finally:` so that it also runs while an exception is
propagating), optionally catches, optionally raises.  The probes record the identity and status of
`ag_ctx.control_status_ctx()`; nothing here decides anything.

This file must stay importable as a normal module with source on disk (malt converts `body` from source).
"""
import sys
import itertools

import malt
from malt.core import ag_ctx
from malt.impl import api

STATUS = {'E': ag_ctx.Status.ENABLED, 'D': ag_ctx.Status.DISABLED, 'U': ag_ctx.Status.UNSPECIFIED}
STNAME = {ag_ctx.Status.ENABLED: 'E', ag_ctx.Status.DISABLED: 'D', ag_ctx.Status.UNSPECIFIED: 'U'}

GSEQ = itertools.count()     # next() is atomic in CPython: a global order of probe events across threads


class ProbeError(Exception):
    pass


class ProbeAbort(BaseException):
    """Not an Exception: passes `except Exception` clauses inside malt (convert().wrapper, converted_call)."""


class Log(object):
    """Probe events of one thread; keeps every observed context object alive so that id() stays unique."""

    def __init__(self, thread=1, sched=None):
        self.thread = thread
        self.sched = sched   # optional deterministic scheduler: every probe is a yield point
        self.count = 0       # calls made so far: nodes are numbered in the order their call is reached
        self.events = []     # (gseq, node, tag, ctx object, status letter, converted?, stack depth, exception name, kind)
        self.keep = []


def probe(n, tag):
    log = n.log
    if tag == 'pre':
        log.count += 1
        n.name = log.count
    if log.sched is not None:
        log.sched.arrive(log.thread)
    c = ag_ctx.control_status_ctx()
    if tag == 'in':
        n.cur = c            # `ctx = control_status_ctx()` at the start of the body, handed down to its callees
    # a converted body reaches this artifact through converted_call -> _call_unconverted
    conv = sys._getframe(1).f_code.co_name == '_call_unconverted'
    et = sys.exc_info()[0]
    log.events.append((next(GSEQ), n.name, tag, c, STNAME.get(getattr(c, 'status', None), '?'), conv,
                       len(ag_ctx._control_ctx()), et.__name__ if et is not None else '',
                       n.kind if tag == 'pre' else None))


api.autograph_artifact(probe)


def blk(f):
    """A plain conversion-context block around the call (kind `blk`)."""
    def wrapper(*args, **kwargs):
        with ag_ctx.ControlStatusCtx(status=ag_ctx.Status.ENABLED):
            return f(*args, **kwargs)
    return api.autograph_artifact(wrapper)


class Node(object):
    def __init__(self, name, kind, log, catch=False, raises=False):
        self.name = name
        self.kind = kind
        self.log = log
        self.catch = catch
        self.raises = raises
        self.exc_type = ProbeAbort if raises == 2 else ProbeError
        self.children = []
        self.parent = None   # the calling body's node
        self.cur = None      # the context this node's body captured when it started (probe 'in')

    def captured(self, up):
        """The context captured by the body `up` levels outside the calling body (beyond the driver: the driver's)."""
        a = self.parent
        for _ in range(up):
            if a.parent is not None:
                a = a.parent
        return a.cur

    @property
    def fn(self):
        """The callee as the caller sees it: built when the call expression is evaluated, in the caller's context."""
        k = self.kind
        w = k['w']
        if w == 'plain':
            return body
        if w == 'cvt':
            return malt.convert(recursive=k['rec'], user_requested=k['ur'])(LAM if k.get('lam') else body)
        if w == 'dnc':
            return malt.experimental.do_not_convert(body)
        if w == 'uns':
            return api.call_with_unspecified_conversion_status(body)
        if w == 'blk':
            return blk(body)
        if w == 'ic':
            if k['src'] == 'cur':
                ctx = ag_ctx.control_status_ctx()
            elif k['src'] in ('up1', 'up2'):
                # a context object that is already on this thread's stack, below the current one: convert()
                # re-enters that very object (`with conversion_ctx:`)
                ctx = self.captured(int(k['src'][2]))
            else:
                ctx = ag_ctx.ControlStatusCtx(status=STATUS[k['src']])
            self.log.keep.append(ctx)
            return malt.internal.convert(body, ctx, convert_by_default=k['cbd'], user_requested=k['ur'])
        raise ValueError(w)


def body(n):
    probe(n, 'in')
    for c in n.children:
        probe(c, 'pre')
        try:
            c.fn(c)
        except BaseException:
            if not c.catch:
                raise
            probe(c, 'caught')
        finally:
            probe(c, 'post')
    if n.raises:
        probe(n, 'raise')
        raise n.exc_type(n.name)
    probe(n, 'out')


LAM = lambda n: body(n)    # converted through with_function_scope; keep alone on its line (source recovery)


def build(tree, log):
    """tree: list of {p, k, catch, raises}; node i+1 = tree[i], its parent p < i+1, node 0 = the driver.

    Nodes get their trace name when their call is reached (probe 'pre'); parts of the tree behind an
    uncaught raise are never executed and never named."""
    nodes = [Node(0, {'w': 'plain'}, log)]
    for i, rec in enumerate(tree):
        nd = Node(-1, rec['k'], log, rec['catch'], rec['raises'])
        nodes.append(nd)
        nd.parent = nodes[rec['p']]
        nodes[rec['p']].children.append(nd)
    return nodes[0]


def run_tree(tree, log, driver_raises=False):
    """Run one call tree in the calling thread; returns whether an exception escaped the driver."""
    root = build(tree, log)
    root.raises = driver_raises
    try:
        body(root)
    except (Exception, ProbeAbort) as e:
        return type(e).__name__
    return ''


class Sched(object):
    """Deterministic scheduler: exactly one thread runs at a time; probes are the yield points.

    `order` lists the thread of every probe event in the order in which the events must happen.  A thread
    that reaches a probe gives up the processor and waits until it is its turn *and* nobody else is running;
    it then performs the probe and keeps running until its next probe (or its end).  If the real code makes
    different probes than the schedule expects, waiting threads time out and the run continues unscheduled
    (`diverged`); the recorded trace is judged by TLC either way."""

    def __init__(self, order, timeout=2.0):
        import threading
        self.order = list(order)
        self.pos = 0
        self.running = None
        self.diverged = False
        self.timeout = timeout
        self.cv = threading.Condition()

    def arrive(self, t):
        with self.cv:
            if self.running == t:
                self.running = None
                self.cv.notify_all()
            while not self.diverged:
                if self.pos >= len(self.order):
                    self.diverged = True
                    self.cv.notify_all()
                    break
                if self.running is None and self.order[self.pos] == t:
                    self.running = t
                    self.pos += 1
                    return
                if not self.cv.wait(self.timeout):
                    self.diverged = True
                    self.cv.notify_all()

    def finish(self, t):
        with self.cv:
            if self.running == t:
                self.running = None
            self.cv.notify_all()
