"""Verdict collection: violations vs. known findings, replay files, evidence files, exit codes.

Exit codes of a check: 0 = property held on everything explored (KNOWN-FINDING lines allowed),
1 = at least one `VIOLATION property=<id> replay=<path>` not listed in known_findings.json,
2 = machinery failure (never accompanied by a VIOLATION line).
"""
import os
import json
import collections

from . import common

KNOWN_DIR = os.path.join(common.VERIF, 'known_findings')


def load_known(prop):
    """known_findings/<ID>.json: {"open": [{property, signature, what, repro}], "fixed": ["fixed: property=.."]}.

    Committed, never written at run time. An open entry suppresses exactly the violations that carry its
    signature; a fixed entry suppresses nothing.
    """
    path = os.path.join(KNOWN_DIR, prop + '.json')
    if not os.path.exists(path):
        return {'open': [], 'fixed': []}
    with open(path) as f:
        return json.load(f)


class Report:
    def __init__(self, prop, tier, level='model_checking'):
        self.prop = prop
        self.tier = tier
        self.level = level
        self.timer = common.Timer()
        self.known = [k for k in load_known(prop).get('open', []) if k['property'] == prop]
        self.known_sigs = {k['signature']: k for k in self.known}
        self.seen_known = collections.Counter()
        self.violations = collections.OrderedDict()   # signature -> (what, witness, count)
        self.cov = dict(states=0, transitions=0, traces_validated_against_impl=0, samples=[])
        self.assumptions = []
        self.evidence_dir = os.environ.get('VERIF_EVIDENCE_DIR', common.EVIDENCE)
        self.replay_dir = os.path.join(self.evidence_dir, 'replay', prop)
        common.rmtree(self.replay_dir)

    # ---- coverage accounting -------------------------------------------------
    def add_tlc(self, res):
        self.cov['states'] += res.distinct
        self.cov['transitions'] += res.generated
        runs = self.cov.setdefault('tlc_runs', [])
        runs.append(dict(generated=res.generated, distinct=res.distinct, wall_s=res.wall_s))

    def add(self, key, n=1):
        self.cov[key] = self.cov.get(key, 0) + n

    def set(self, key, v):
        self.cov[key] = v

    def sample(self, s, limit=5):
        if len(self.cov['samples']) < limit:
            self.cov['samples'].append(s)

    def validated(self, n=1):
        self.cov['traces_validated_against_impl'] += n

    def assume(self, text):
        if text not in self.assumptions:
            self.assumptions.append(text)

    # ---- verdicts ------------------------------------------------------------
    def violation(self, signature, what, witness):
        """Record a violation with a semantic signature; known findings are matched by signature."""
        if signature in self.known_sigs:
            self.seen_known[signature] += 1
            return False
        if signature in self.violations:
            w = self.violations[signature]
            self.violations[signature] = (w[0], w[1], w[2] + 1)
        else:
            self.violations[signature] = (what, witness, 1)
        return True

    def finish(self):
        for sig, n in self.seen_known.items():
            k = self.known_sigs[sig]
            print('KNOWN-FINDING: property=%s %s [signature=%s, %d occurrence(s) this run]' % (
                self.prop, k['what'], sig, n))
        i = 0
        for sig, (what, witness, n) in self.violations.items():
            i += 1
            path = os.path.join(self.replay_dir, 'v%03d.json' % i)
            common.dump(dict(property=self.prop, signature=sig, what=what, occurrences=n, witness=witness), path)
            print('VIOLATION property=%s replay=%s' % (self.prop, path))
            print('  signature=%s occurrences=%d: %s' % (sig, n, what))
            if i >= 25:
                print('  ... %d more distinct signatures suppressed' % (len(self.violations) - i))
                break
        self.cov['known_findings_seen'] = dict(self.seen_known)
        self.cov['known_findings_listed'] = len(self.known)
        ev = dict(property_id=self.prop, tier=self.tier, seed=common.seed(), level=self.level,
                  coverage=self.cov, assumptions=self.assumptions, wall_s=self.timer.s(),
                  violations=len(self.violations))
        common.dump(ev, os.path.join(self.evidence_dir, self.prop + '.json'))
        print('%s %s: states=%s transitions=%s validated=%s violations=%d known=%d wall=%ss' % (
            self.prop, self.tier, self.cov.get('states'), self.cov.get('transitions'),
            self.cov.get('traces_validated_against_impl'), len(self.violations), len(self.seen_known),
            self.timer.s()))
        return 1 if self.violations else 0
