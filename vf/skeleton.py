"""Skeletons enumerated by spec/MiniPyGen.tla -> decorated MiniPy programs.

TLC enumerates every control-flow skeleton of the class (token sequences); this module decorates each
with variables, tracer calls and tests.  Decoration is seeded-random over a small variable pool so
that definitions and uses meet across every control boundary in some variant.
"""
import random

from . import common, tlc, minipy as mp

GEN_CFG = """SPECIFICATION Spec
CONSTANTS MaxStmts = %d
 MaxD = %d
 MaxLen = %d
 LoopElse = %s
 Funcs = %s
 Allowed = {%s}
INVARIANT Emit
CHECK_DEADLOCK FALSE
"""


ALL = ("s", "if", "ifelse", "while", "for", "with", "tryf", "trye", "tryef", "whileelse", "forelse", "def",
       "break", "continue", "return", "raise")
FAMILIES = dict(
    exc=("s", "if", "ifelse", "trye", "tryef", "tryf", "return", "raise"),
    loop=("s", "if", "ifelse", "while", "for", "break", "continue", "return"),
    loopexc=("s", "while", "for", "trye", "tryf", "tryef", "break", "continue", "raise", "return"),
    fun=("s", "if", "for", "while", "def", "return"),
    ctx=("s", "if", "with", "for", "tryf", "return", "break", "raise"),
    nestedtry=("s", "trye", "raise", "return"),
    tryret=("s", "if", "trye", "return", "raise"),
    tryfin=("s", "tryef", "tryf", "raise", "return"),
    tryelse=("s", "if", "while", "tryel", "tryelf", "return", "raise", "break", "continue"),
    finnest=("s", "if", "while", "tryf", "raise"),       # try/finally statements nested in finally blocks, under conditions and loops
)


def enumerate_skeletons(max_stmts=4, max_d=3, max_len=2, loop_else=False, funcs=False, workers=8, timeout=600, allowed=ALL):
    if loop_else and allowed is not ALL:      # loop-else variants only for families that have the loop itself
        allowed = tuple(allowed) + tuple(x for x, base in (("whileelse", "while"), ("forelse", "for"))
                                         if base in allowed and x not in allowed)
    res = tlc.run_tlc('MiniPyGen', GEN_CFG % (max_stmts, max_d, max_len, 'TRUE' if loop_else else 'FALSE',
                                              'TRUE' if funcs else 'FALSE', ', '.join('"%s"' % a for a in allowed)),
                      workers=workers, timeout=timeout, name='gen').require_ok('MiniPyGen')
    sk = [j for j in res.json if isinstance(j, list)]
    sk.sort()
    return sk, res


class Decorator:
    def __init__(self, rnd, names=('x', 'y'), simple_tests=0.8, closure_bias=False, balanced_exc=False, contexts=None, init=0.7, obj_rate=0.25):
        self.init = init
        self.objects = (mp.CONTEXTS if contexts is None else contexts) and rnd.random() < obj_rate
        self.lists = (mp.CONTEXTS if contexts is None else contexts) and rnd.random() < 0.2
        self.contexts = mp.CONTEXTS if contexts is None else contexts
        self.cx = mp.Contexts(rnd, names)
        self.pexc = 0.5 if balanced_exc else 0.85      # probability of class E1 for raise statements and handlers
        self.r = rnd
        self.names = list(names)
        self.simple_tests = simple_tests
        self.closure_bias = closure_bias     # nested functions mostly read / rebind the enclosing function's variables
        self.infn = 0

    def reads(self, b, scope, hi=2):
        return [self.r.choice(scope) for _ in range(self.r.randint(0, hi))]

    def test(self, b, scope, depth=0):
        r = self.r.random()
        if r < self.simple_tests or depth > 0:
            return b.D(self.reads(b, scope))
        if r < self.simple_tests + 0.05:
            return b.expr(kind='not', args=[self.test(b, scope, 1)])
        return b.expr(kind=self.r.choice(['and', 'or']), args=[self.test(b, scope, 1), self.test(b, scope, 1)])

    def value(self, b, scope):
        r = self.r.random()
        if self.contexts and self.r.random() < 0.1:
            return self.cx.value(b, scope)
        if r < 0.75:
            return b.T(self.reads(b, scope))
        if r < 0.85:
            return b.expr(kind='name', name=self.r.choice(scope))
        if r < 0.93:
            def leaf():
                if self.r.random() < 0.25:     # a conditional expression nested in a conditional expression
                    return b.expr(kind='ifexp', args=[b.D(self.reads(b, scope, 1)), b.T(self.reads(b, scope, 1)), b.T(self.reads(b, scope, 1))])
                return b.T(self.reads(b, scope, 1))
            return b.expr(kind='ifexp', args=[b.D(self.reads(b, scope, 1)), leaf(), leaf()])
        return b.expr(kind=self.r.choice(['and', 'or']), args=[b.T(self.reads(b, scope, 1)), b.T(self.reads(b, scope, 1))])

    def decorate(self, toks):
        b = mp.Builder()
        b.fn('f', ['a', 'b'], 0)
        self.pos = 0
        self.toks = toks
        scope = self.names + ['a', 'b']
        body = self.block(b, 1, scope)
        if self.pos != len(toks):
            raise common.MachineryError('skeleton not consumed: %r' % (toks,))
        b.fns[0]['body'] = mp.initial_assignments(b, self.r, self.names, self.init, self.cx, self.objects, self.lists) + body
        p = b.finish()
        p['keys'] = 1 if (self.objects and not p.get('lists') and self.r.random() < 0.4) else 0   # (LISTS is claimed for locals only)
        return p

    def _reads_of(self, b, e):
        x = b.exprs[e - 1]
        out = set(x['reads']) | ({x['name']} if x['name'] else set())
        for a in x['args']:
            out |= self._reads_of(b, a)
        return out

    def peek(self):
        return self.toks[self.pos] if self.pos < len(self.toks) else None

    def take(self, t=None):
        x = self.toks[self.pos]
        if t is not None and x != t:
            raise common.MachineryError('skeleton parse error at %d: %r' % (self.pos, self.toks))
        self.pos += 1
        return x

    def block(self, b, fn, scope):
        out = []
        while self.peek() not in (None, 'end', 'else', 'except', 'finally'):
            out.append(self.stmt(b, fn, scope))
        return out

    def stmt(self, b, fn, scope):
        t = self.take()
        N = b.nodes
        r = self.r
        if t == 's':
            q = r.random()
            if self.objects and r.random() < 0.15:
                return self.cx.object_stmt(b, fn, scope, b.T(self.reads(b, scope)))
            if self.lists and fn == 1 and r.random() < 0.2:
                return self.cx.list_stmt(b, fn, scope, b.T(self.reads(b, scope)))
            if self.contexts and r.random() < 0.08:
                if self.cx.callable_lams(b, fn) and r.random() < 0.6:
                    return self.cx.lambda_call(b, fn, scope, allow_return=False)
                return self.cx.lambda_stmt(b, fn, scope)
            if q < 0.85:
                return b.node(kind='assign', fn=fn, tgt=[r.choice(self.names)], e=self.value(b, scope))
            if q < 0.95:
                return b.node(kind='expr', fn=fn, e=b.T(self.reads(b, scope)))
            return b.node(kind='del', fn=fn, tgt=[r.choice(self.names)])
        if t == 'if':
            i = b.node(kind='if', fn=fn)
            N[i - 1]['e'] = self.test(b, scope)
            N[i - 1]['body'] = self.block(b, fn, scope)
            if self.peek() == 'else':
                self.take()
                N[i - 1]['orelse'] = self.block(b, fn, scope)
            self.take('end')
            return i
        if t in ('while', 'for'):
            i = b.node(kind=t, fn=fn)
            if t == 'while':
                N[i - 1]['e'] = self.test(b, scope)
            else:
                N[i - 1]['tgt'] = [r.choice(self.names)]
                if self.contexts and r.random() < 0.2:
                    N[i - 1]['tgt'] = [r.choice(self.names), r.choice(self.names)]
                N[i - 1]['e'] = b.I(self.reads(b, scope), pairs=len(N[i - 1]['tgt']) == 2)
            body = self.block(b, fn, scope)
            if r.random() < 0.2:     # a loop directive must be the first statement of the loop body
                body = [b.node(kind='directive', fn=fn, k=100 + b.newk())] + body
            N[i - 1]['body'] = body
            if self.peek() == 'else':
                self.take()
                N[i - 1]['orelse'] = self.block(b, fn, scope)
            self.take('end')
            return i
        if t == 'with':
            i = b.node(kind='with', fn=fn, k=b.newk(), name=r.choice(['', ''] + self.names))
            N[i - 1]['body'] = self.block(b, fn, scope)
            self.take('end')
            return i
        if t == 'try':
            i = b.node(kind='try', fn=fn)
            N[i - 1]['body'] = self.block(b, fn, scope)
            if self.peek() == 'except':
                self.take()
                hname = r.choice(['', '', 'ex', r.choice(self.names)])
                N[i - 1]['handlers'] = [dict(cls=1 if r.random() < self.pexc else 2, name=hname,
                                             body=self.block(b, fn, scope + (['ex'] if hname == 'ex' else [])))]
            if self.peek() == 'else':
                self.take()
                N[i - 1]['orelse'] = self.block(b, fn, scope)
            if self.peek() == 'finally':
                self.take()
                N[i - 1]['final'] = self.block(b, fn, scope)
            self.take('end')
            return i
        if t in ('break', 'continue'):
            return b.node(kind=t, fn=fn)
        if t == 'return':
            return b.node(kind='return', fn=fn, e=self.value(b, scope))
        if t == 'raise':
            return b.node(kind='raise', fn=fn, exc=1 if r.random() < self.pexc else 2)
        if t == 'def':
            np_ = r.choice([0, 1, 1, 2])
            params = ['p', 'q'][:np_]
            fid = b.fn('g%d' % (len(b.fns) + 1), params, fn)
            b.fns[fid - 1]['nonlocals'] = r.sample(self.names, r.choice([0, 0, 1] if not self.closure_bias else [0, 1, 1]))
            self.infn += 1
            b.fns[fid - 1]['body'] = self.block(b, fid, (self.names * 3 + params) if self.closure_bias else scope + params)
            self.infn -= 1
            self.take('end')
            nd = b.node(kind='def', fn=fn, name=b.fns[fid - 1]['name'], f=fid)
            if self.contexts:
                self.cx.decorate_def(b, nd, scope)
            return nd
        if t in ('call', 'callnr'):
            # the def token sequence is always followed by a call of the function just defined
            f = max(i for i in range(1, len(b.fns) + 1) if b.fns[i - 1]['parent'] == fn)
            form = r.choice(['assign', 'assign', 'expr'] + (['return'] if t == 'call' else []))
            args = [r.choice(scope) for _ in b.fns[f - 1]['params']]
            tgt = r.choice(self.names)
            if self.closure_bias:
                # the call result often overwrites a variable the callee itself uses (the statement kills what it reads)
                used = sorted({nm for d in b.nodes if d['fn'] == f and d['e'] for nm in self._reads_of(b, d['e'])} & set(self.names))
                if used and r.random() < 0.6:
                    tgt = r.choice(used)
            return b.node(kind='call', fn=fn, name=b.fns[f - 1]['name'], form=form, args=args,
                          tgt=[tgt] if form == 'assign' else [])
        raise common.MachineryError('unknown skeleton token %r' % (t,))


def decorated(skeletons, variants, seed, **kw):
    progs = []
    for si, toks in enumerate(skeletons):
        for v in range(variants):
            rnd = random.Random((seed * 7919 + si) * 31 + v)
            progs.append(Decorator(rnd, **kw).decorate(toks))
    return progs
