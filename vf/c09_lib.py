"""C09 helper: renders FnEnv scenarios to real Python modules and replays TLC behaviours on (f, to_graph(f), convert()(f),
to_graph(a caller of f)).

Nothing here decides what is expected: every expected observation / heap / probe result is read from the
records printed by spec/FnEnv.tla.  This module only (1) writes the source of a scenario, (2) drives the real
functions step by step and (3) compares what happened with the TLC record.
"""
import importlib.util
import inspect
import json
import logging
import os
import re
import sys
import traceback

FREE = ['v0', 'v1', 'v2']
KO = ['k', 'm']
SLOT_ORDER = [1, 2, 3, 4, 11, 12]            # order of the default objects in the printed heap

PRELUDE = '''\
import types
import malt
G = 1
CMD = [None, None]
DECO = {}
EVALS = {}


class _Opaque(object):
    __slots__ = ()


def _D(key, mutable):
    EVALS[key] = EVALS.get(key, 0) + 1
    return [] if mutable else _Opaque()


def _alias(ident):
    """A module alias through which a directive is reached; `ident` is the abstract value of the cell."""
    m = types.ModuleType('malt_alias_%d' % ident)
    m.experimental = malt.experimental
    m.ident = ident
    return m


def _deco(key, wrap):
    """A counting decorator; with `wrap` it returns a plain-Python wrapper instead of the function itself."""
    def apply(fn):
        DECO[key] = DECO.get(key, 0) + 1
        if not wrap:
            return fn

        def _w(*_a, **_k):
            return fn(*_a, **_k)
        _w.__wrapped__ = fn
        return _w
    return apply


def _fwd(fn):
    """A caller of fn: converting it (recursively) makes fn a callee reached through converted_call."""
    def _r(*_a, **_k):
        return fn(*_a, **_k)
    return _r

'''


# ---------------------------------------------------------------------------------------------------------
# rendering
# ---------------------------------------------------------------------------------------------------------
def sig_text(sc, K, with_self):
    """The parameter list of the scenario, defaults written as calls `_D((K, _i), mutable)`."""
    parts = []
    if with_self:
        parts.append('self')
    params = sc['params']
    mut = set(sc['mut'])
    seen_posonly = False
    star_done = False
    for idx, p in enumerate(params):
        kind = p['kind']
        if kind != 'posonly' and seen_posonly:
            parts.append('/')
            seen_posonly = False
        d = ''
        if p['dflt']:
            d = '=_D((%d, _i), %s)' % (K, 'True' if p['dflt'] in mut else 'False')
        if kind == 'posonly':
            seen_posonly = True
            parts.append(p['name'] + d)
        elif kind == 'pos':
            parts.append(p['name'] + d)
        elif kind == 'vararg':
            parts.append('*' + p['name'])
            star_done = True
        elif kind == 'kwonly':
            if not star_done:
                parts.append('*')
                star_done = True
            parts.append(p['name'] + d)
        elif kind == 'varkw':
            parts.append('**' + p['name'])
    if seen_posonly:
        parts.append('/')
    return ', '.join(parts)


def _tuple(names):
    return '(' + ''.join(n + ', ' for n in names) + ')'


def render_scenario(sc, K):
    """Python source of scenario number K: defines make_<K>() -> list of (f, sib, sget) per instance."""
    kind = sc['kind']
    free = sc['free']
    nfree = len(free)
    names = FREE[:nfree]
    params = sc['params']
    method = kind == 'method'
    pnames = (['self'] if method else []) + [p['name'] for p in params]
    dparams = [p['name'] for p in params if p['dflt']]
    reads = [n for n, v in zip(names, free) if v['role'] != 'd']
    writes = [n for n, v in zip(names, free) if v['role'] == 'w']
    dvars = [n for n, v in zip(names, free) if v['role'] == 'd']
    shared = [n for n, v in zip(names, free) if v['sh']]
    sig = sig_text(sc, K, method)
    L = []

    def body(ind):
        b = []
        if writes:
            b.append('nonlocal ' + ', '.join(writes))
        for n in dvars:
            b.append('for _q in (0, ):')
            b.append('    %s.experimental.set_loop_options(maximum_iterations=1)' % n)
        b.append('for _p in %s:' % _tuple(dparams))
        b.append('    if _p.__class__ is list:')
        b.append('        _p.append(len(_p))')
        for n in writes:
            b.append("if CMD[0] == '%s':" % n)
            b.append('    %s = CMD[1]' % n)
        b.append('return (%s, %s, G)' % (_tuple(pnames), _tuple(reads)))
        return [ind + x for x in b]

    if kind == 'def':
        L.append('def f_%d(%s):' % (K, sig.replace('_i', '1')))
        L += body('    ')
        L.append('')
        L.append('def make_%d():' % K)
        L.append('    return [(f_%d, None, None)]' % K)
        L.append('')
        return '\n'.join(L) + '\n'

    ni = sc['ni']
    if kind == 'decorated':
        L.append('_deco_%d = _deco((%d, 1), %s)' % (K, K, 'True' if sc.get('wrap') else 'False'))
        L.append('')
    L.append('def make_%d():' % K)
    L.append('    _out = []')
    L.append('    for _i in range(1, %d):' % (ni + 1))
    L.append('        def _mk(_i):')
    ind = '            '
    for j, (n, v) in enumerate(zip(names, free)):
        if v['role'] == 'd':
            L.append(ind + '%s = _alias(_i * 10 + %d)' % (n, j + 1))
        elif v['asg']:
            L.append(ind + '%s = _i * 10 + %d' % (n, j + 1))
        else:
            L.append(ind + 'if 0:')
            L.append(ind + '    %s = None' % n)
    if kind == 'lambda':
        L.append(ind + 'f = lambda %s: ([_p.append(len(_p)) for _p in %s if _p.__class__ is list], %s, %s, (G if G else G))[1:]' % (
            sig, _tuple(dparams), _tuple(pnames), _tuple(reads)))
    elif method:
        L.append(ind + 'class C_%d(object):' % K)
        L.append(ind + '    def m(%s):' % sig)
        L += body(ind + '        ')
        L.append(ind + 'f = C_%d().m' % K)
    else:
        if kind == 'decorated':
            L.append(ind + '@_deco_%d' % K)
        L.append(ind + 'def f(%s):' % sig)
        L += body(ind + '    ')
    L.append(ind + 'def sib(n, val):')
    if shared:
        L.append(ind + '    nonlocal ' + ', '.join(shared))
        for n in shared:
            L.append(ind + "    if n == '%s':" % n)
            L.append(ind + '        %s = val' % n)
    else:
        L.append(ind + '    pass')
    L.append(ind + 'def sget(n):')
    L.append(ind + '    try:')
    for n in shared:
        L.append(ind + "        if n == '%s':" % n)
        L.append(ind + '            return %s' % n)
    L.append(ind + '        return None')
    L.append(ind + '    except NameError:')
    L.append(ind + '        return 0')
    L.append(ind + 'return (f, sib, sget)')
    L.append('        _out.append(_mk(_i))')
    L.append('    return _out')
    L.append('')
    return '\n'.join(L) + '\n'


def write_module(path, scenarios):
    """scenarios: list of (K, sc). Returns the source text."""
    src = PRELUDE + '\n'.join(render_scenario(sc, K) for K, sc in scenarios)
    with open(path, 'w') as f:
        f.write(src)
    return src


def load_module(path, name):
    spec = importlib.util.spec_from_file_location(name, path)
    mod = importlib.util.module_from_spec(spec)
    sys.modules[name] = mod
    spec.loader.exec_module(mod)
    return mod


# ---------------------------------------------------------------------------------------------------------
# replay
# ---------------------------------------------------------------------------------------------------------
class Problem(Exception):
    def __init__(self, clause, detail, info):
        Exception.__init__(self, clause, detail, info)
        self.clause = clause
        self.detail = detail
        self.info = info


class ConvertFailed(Exception):
    def __init__(self, exc):
        Exception.__init__(self, repr(exc))
        self.exc = exc


class Inst(object):
    __slots__ = ('f', 'fu', 'selfobj', 'sib', 'sget', 'g', 'c', 'r', 'cells', 'refd', 'refkw', 'key', 'statics_ok')


def cell_value(cell):
    try:
        v = cell.cell_contents
    except ValueError:
        return 0
    return getattr(v, 'ident', v)


class Runner(object):
    """Replays behaviours of one scenario on the real functions (mode 'real') or, with every side mapped to the
    unconverted function, on plain CPython (mode 'twin': validates the specification's model of Python)."""

    def __init__(self, malt, mod, K, sc):
        self.malt = malt
        self.mod = mod
        self.K = K
        self.sc = sc
        self.kind = sc['kind']
        self.method = self.kind == 'method'
        self.wrap = bool(sc.get('wrap'))
        self.params = sc['params']
        self.cparams = ([sc['selfparam']] if self.method else []) + list(self.params)
        self.names = FREE[:len(sc['free'])]
        self.make = getattr(mod, 'make_%d' % K)
        self.gcells = set(sc['gcells'])
        self.mut = set(sc['mut'])
        self.has_d = any(v['role'] == 'd' for v in sc['free'])

    # ---- instances ------------------------------------------------------------------------------------
    def instantiate(self, mode):
        mod = self.mod
        mod.G = 1
        mod.CMD[:] = [None, None]
        if self.kind != 'def':
            for i in (1, 2):
                mod.DECO.pop((self.K, i), None)
                mod.EVALS.pop((self.K, i), None)
        insts = []
        for i, (f, sib, sget) in enumerate(self.make()):
            it = Inst()
            # side "r": a caller that forwards its arguments to f.  For a decorator that returns a wrapper the name is
            # bound to that wrapper - it is the caller - and f is the function it wraps.
            caller = f if self.wrap else mod._fwd(f)
            if self.wrap:
                f = f.__wrapped__
            it.f = f
            it.fu = f.__func__ if self.method else f
            it.selfobj = f.__self__ if self.method else None
            it.sib = sib
            it.sget = sget
            it.g = None
            it.key = (self.K, i + 1)
            it.cells = dict(zip(it.fu.__code__.co_freevars, it.fu.__closure__ or ()))
            it.refd = tuple(it.fu.__defaults__ or ())
            it.refkw = dict(it.fu.__kwdefaults__ or {})
            if self.kind == 'def':           # module-level function: one object for the whole run, reset its state
                for o in list(it.refd) + list(it.refkw.values()):
                    if o.__class__ is list:
                        del o[:]
            it.c = self.malt.convert()(f) if mode == 'real' else f
            if mode == 'real':
                try:
                    it.r = self.malt.to_graph(caller)
                except Exception as e:
                    raise ConvertFailed(e)
            else:
                it.r = caller                # plain CPython: the unconverted caller
            it.statics_ok = False
            insts.append(it)
        return insts

    def convert(self, it, mode):
        if mode == 'twin':
            it.g = it.f
            return
        try:
            it.g = self.malt.to_graph(it.f)
        except Exception as e:          # any failure to convert a function of the modelled class
            raise ConvertFailed(e)

    # ---- calls ----------------------------------------------------------------------------------------
    def side_fn(self, it, side, mode):
        """-> (callable, tuple of leading positional arguments supplied by the caller)."""
        if side == 'r':
            return it.r, ()
        if mode == 'twin' or side == 'f':
            return it.f, ()
        if side == 'c':
            return it.c, ()
        if self.method:
            return it.g, (it.selfobj,)
        return it.g, ()

    def do_call(self, it, side, mode, npos, kws, dup, cmd=None, val=None):
        fn, lead = self.side_fn(it, side, mode)
        pos = lead + tuple(('P', j) for j in range(npos))
        kw = dict((n, ('K', n)) for n in kws)
        if cmd is not None:
            self.mod.CMD[:] = [cmd, val]
        try:
            if dup:
                d = min(kws)
                r = fn(*pos, **kw, **{d: ('K', d)})
            else:
                r = fn(*pos, **kw)
            return ('', r)
        except Exception as e:
            return (type(e).__name__, e)
        finally:
            if cmd is not None:
                self.mod.CMD[:] = [None, None]

    def compare_call(self, it, got, obs, npos, what):
        """obs = [exc, how, spill, extra, reads, glob, name, val] as printed by TLC."""
        exc, how, spill, extra, reads, glob, name = obs[0], obs[1], obs[2], obs[3], obs[4], obs[5], obs[6]
        if got[0] != exc:
            raise Problem('call-exception', '%s:expected-%s-got-%s' % (what, exc or 'return', got[0] or 'return'),
                          dict(expected=exc, got=got[0], message=str(got[1])[:300]))
        if exc == 'TypeError':
            return
        if exc == 'NameError':
            if ("'%s'" % name) not in str(got[1]):
                raise Problem('call-exception', '%s:NameError-other-variable' % what,
                              dict(expected_name=name, message=str(got[1])[:300]))
            return
        r = got[1]
        try:
            pv, rv, gv = r
            assert len(pv) == len(self.cparams)
        except Exception:
            raise Problem('call-result', '%s:shape' % what, dict(result=repr(r)[:300]))
        eff = ((it.selfobj,) if self.method else ()) + tuple(('P', j) for j in range(npos))
        for idx, (p, h) in enumerate(zip(self.cparams, how)):
            v = pv[idx]
            if h == 'pos':
                ok = (v is eff[idx]) if (self.method and idx == 0) else (v == eff[idx])
            elif h == 'kw':
                ok = v == ('K', p['name'])
            elif h == 'dflt':
                ref = it.refkw.get(p['name']) if p['kind'] == 'kwonly' else it.refd[p['dflt'] - 1]
                ok = v is ref
            elif h == 'star':
                ok = isinstance(v, tuple) and v == eff[len(eff) - spill:] and len(v) == spill
            else:
                ok = isinstance(v, dict) and v == dict((n, ('K', n)) for n in extra)
            if not ok:
                raise Problem('call-result', '%s:%s-parameter-%s' % (what, p['kind'], h),
                              dict(parameter=p['name'], expected_source=h, value=repr(v)[:200]))
        if tuple(rv) != tuple(reads):
            raise Problem('call-result', '%s:free-variable-values' % what, dict(expected=reads, got=repr(rv)[:200]))
        if gv != glob:
            raise Problem('call-result', '%s:global-value' % what, dict(expected=glob, got=repr(gv)[:100]))

    # ---- projection -----------------------------------------------------------------------------------
    def check_statics(self, it):
        g, fu = it.g, it.fu
        try:
            sg, sf = inspect.signature(g), inspect.signature(fu)
        except Exception as e:
            raise Problem('signature', 'inspect-error', dict(error=repr(e)))
        if sg != sf:
            raise Problem('signature', 'differs', dict(f=str(sf), g=str(sg)))
        want = [(p['name'], p['kind']) for p in self.cparams]
        kmap = {inspect.Parameter.POSITIONAL_ONLY: 'posonly', inspect.Parameter.POSITIONAL_OR_KEYWORD: 'pos',
                inspect.Parameter.VAR_POSITIONAL: 'vararg', inspect.Parameter.KEYWORD_ONLY: 'kwonly',
                inspect.Parameter.VAR_KEYWORD: 'varkw'}
        have = [(p.name, kmap[p.kind]) for p in sg.parameters.values()]
        if have != want:
            raise Problem('signature', 'parameters', dict(expected=want, got=have))
        sc_ = inspect.signature(it.c)
        if sc_ != inspect.signature(it.f):
            raise Problem('signature', 'convert-wrapper', dict(f=str(inspect.signature(it.f)), c=str(sc_)))
        it.statics_ok = True

    def check_identities(self, it):
        g, fu = it.g, it.fu
        gd = g.__defaults__ or ()
        fd = fu.__defaults__ or ()
        if len(gd) != len(it.refd) or any(a is not b for a, b in zip(gd, it.refd)):
            raise Problem('defaults-identity', 'positional', dict(n_expected=len(it.refd), n_got=len(gd)))
        if len(fd) != len(it.refd) or any(a is not b for a, b in zip(fd, it.refd)):
            raise Problem('defaults-identity', 'positional-of-original-replaced', {})
        gk = g.__kwdefaults__ or {}
        if set(gk) != set(it.refkw) or any(gk[n] is not it.refkw[n] for n in gk):
            raise Problem('defaults-identity', 'keyword-only', dict(expected=sorted(it.refkw), got=sorted(gk)))
        if g.__globals__ is not fu.__globals__ or fu.__globals__ is not self.mod.__dict__:
            raise Problem('globals-identity', 'dict', {})
        gcl = dict(zip(g.__code__.co_freevars, g.__closure__ or ()))
        for n in self.names:
            role = self.sc['free'][FREE.index(n)]['role']
            if n in gcl:
                if gcl[n] is not it.cells[n]:
                    raise Problem('cell-identity', 'role-%s' % role, dict(name=n))
            elif n in self.gcells:
                raise Problem('cell-missing', 'role-%s' % role, dict(name=n))

    def check_heap(self, insts, post, what):
        mod = self.mod
        for i, it in enumerate(insts):
            for j, n in enumerate(self.names):
                exp = post[i * 3 + j]
                got = cell_value(it.cells[n])
                if got != exp:
                    raise Problem('cell-value', what, dict(instance=i + 1, name=n, expected=exp, got=repr(got)[:80]))
            for s, slot in enumerate(SLOT_ORDER):
                exp = post[6 + i * 6 + s]
                if slot <= 4:
                    o = it.refd[slot - 1] if slot <= len(it.refd) else None
                else:
                    o = it.refkw.get(KO[slot - 11])
                got = len(o) if o.__class__ is list else 0
                if got != exp:
                    raise Problem('default-content', what, dict(instance=i + 1, slot=slot, expected=exp, got=got))
            if mod.DECO.get(it.key, 0) != post[19 + i]:
                raise Problem('decorator-applied-again', what, dict(expected=post[19 + i], got=mod.DECO.get(it.key, 0)))
            if mod.EVALS.get(it.key, 0) != post[21 + i]:
                raise Problem('default-expression-evaluated-again', what,
                              dict(expected=post[21 + i], got=mod.EVALS.get(it.key, 0)))
        if mod.G != post[18]:
            raise Problem('global-value', what, dict(expected=post[18], got=repr(mod.G)[:80]))

    def check_probes(self, insts, probes, mode, what, last):
        """The effect-free full call on every side (the convert() wrapper and the converted caller, which convert on
        every call, only after the last step; the caller only in the jobs whose behaviours call through it)."""
        fullnpos = sum(1 for p in self.params if p['kind'] in ('posonly', 'pos'))
        fullkw = [p['name'] for p in self.params if p['kind'] == 'kwonly']
        for i, it in enumerate(insts):
            sides = ['f'] + (['g'] if mode == 'real' and it.g is not None else []) + (
                (['c'] if mode == 'real' else []) + (['r'] if self.sc['rprobe'] else []) if last else [])
            for side in sides:
                got = self.do_call(it, side, mode, fullnpos, fullkw, False)
                self.compare_call(it, got, probes[i], fullnpos, '%s:probe-%s' % (what, side))

    def check_all(self, insts, post, probes, mode, what, last=False):
        if mode == 'real':
            for it in insts:
                if it.g is not None:
                    if not it.statics_ok:
                        self.check_statics(it)
                    self.check_identities(it)
        self.check_heap(insts, post, what)
        self.check_probes(insts, probes, mode, what, last)

    # ---- one behaviour ----------------------------------------------------------------------------------
    def run(self, steps, mode):
        """Raises Problem / ConvertFailed; returns the number of steps executed."""
        sc = self.sc
        insts = self.instantiate(mode)
        if sc['pre']:
            for it in insts:
                self.convert(it, mode)
        self.check_all(insts, sc['post'], sc['probes'], mode, 'initial', last=not steps)
        for n, st in enumerate(steps):
            act, side, i, npos, kws, dup, name, how, val, obs, post, probes = st
            it = insts[i - 1]
            what = '%s-%s' % (act, side if act != 'rebind' else side + '-' + how)
            if act == 'convert':
                self.convert(it, mode)
            elif act == 'call':
                got = self.do_call(it, side, mode, npos, kws, dup)
                self.compare_call(it, got, obs, npos, what)
            elif act == 'rebind':
                if how == 'call':
                    got = self.do_call(it, side, mode, npos, kws, False, cmd=name, val=val)
                    self.compare_call(it, got, obs, npos, what)
                elif how == 'cell':
                    fn = it.fu if (side == 'f' or mode == 'twin') else it.g
                    cl = dict(zip(fn.__code__.co_freevars, fn.__closure__ or ()))
                    cl[name].cell_contents = val
                else:
                    it.sib(name, val)
            elif act == 'readback':
                if how == 'cell':
                    fn = it.fu if (side == 'f' or mode == 'twin') else it.g
                    cl = dict(zip(fn.__code__.co_freevars, fn.__closure__ or ()))
                    got = cell_value(cl[name])
                else:
                    got = it.sget(name)
                    got = getattr(got, 'ident', got)
                if got != obs[7]:
                    raise Problem('cell-value', what, dict(name=name, expected=obs[7], got=repr(got)[:80]))
            elif act == 'mutate':
                fn = it.fu if (side == 'f' or mode == 'twin') else it.g
                o = fn.__defaults__[val - 1] if val <= 4 else fn.__kwdefaults__[KO[val - 11]]
                o.append(len(o))
            elif act == 'global':
                fn = it.fu if (side == 'f' or mode == 'twin') else it.g
                fn.__globals__['G'] = val
            else:
                raise RuntimeError('unknown action %r' % (act,))
            self.check_all(insts, post, probes, mode, what, last=(n == len(steps) - 1))
        if mode == 'real':
            for it in insts:
                if it.g is not None:
                    self.check_statics(it)
        return len(steps)


def classify_convert_failure(runner, exc):
    """-> (signature, text) for a function of the modelled class that malt.to_graph() refuses to convert."""
    msg = str(exc)
    if 'closure mismatch' in msg and runner.has_d:
        return ('c09:closure-mismatch:freevar-only-in-removed-directive',
                'to_graph() fails with "closure mismatch" when a free variable is referenced only by a directive '
                'call (set_loop_options) that conversion removes')
    m = re.search(r'(\w+Error|\w+Exception)', msg)
    return ('c09:convert-error:%s:%s:%s' % (runner.kind, type(exc).__name__, m.group(1) if m else 'other'),
            'to_graph() fails on a function of the modelled class: %s' % msg[:300])


def process_chunk(task):
    """Worker entry: task = dict(dir, name, scenarios=[(K, key, sc, [steps, ...])], repo). Returns a result dict."""
    out = dict(viol=[], machinery=[], behaviours=0, steps=0, conversions=0, scenarios=0)
    try:
        logging.disable(logging.WARNING)
        import tempfile
        tempfile.tempdir = task['tmp']
        import malt
        path = os.path.join(task['dir'], task['name'] + '.py')
        src = write_module(path, [(K, sc) for K, _key, sc, _b in task['scenarios']])
        mod = load_module(path, task['name'])
        seen = set()
        for K, key, sc, behs in task['scenarios']:
            runner = Runner(malt, mod, K, sc)
            out['scenarios'] += 1
            source = render_scenario(sc, K)
            conv_failed = None
            for steps in behs:
                # 1. validate the specification's model of Python on the unconverted function
                try:
                    runner.run(steps, 'twin')
                except Problem as p:
                    out['machinery'].append('FnEnv.tla disagrees with CPython on the unconverted function: %s %s %s\n'
                                            'scenario=%s\nsteps=%s\nsource:\n%s' % (
                                                p.clause, p.detail, p.info, json.dumps(sc), json.dumps(steps), source))
                    return out
                # 2. the real pair.  Once to_graph() has refused this function, behaviours that need the conversion
                #    are counted as further occurrences without converting again (a failed conversion is not cached
                #    by malt and costs ~30 ms each time).
                if conv_failed is not None and (sc['pre'] or any(st[0] == 'convert' for st in steps)):
                    out['behaviours'] += 1
                    out['viol'].append((conv_failed[0], conv_failed[1], None))
                    continue
                try:
                    out['steps'] += runner.run(steps, 'real')
                    out['behaviours'] += 1
                except ConvertFailed as cf:
                    sig, text = classify_convert_failure(runner, cf.exc)
                    conv_failed = (sig, text)
                    out['behaviours'] += 1
                    out['viol'].append((sig, text, dict(scenario=sc, steps=steps, source=source,
                                                        error=str(cf.exc)[:500]) if sig not in seen else None))
                    seen.add(sig)
                except Problem as p:
                    out['behaviours'] += 1
                    sig = 'c09:%s:%s:%s' % (p.clause, runner.kind, p.detail)
                    text = '%s (%s) on a %s: %s' % (p.clause, p.detail, runner.kind, json.dumps(p.info, default=str)[:300])
                    out['viol'].append((sig, text, dict(scenario=sc, steps=steps, source=source, info=p.info)
                                        if sig not in seen else None))
                    seen.add(sig)
        sys.modules.pop(task['name'], None)
    except Exception:
        out['machinery'].append('harness crash in worker: ' + traceback.format_exc())
    return out
