"""C10 instrumentation (the vf/sched.py of DESIGN.md section 4, specialised to the conversion cache).

* Probe        - event log (thread, event, key, subkey, env, factory, result) + yield points.
* LockProxy    - stands in for PyToPy._cache_lock (a real RLock inside).
* CacheProxy   - subclass of the repo's CodeObjectCache standing in for PyToPy._cache; has() is logged as
                 start / end around the real lock-free call, the bucket returned by cache[fn] is wrapped so
                 that loads and stores are logged.  A store and its log entry are atomic with respect to
                 the log (they happen under the log mutex), has() is not: its real read happens somewhere
                 between has_start and has_end.  Events of lock-protected steps are logged while the real
                 lock is held.  No wall-clock time anywhere.
* traced_transpiler - a fresh api.PyToPy subclass instance with the proxies installed; its
                 transform_function override logs req / inst / ret / err around the repo's method, its
                 transform_ast override logs transform_begin / _ok / _fail around the repo's method and is
                 the place where nested requests and injected faults happen.
* Controller   - deterministic replay: every proxy operation is a yield point; the controller releases one
                 worker for one specification action at a time.

The generated code, the cache, the lock protocol and the transformation are the repo's; only the lock
object and the cache object are replaced by logging stand-ins, on a fresh transpiler instance.
"""
import re
import threading

from . import common


class InjectedFault(Exception):
    """A transform_ast failure injected by the harness (action TransformFail of the specification)."""


class Diverged(Exception):
    """Replay: the implementation did not do what the schedule says."""


NOFAC = (0, 0, 0)


class Plan:
    """What transform_ast does for one request in free-running mode."""
    __slots__ = ('fail', 'nested', 'propagate', 'parse_fail')

    def __init__(self, fail=False, nested=None, propagate=False, parse_fail=False):
        self.parse_fail = parse_fail  # raise InjectedFault before transform_ast is entered
        self.fail = fail            # raise InjectedFault instead of transforming
        self.nested = nested        # (fn, options, Plan) requested from inside transform_ast
        self.propagate = propagate  # a failing nested request fails the outer transform as well


class Frame:
    __slots__ = ('fn', 'cid', 'eid', 'oid', 'has_calls', 'plan', 'pending', 'stored', 'phase')


class Probe:
    def __init__(self, registry):
        self.reg = registry
        self.events = []
        self.evlock = threading.Lock()
        self.tls = threading.local()
        self.ctl = None
        self.ntr = {}            # (cid, oid) -> successful transform_ast calls
        self.natt = {}           # (cid, oid) -> transform_ast invocations
        self.factories = []      # (factory object, name) - strong references, ids stay unique
        self.returned = set()    # (cid, eid, oid, fac, renv) of completed requests
        self.errors = []         # (tid, cid, eid, oid, exception) for requests that raised
        self.known_fns = set()
        self.live_codes = set()  # code ids that were defined in the log and not yet collected in it
        self.addr_reuses = 0     # new code objects seen at the address of a dead one
        self.idents = {}         # threading.get_ident() -> tid
        self.transpiler = None
        self.resolve_nested = None   # replay: (code, env, opt) -> (fn, options)

    # ---- per-thread state
    def register_thread(self, tid):
        self.tls.tid = tid
        self.tls.frames = []
        self.tls.next_plan = None
        self.tls.last = None
        self.tls.done = None
        self.tls.deferred = False
        self.idents[threading.get_ident()] = tid

    def tid(self):
        return getattr(self.tls, 'tid', 0)

    def frames(self):
        fs = getattr(self.tls, 'frames', None)
        if fs is None:
            fs = self.tls.frames = []
        return fs

    def top(self):
        fs = self.frames()
        return fs[-1] if fs else None

    # ---- log
    def ev(self, kind, key=0, sub=0, env=0, fac=NOFAC, res=0, th=None):
        e = dict(th=self.tid() if th is None else th, ev=kind, key=key, sub=sub, env=env, fac=list(fac), res=res)
        with self.evlock:
            self.events.append(e)

    # ---- yield points (no-ops when free-running)
    def sync(self, labels):
        c = self.ctl
        if c is None:
            return None
        return c.worker_sync(self.tid(), labels)

    def park(self):
        c = self.ctl
        if c is not None:
            c.worker_park(self.tid())

    # ---- naming
    def key_of(self, entity, subkey):
        code = getattr(entity, '__code__', None)
        return self.reg.code_id(code) if code is not None else 0, self.reg.opt_id(subkey)

    def fac_name(self, obj):
        for f, name in self.factories:
            if f is obj:
                return name
        return NOFAC

    def fac_of_module(self, module):
        for f, name in self.factories:
            if getattr(f, 'module', None) is module and module is not None:
                return name
        return NOFAC

    # ---- request bracket (called from the transform_function override)
    def begin(self, fn, options):
        fr = Frame()
        fr.fn = fn
        fr.cid = self.reg.code_id(fn.__code__)
        fr.eid = self.reg.env_id(fn)
        fr.oid = self.reg.opt_id(options)
        fr.has_calls = 0
        fr.plan = getattr(self.tls, 'next_plan', None)
        fr.pending = None
        fr.stored = False
        fr.phase = 'requested'
        self.tls.next_plan = None
        self.frames().append(fr)
        t = self.tid()
        with self.evlock:
            self._define(fn, fr.cid, fr.eid)
            self.events.append(dict(th=t, ev='req', key=fr.cid, sub=fr.oid, env=fr.eid, fac=list(NOFAC), res=0))
        self.park()
        return fr

    def _define(self, fn, cid, eid):
        """(log mutex held) The heap as the specification sees it: a function object [code, env] that is new to the
        log is defined - with the address of its code object and the current contents of its cells.  A code object
        whose address has been taken over is dead: if the log still has it alive, it is collected first."""
        with self.reg._lock:
            dead, self.reg.superseded[:] = list(self.reg.superseded), []
        for old in dead:
            self._collected(old, reuse=True)
        if (cid, eid) not in self.known_fns:
            self.known_fns.add((cid, eid))
            self.live_codes.add(cid)
            self.events.append(dict(th=0, ev='def', key=cid, sub=0, env=eid,
                                    fac=[self.reg.addr_id(fn.__code__), self.reg.val_id(fn), 0], res=0))

    def _collected(self, cid, reuse=False):
        if reuse:
            self.addr_reuses += 1
        if cid in self.live_codes:
            self.live_codes.discard(cid)
            self.events.append(dict(th=0, ev='collect', key=cid, sub=0, env=0, fac=list(NOFAC), res=0))
            return True
        return False

    def collected(self, cid):
        """The code object `cid` is dead (its weak reference says so)."""
        with self.evlock:
            return self._collected(cid)

    def rebind(self, fn, name, value):
        """Rebinds the captured variable `name` of fn (the cell stays, its contents change); write and log entry are
        atomic with respect to the log."""
        cell = dict(zip(fn.__code__.co_freevars, fn.__closure__))[name]
        eid = self.reg.env_id(fn)
        with self.evlock:
            if cell.cell_contents == value:
                return False
            cell.cell_contents = value
            self.events.append(dict(th=0, ev='rebind', key=0, sub=0, env=eid, fac=list(NOFAC), res=self.reg.val_id(fn)))
        return True

    def look(self, fn, oid, contents):
        """A result handed out for a request of fn was called and read `contents` through its closure."""
        cid = self.reg.code_id(fn.__code__, create=False)
        eid = self.reg.env_id(fn, create=False)
        if cid and eid:
            self.ev('look', key=cid, sub=oid, env=eid, res=self.reg.val_name(contents), th=0)

    def finish(self, fr, res):
        try:
            g, module = res[0], res[1]
        except Exception:  # noqa: BLE001 - result of another shape: nothing recognisable was returned
            g, module = res, None
        self.sync(('Instantiate',))
        fac = self.fac_of_module(module)
        renv = self.reg.env_of_result(g, fr.fn)
        self.ev('inst', key=fr.cid, sub=fr.oid, env=renv, fac=fac)
        self.park()
        self.sync(('Return',))
        self.ev('ret', key=fr.cid, sub=fr.oid)
        self.frames().pop()
        with self.evlock:
            self.returned.add((fr.cid, fr.eid, fr.oid, tuple(fac), renv))
        self.tls.last = dict(cid=fr.cid, eid=fr.eid, oid=fr.oid, fac=tuple(fac), renv=renv, g=g, module=module)
        done = getattr(self.tls, 'done', None)
        if done is not None:
            done.append(self.tls.last)
        self.tls.deferred = True

    def fail(self, fr, exc):
        self.sync(('Raise',))
        self.ev('err', key=fr.cid, sub=fr.oid)
        self.frames().pop()
        if not isinstance(exc, InjectedFault):
            with self.evlock:
                self.errors.append((self.tid(), fr.cid, fr.eid, fr.oid, exc))
        self.tls.last = None
        self.tls.deferred = True

    def park_deferred(self):
        """The park of Return / Raise is taken by the caller of transform(), after the frames of the request
        (which reference the function object) are gone: the specification may collect the code object now."""
        if getattr(self.tls, 'deferred', False):
            self.tls.deferred = False
            self.park()

    def mark_transform_ok(self, fr):
        k = (fr.cid, fr.oid)
        with self.evlock:
            n = self.ntr[k] = self.ntr.get(k, 0) + 1
            fr.pending = (fr.cid, fr.oid, n)
            fr.stored = False
            self.events.append(dict(th=self.tid(), ev='transform_ok', key=fr.cid, sub=fr.oid, env=0,
                                    fac=list(fr.pending), res=0))

    # ---- abstract state of the implementation (replay)
    def abs_cache(self):
        out = set()
        try:
            real = self.transpiler._cache._cache
            for k, bucket in list(real.items()):
                cid = self.reg.code_id(k, create=False)
                for sk, v in list(bucket.items()):
                    out.add((cid, self.reg.opt_id(sk, create=False), tuple(self.fac_name(v))))
        except Exception:  # noqa: BLE001 - a table of another shape is a state difference, not a harness crash
            out.add((-1, -1, NOFAC))
        return out

    def abs_lock(self):
        return self.transpiler._cache_lock.state(self.idents)


# -------------------------------------------------------------------------------------------------
_RL = re.compile(r'owner=(\d+) count=(\d+)')


class LockProxy:
    def __init__(self, probe):
        self._l = threading.RLock()
        self.p = probe

    def acquire(self, blocking=True, timeout=-1):
        p = self.p
        p.sync(('Acquire',))
        if p.ctl is not None:
            if not self._l.acquire(timeout=p.ctl.timeout):
                raise Diverged('the real lock is not free where the specification enables Acquire')
        else:
            self._l.acquire()
        p.ev('acquired')
        p.park()
        return True

    def release(self, labels=('Release', 'ReleaseFail')):
        p = self.p
        p.sync(labels)
        p.ev('released')
        self._l.release()
        p.park()

    def __enter__(self):
        self.acquire()
        return self

    def __exit__(self, et, ev, tb):
        if et is not None:
            # an exception that is not one of the logged transform failures: raised while reading / parsing
            # the source, before transform_ast was entered
            p = self.p
            fr = p.top()
            if fr is not None and fr.phase in ('requested', 'begun'):
                kind = ('ParseFail', 'parse_fail') if fr.phase == 'requested' else ('TransformFail', 'transform_fail')
                p.sync((kind[0],))
                fr.phase = 'failed'
                p.ev(kind[1], key=fr.cid, sub=fr.oid)
                p.park()
        self.release(('ReleaseFail',) if et is not None else ('Release',))
        return False

    def state(self, idents):
        """(owner tid, depth) read off the real RLock."""
        m = _RL.search(repr(self._l))
        if not m:
            raise common.MachineryError('cannot read the state of threading.RLock from %r' % (self._l,))
        owner, count = int(m.group(1)), int(m.group(2))
        if count == 0:
            return 0, 0
        return idents.get(owner, -1), count


def make_cache_proxy(probe):
    from malt.pyct import cache as cache_mod

    class SubProxy:
        """The bucket cache[fn]: loads and stores are logged; everything else is the real dict."""

        def __init__(self, real, cid):
            self._real = real
            self._cid = cid

        def __getitem__(self, subkey):
            p = probe
            fr = p.top()
            p.sync(('FastGet',) if fr is None or fr.has_calls <= 1 else ('LockGet',))
            v = self._real[subkey]
            p.ev('load', key=self._cid, sub=p.reg.opt_id(subkey), fac=p.fac_name(v))
            p.park()
            return v

        def __setitem__(self, subkey, v):
            p = probe
            fr = p.top()
            p.sync(('Store',))
            name = NOFAC
            if fr is not None and fr.pending is not None and not fr.stored:
                name = fr.pending
                fr.stored = True
            sub = p.reg.opt_id(subkey)
            with p.evlock:
                p.factories.append((v, name))
                self._real[subkey] = v
                p.events.append(dict(th=p.tid(), ev='store', key=self._cid, sub=sub, env=0, fac=list(name), res=0))
            p.park()

        def __contains__(self, subkey):
            return subkey in self._real

        def __len__(self):
            return len(self._real)

        def __getattr__(self, name):
            return getattr(self._real, name)

    class CacheProxy(cache_mod.CodeObjectCache):
        def has(self, entity, subkey):
            p = probe
            cid, sub = p.key_of(entity, subkey)
            fr = p.top()
            first = fr is None or fr.has_calls == 0
            if fr is not None:
                fr.has_calls += 1
            if first:
                p.sync(('HasBegin',))
                p.ev('has_start', key=cid, sub=sub)
                p.park()
                p.sync(('FastRead',))
                r = super().has(entity, subkey)
                p.park()
                p.sync(('HasEnd',))
                p.ev('has_end', key=cid, sub=sub, res=int(bool(r)))
                p.park()
            else:
                p.sync(('ReCheck',))
                p.ev('has_start', key=cid, sub=sub)
                r = super().has(entity, subkey)
                p.ev('has_end', key=cid, sub=sub, res=int(bool(r)))
                p.park()
            return r

        def __getitem__(self, entity):
            real = super().__getitem__(entity)
            code = getattr(entity, '__code__', None)
            return SubProxy(real, probe.reg.code_id(code) if code is not None else 0)

    return CacheProxy()


def traced_transpiler(probe):
    """A fresh api.PyToPy (subclass) instance with logging stand-ins for _cache_lock and _cache."""
    from malt.impl import api
    from malt.core import converter

    class Traced(api.PyToPy):
        def transform_function(self, fn, user_context):
            fr = probe.begin(fn, getattr(user_context, 'options', None))
            try:
                res = super().transform_function(fn, user_context)
            except BaseException as e:  # noqa: BLE001 - logged and re-raised
                probe.fail(fr, e)
                raise
            probe.finish(fr, res)
            return res

        def get_transformed_name(self, node):
            # called by GenericTranspiler.transform_function after the source has been read and parsed and
            # before transform_ast: the point where the transformation proper begins
            p = probe
            fr = p.top()
            k = (fr.cid, fr.oid)
            item = p.sync(('TransformBegin', 'ParseFail'))
            if (item is not None and item['a'] == 'ParseFail') or (
                    item is None and fr.plan is not None and fr.plan.parse_fail):
                fr.phase = 'failed'
                p.ev('parse_fail', key=fr.cid, sub=fr.oid)
                p.park()
                raise InjectedFault('injected failure before transform_ast')
            with p.evlock:
                p.natt[k] = p.natt.get(k, 0) + 1
            fr.phase = 'begun'
            p.ev('transform_begin', key=fr.cid, sub=fr.oid)
            p.park()
            return super().get_transformed_name(node)

        def transform_ast(self, node, ctx):
            p = probe
            fr = p.top()
            nested_done = False
            while True:
                item = p.sync(('Nested', 'TransformFail', 'TransformOk'))
                plan = fr.plan
                if item is not None:
                    act = item['a']
                elif plan is not None and plan.nested is not None and not nested_done:
                    act = 'Nested'
                elif plan is not None and plan.fail:
                    act = 'TransformFail'
                else:
                    act = 'TransformOk'
                if act == 'Nested':
                    nested_done = True
                    if item is not None:
                        nfn, nopts = p.resolve_nested(*item['x'])
                        nplan = None
                    else:
                        nfn, nopts, nplan = plan.nested
                    p.tls.next_plan = nplan
                    try:
                        self.transform(nfn, converter.ProgramContext(options=nopts))
                    except Exception:  # noqa: BLE001 - the nested request failed (injected, or no source)
                        if item is None and plan.propagate:
                            fr.phase = 'failed'
                            p.ev('transform_fail', key=fr.cid, sub=fr.oid)
                            raise InjectedFault('the nested request failed') from None
                    finally:
                        del nfn
                    p.park_deferred()
                    continue
                if act == 'TransformFail':
                    fr.phase = 'failed'
                    p.ev('transform_fail', key=fr.cid, sub=fr.oid)
                    p.park()
                    raise InjectedFault('injected transform failure')
                try:
                    out = super().transform_ast(node, ctx)
                except BaseException:
                    fr.phase = 'failed'
                    p.ev('transform_fail', key=fr.cid, sub=fr.oid)
                    p.park()
                    raise
                fr.phase = 'ok'
                p.mark_transform_ok(fr)
                p.park()
                return out

    t = Traced()
    t.get_extra_locals()
    t._cache_lock = LockProxy(probe)
    t._cache = make_cache_proxy(probe)
    probe.transpiler = t
    return t


# -------------------------------------------------------------------------------------------------
class Controller:
    """Releases one worker for one action at a time.

    Worker side: sync(labels) = "I am at a yield point and about to do one of `labels`" (blocks until the
    controller grants a schedule item), park() = "done, waiting".  Controller side: step(t, action, item).
    """

    def __init__(self, tids, timeout=20.0):
        self.cv = threading.Condition()
        self.timeout = timeout
        self.aborted = False
        self.w = {t: dict(state='new', labels=(), go=False, proceed=False, item=None) for t in tids}

    # ---- worker side
    def worker_sync(self, t, labels):
        with self.cv:
            w = self.w[t]
            w['state'] = 'at'
            w['labels'] = labels
            self.cv.notify_all()
            while not w['proceed'] and not self.aborted:
                self.cv.wait(0.5)
            if self.aborted:
                return None
            w['proceed'] = False
            w['state'] = 'run'
            return w['item']

    def worker_park(self, t):
        with self.cv:
            w = self.w[t]
            w['state'] = 'parked'
            self.cv.notify_all()
            while not w['go'] and not self.aborted:
                self.cv.wait(0.5)
            w['go'] = False
            if not self.aborted:
                w['state'] = 'run'

    def worker_finished(self, t):
        with self.cv:
            self.w[t]['state'] = 'finished'
            self.cv.notify_all()

    # ---- controller side
    def step(self, t, action, item):
        with self.cv:
            w = self.w[t]
            if w['state'] == 'parked':
                w['go'] = True
                self.cv.notify_all()
            if not self.cv.wait_for(lambda: w['state'] in ('at', 'finished'), self.timeout):
                raise Diverged('thread %d did not reach a yield point (state %s), expected %s' % (t, w['state'], action))
            if w['state'] == 'finished':
                raise Diverged('thread %d has finished, expected %s' % (t, action))
            if action not in w['labels']:
                raise Diverged('thread %d is about to do %s, the schedule says %s' % (t, '/'.join(w['labels']), action))
            w['item'] = item
            w['proceed'] = True
            self.cv.notify_all()
            if not self.cv.wait_for(lambda: w['state'] in ('parked', 'finished') or (w['state'] == 'at' and not w['proceed']),
                                    self.timeout):
                raise Diverged('thread %d: action %s did not complete' % (t, action))
            if w['state'] == 'at':
                raise Diverged('thread %d: after %s the implementation goes on to %s without finishing the step' % (
                    t, action, '/'.join(w['labels'])))

    def abort(self):
        with self.cv:
            self.aborted = True
            self.cv.notify_all()
