"""C09 - converted functions keep the original calling interface and environment.

Decided by spec/FnEnv.tla.  TLC
  * checks the laws on the model (Agree, AgreeCalls, NoCrossTalk, SideEffectsOnce) and
  * prints every complete behaviour of the pair (f, g = Convert(f)) - exhaustively (BFS) for two bounded
    universes ("bind": every signature shape x every call binding; "env": small signatures x closure shapes x
    entity kinds x all action sequences of depth 2) and randomly (TLC -generate, seeded by VERIF_SEED) for the full
    universe at depth 5 - with the expected observation of each step, the expected heap after it and the
    expected result of an effect-free probe call.
This harness renders each scenario to a real module (vf/c09_lib.py), builds g = malt.to_graph(f), the
malt.convert() wrapper and a converted caller that reaches f by recursive conversion (side "r"), replays every
behaviour and compares after every step.  The same behaviour is first
replayed with every side mapped to the unconverted function: a disagreement there means FnEnv.tla mis-models
CPython -> MachineryError (exit 2), never a VIOLATION.
"""
import json
import multiprocessing
import os

from .. import common, tlc
from .. import c09_lib

ALL_KINDS = '"def", "lambda", "method", "nested", "loopdef", "decorated"'

CFG = """SPECIFICATION Spec
CONSTANTS
 MaxPO = %(po)d
 MaxP = %(p)d
 MaxKO = %(ko)d
 VarParams = %(varp)s
 MaxFree = %(fr)d
 Kinds = {%(kinds)s}
 Depth = %(depth)d
 PreSet = {%(pre)s}
 WrapSet = {%(wrap)s}
 DKSet = {%(dks)s}
 Mode = "%(mode)s"
 MaxKw = %(maxkw)d
 Variant = "%(variant)s"
INVARIANT Agree
INVARIANT AgreeCalls
INVARIANT NoCrossTalk
INVARIANT SideEffectsOnce
INVARIANT ReportSc
INVARIANT Report
CHECK_DEADLOCK FALSE
"""


DK_ALL = '"list", "obj", "mixed"'


def job(name, po, p, ko, varp, fr, kinds, depth, pre, mode, maxkw, gen=0, variant='ok', dks=None, wrap='TRUE, FALSE'):
    if dks is None:
        dks = {'bind': '"list"', 'bindc': '"list"', 'env': '"list", "obj"'}.get(mode, DK_ALL)
    return dict(dks=dks, name=name, po=po, p=p, ko=ko, varp='TRUE' if varp else 'FALSE', fr=fr, kinds=kinds, depth=depth,
                pre=pre, mode=mode, maxkw=maxkw, gen=gen, variant=variant, wrap=wrap)


NOT_LOOP = '"def", "lambda", "method", "nested", "decorated"'
TIERS = {
    'quick': dict(
        procs=8, tlc_workers=6, tlc_parallel=2,
        jobs=[
            # closure shapes (<= 1 free variable) x entity kinds x every action sequence of length 2
            # (decorated functions: the decorator returns a wrapper; both decorator forms in sim and in thorough)
            job('env', 0, 1, 0, False, 1, NOT_LOOP, 2, 'TRUE, FALSE', 'env', 2, wrap='TRUE'),
            # two functions made from one code object: conversions of both, then every action / every action pair
            job('env-loopdef', 0, 1, 0, False, 1, '"loopdef"', 2, 'FALSE', 'env', 2),
            job('env-loopdef-pre', 0, 1, 1, False, 1, '"loopdef"', 1, 'TRUE', 'env', 2),
            # every signature shape (<= 1 positional-only, 2 positional, 1 keyword-only, *args, **kw) x every binding
            job('bind', 1, 2, 1, True, 0, '"def"', 1, 'TRUE', 'bind', 2),
            # bound methods / lambdas, also through the convert() wrapper: smaller signature universe
            job('bind-method-lambda', 1, 1, 1, True, 0, '"method", "lambda"', 1, 'TRUE', 'bindc', 2),
            # random deeper behaviours over the full universe (x tlc_workers traces)
            job('sim', 2, 2, 2, True, 3, ALL_KINDS, 5, 'TRUE, FALSE', 'sim', 3, gen=100),
        ]),
    'thorough': dict(
        procs=12, tlc_workers=6, tlc_parallel=2,
        jobs=[
            job('env', 0, 1, 1, False, 1, NOT_LOOP, 2, 'TRUE, FALSE', 'env', 2),
            job('env-loopdef', 0, 1, 1, False, 1, '"loopdef"', 2, 'TRUE, FALSE', 'env', 2),
            job('env-free2', 0, 1, 0, False, 2, ALL_KINDS, 1, 'TRUE', 'env', 2),
            job('env-depth3', 0, 1, 0, False, 1, '"nested", "lambda", "method"', 3, 'TRUE', 'env', 2, dks='"list"'),
            job('bind', 2, 2, 1, True, 0, '"def"', 1, 'TRUE', 'bindc', 2),
            job('bind-ko2', 1, 1, 2, True, 0, '"def", "nested"', 1, 'TRUE', 'bind', 3),
            job('bind-method-lambda', 1, 2, 1, True, 0, '"method", "lambda", "decorated"', 1, 'TRUE', 'bindr', 2, wrap='TRUE'),
            job('sim', 2, 2, 2, True, 3, ALL_KINDS, 5, 'TRUE, FALSE', 'sim', 3, gen=1700),
        ]),
}


def run_job(j, workers, seed, out_path):
    """Runs TLC; everything the spec prints goes to out_path (TLC -userFile), one TLA+ string per line."""
    cfg = CFG % j
    extra = ['-userFile', out_path]
    if j['gen']:
        extra += ['-generate', 'num=%d' % j['gen'], '-depth', str(j['depth'] + 6)]
    res = tlc.run_tlc('FnEnv', cfg, workers=workers, timeout=1500, seed=seed if j['gen'] else None, extra=extra,
                      name='FnEnv_' + j['name'])
    res.require_ok('FnEnv/' + j['name'])
    return res


def group(out_path):
    """-> {key: (sc, [steps...])} ; scenarios and behaviours are sorted so that the run is deterministic."""
    scs, behs = {}, {}
    with open(out_path) as f:
        for line in f:
            if not line.startswith('"{'):
                continue
            inner = json.loads(line)
            cut = inner.find(',"h":[')           # {"k":<key>,"h":<steps>}  |  {"k":<key>,"sc":<scenario>}
            if cut > 0:
                behs.setdefault(inner[5:cut], []).append(inner[cut + 5:-1])
            else:
                cut = inner.index(',"sc":{')
                scs[inner[5:cut]] = json.loads(inner[cut + 6:-1])
    out = {}
    for k in sorted(behs):
        if k not in scs:
            raise common.MachineryError('behaviour without scenario record: %s' % k)
        out[k] = (scs[k], [json.loads(h) for h in sorted(set(behs[k]))])
    return out


def make_tasks(groups, job_name, scratch, tmp, per_module=40):
    tasks = []
    items = list(groups.items())
    K = 0
    n = 0
    for chunk in common.chunks(items, per_module):
        scen = []
        for k, (sc, behs) in chunk:
            K += 1
            scen.append((K, k, sc, behs))
        n += 1
        tasks.append(dict(dir=scratch, tmp=tmp, name='c09gen_%s_%d' % (job_name.replace('-', '_'), n), scenarios=scen))
    return tasks


def sample_of(sc, steps):
    return dict(kind=sc['kind'], params=[(p['name'], p['kind'], bool(p['dflt'])) for p in sc['params']],
                free=[(v['role'], v['asg'], v['sh']) for v in sc['free']],
                steps=[(s[0], s[1], s[3], s[4], s[9][0]) for s in steps])


def run(rep):
    import concurrent.futures
    import sys
    tier = TIERS[rep.tier]
    seed = common.seed()
    scratch = common.scratch('c09_%d' % os.getpid())
    tmp = os.path.join(scratch, 'tmp')
    os.makedirs(tmp)
    sys.path.insert(0, scratch)
    machinery = []
    acts = {}
    # the replay processes are forked before any TLC thread exists
    pool = multiprocessing.get_context('fork').Pool(tier['procs'])
    ex = concurrent.futures.ThreadPoolExecutor(max_workers=tier['tlc_parallel'])
    try:
        futs = []
        for j in tier['jobs']:
            out_path = os.path.join(scratch, 'tlc_%s.out' % j['name'])
            futs.append((j, out_path, ex.submit(run_job, j, tier['tlc_workers'], seed, out_path)))
        for j, out_path, fut in futs:
            res = fut.result()
            rep.add_tlc(res)
            groups = group(out_path)
            os.remove(out_path)
            nb = sum(len(b) for _sc, b in groups.values())
            rep.add('scenarios', len(groups))
            rep.add('behaviours_' + j['name'], nb)
            for _k, (sc, behs) in list(groups.items())[:1]:
                rep.sample(sample_of(sc, behs[len(behs) // 2]), limit=8)
            for _sc, behs in groups.values():
                for h in behs:
                    for st in h:
                        a = '%s-%s' % (st[0], st[1])
                        acts[a] = acts.get(a, 0) + 1
            tasks = make_tasks(groups, j['name'], scratch, tmp)
            del groups
            for out in pool.imap(c09_lib.process_chunk, tasks, chunksize=1):
                machinery += out['machinery']
                rep.validated(out['behaviours'])
                rep.add('steps_replayed', out['steps'])
                for sig, text, witness in out['viol']:
                    rep.violation(sig, text, witness if witness is not None else dict(note='see first witness'))
            if machinery:
                break
    finally:
        for _j, _p, fut in futs:
            fut.cancel()
        ex.shutdown(wait=True)
        pool.terminate()
        pool.join()
        if scratch in sys.path:
            sys.path.remove(scratch)
        common.rmtree(scratch)
    if machinery:
        raise common.MachineryError(machinery[0][:6000])
    rep.set('actions_replayed', acts)
    if rep.cov['traces_validated_against_impl'] == 0:
        raise common.MachineryError('no behaviour was replayed')
    rep.assume('the generated scenario body (loop over the defaulted parameters, optional nonlocal write, reads of '
               'the free variables and of one global) stands for "a body that uses its environment"; its effect is '
               'modelled by OutcomeIn in FnEnv.tla and validated against CPython on the unconverted function in '
               'every run')
    rep.assume('side "r": the caller through which f is reached by recursive conversion is a plain forwarding function '
               '(*a, **k) -> f(*a, **k) converted with to_graph (for a wrapping decorator: the decorator\'s own wrapper)')
    rep.assume('a free variable through which only a removed directive is reached is always an assigned cell '
               'holding a module and is never rebound (directives must be static, malt/converters/directives.py)')


ACTIONS = ('PickSig', 'PickEnv', 'PreConvert', 'ConvertAct', 'CallAct', 'RebindAct', 'ReadBackAct', 'MutateAct', 'GlobalAct')


def selftest():
    """(a) design-level sensitivity: a wrong Instantiate (cells matched by position) must violate Agree in TLC;
    (b) vacuity: every action of FnEnv.tla is taken (TLC -coverage)."""
    scratch = common.scratch('c09_selftest_%d' % os.getpid())
    try:
        j = job('variant', 0, 1, 0, False, 2, '"nested"', 1, 'TRUE', 'env', 2, variant='bypos')
        cfg = (CFG % j).replace('INVARIANT ReportSc\n', '').replace('INVARIANT Report\n', '')
        res = tlc.run_tlc('FnEnv', cfg, workers=4, timeout=600, name='FnEnv_variant')
        print('Variant "bypos": TLC reports violated invariants %s' % res.violated)
        bad = 'Agree' not in res.violated
        j = job('variant2', 0, 1, 0, False, 0, '"decorated", "nested"', 1, 'TRUE, FALSE', 'env', 2, variant='calleedeco')
        cfg = (CFG % j).replace('INVARIANT ReportSc\n', '').replace('INVARIANT Report\n', '')
        res = tlc.run_tlc('FnEnv', cfg, workers=4, timeout=600, name='FnEnv_variant2')
        print('Variant "calleedeco": TLC reports violated invariants %s' % res.violated)
        bad = bad or 'SideEffectsOnce' not in res.violated
        j = job('cov', 0, 1, 1, False, 1, '"nested", "decorated"', 2, 'TRUE, FALSE', 'env', 2)
        cfg = (CFG % j).replace('INVARIANT ReportSc\n', '').replace('INVARIANT Report\n', '')
        res = tlc.run_tlc('FnEnv', cfg, workers=4, timeout=1500, name='FnEnv_cov', coverage=True).require_ok('coverage')
        for a in ACTIONS:
            n = res.coverage.get(a, (0, 0))
            print('action %-14s taken %d times' % (a, n[0]))
            bad = bad or n[0] == 0
        return 2 if bad else 0
    finally:
        common.rmtree(scratch)


def replay(path):
    """Re-runs the witness of a violation file (scenario + steps) and prints what happens."""
    w = json.load(open(path))
    wit = w.get('witness') or {}
    print('signature:', w.get('signature'))
    print('what:', w.get('what'))
    if 'scenario' not in wit:
        print(json.dumps(wit, indent=1))
        return 1
    scratch = common.scratch('c09_replay_%d' % os.getpid())
    try:
        tmp = os.path.join(scratch, 'tmp')
        os.makedirs(tmp)
        print(wit['source'])
        print('steps:')
        for s in wit['steps']:
            print('  ', json.dumps(s))
        out = c09_lib.process_chunk(dict(dir=scratch, tmp=tmp, name='c09gen_replay',
                                         scenarios=[(1, 'replay', wit['scenario'], [wit['steps']])]))
        for m in out['machinery']:
            print('MACHINERY:', m)
        for sig, text, _w in out['viol']:
            print('REPRODUCED %s: %s' % (sig, text))
        if out['machinery']:
            return 2
        return 1 if out['viol'] else 0
    finally:
        common.rmtree(scratch)
