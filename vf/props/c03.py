"""C03 - emitted operator calls obey the operator calling contract.

Every dynamic invocation of if_stmt / while_stmt / for_stmt during the replay of the C01 executions is
intercepted (vf/ops.py), the contract probes are performed on the live calling frame, and the recorded probe
traces are validated by TLC against spec/OpContract.tla (total verdict naming the violated law).
"""
import os
import json

from .. import common, mpmon, mprun, tlc, minipy as mp
from .. import replay as rp

CFG = """SPECIFICATION Spec
INVARIANT Report
CHECK_DEADLOCK FALSE
"""


def _leftmost_k(p, e):
    x = p['exprs'][e - 1]
    if x['kind'] in ('T', 'D', 'I'):
        return x['k']
    for a in x['args']:
        k = _leftmost_k(p, a)
        if k:
            return k
    return 0


def expected_directive(p, op, key):
    """The directive options the program places in the loop identified by the first tracer of its test / iterable."""
    for d in p['nodes']:
        if d['kind'] == ('while' if op == 'while_stmt' else 'for') and d['e'] and _leftmost_k(p, d['e']) == key:
            if d['body'] and p['nodes'][d['body'][0] - 1]['kind'] == 'directive':
                return {'maximum_iterations': p['nodes'][d['body'][0] - 1]['k']}
            return {}
    return None


def run(rep):
    tier = rep.tier
    progs, tlcs = mpmon.program_set(tier, common.seed(), loop_else=False)
    for r in tlcs:
        rep.add_tlc(r)
    res, wd2 = mprun.explore(progs, module='MiniPy', spec='Spec', invariants=('Emit',), bounds=mpmon.bounds(tier),
                             name='c03', timeout=3000)
    rep.add_tlc(res)
    recs = res.json
    mprun.validate_model(progs, recs)
    opts = [dict(rp.OPTION_SETS[0], ops='probe'), dict(rp.LISTS_OPTION, ops='probe')]
    div, nrun, errs = rp.replay_all(progs, recs, opts, name='c03')
    calls = rp.replay_all.opcalls
    if not calls:
        raise common.MachineryError('no operator invocation was recorded')
    # probing must not disturb the converted function: a divergence that C01 (without probes) does not see
    # would be a defect of the instrumentation; C01's own known divergences also show up here and are C01's business.
    rep.set('programs', len(progs))
    rep.set('executions', len(recs))
    rep.set('converted_runs', nrun)
    rep.set('operator_invocations', sum(c['count'] for c in calls))
    rep.set('distinct_probe_traces', len(calls))
    byop = {}
    for c in calls:
        byop[c['op']] = byop.get(c['op'], 0) + c['count']
    rep.set('invocations_by_operator', byop)
    # directive clause: the options of a loop carry exactly the directives the user placed in that loop
    nopts = 0
    for c in calls:
        if c['op'] in ('while_stmt', 'for_stmt') and c.get('key', 0) > 0:
            exp = expected_directive(progs[c['pid'] - 1], c['op'], c['key'])
            if exp is not None:
                nopts += 1
                got = {k: v for k, v in c['opts'].items() if k != 'iterate_names'}
                c['opts_ok'] = 1 if got == exp else 0
                c['opts_expected'] = exp
    rep.set('loop_option_sets_compared', nopts)
    wd = common.scratch('c03_%d' % os.getpid())
    tf = os.path.join(wd, 'calls.json')
    slim = [{k: c[k] for k in ('op', 'n', 'nouts', 'ngetter', 'events', 'ngetter_params', 'nsetter_params', 'nbody',
                               'ntest', 'norelse', 'has_iterate_names', 'opts_ok', 'na', 'nb')} for c in calls]
    with open(tf, 'w') as f:
        json.dump(slim, f)
    tres = tlc.run_tlc('OpContract', CFG, env=dict(TRACE_FILE=tf), workers=16, timeout=1500, name='c03tr').require_ok('OpContract')
    rep.add_tlc(tres)
    verdicts = {v['cid']: v['bad'] for v in tres.json if isinstance(v, dict) and 'cid' in v}
    if len(verdicts) != len(calls):
        raise common.MachineryError('trace validation returned %d verdicts for %d traces' % (len(verdicts), len(calls)))
    rep.validated(len(calls))
    for i, c in enumerate(calls):
        bad = verdicts[i + 1]
        if bad:
            p = progs[c['pid'] - 1]
            rep.violation('c03:%s:%s' % (c['op'], bad), '%s invocation violates the contract law "%s"' % (c['op'], bad),
                          dict(source=mp.render(p)[0], decisions=c['dec'], call={k: c[k] for k in c if k != 'events'},
                               events=c['events']))
    for c in calls[:3]:
        rep.sample(dict(op=c['op'], names=c['n'], nouts=c['nouts'], events=c['events']))
    rep.assume('probes run on the live frame before the real operator and restore the state they found')
    common.rmtree(wd)
    common.rmtree(wd2)


def replay(path):
    w = json.load(open(path))
    print(w['witness']['source'])
    print(w['what'])
    print(json.dumps(w['witness']['call']))
    for e in w['witness']['events']:
        print('  ', e)
    return 0
