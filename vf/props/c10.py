"""C10 - the conversion cache is coherent, converts once, and is thread-safe.

Deciding artefact: spec/ConvCache.tla (threads, RLock with owner/depth, weak-key table
code -> (options -> factory), the double-checked-locking protocol of PyToPy.transform_function one action per
shared-memory step, environment actions Redefine / Collect / Rebind over a small heap: environments are
identities whose closure cells hold values that can be equal and can be rebound, code objects are identities
that live at addresses which the allocator hands on).  Three parts, all decided by TLC:

1. design level  - TLC checks AtMostOnce, Coherent, Follows, NoAlias, NoStale, CacheCoherent, LockDiscipline,
                   FastGetSafe, AddrOK (invariants) and Returns (liveness under weak fairness) on the model;
2. code -> spec  - free-running multi-threaded runs of the real cache (vf/c10_stress.py) recorded as event
                   traces; spec/TraceConvCache.tla accepts a trace iff it is a behaviour of ConvCache
                   ("strict") and evaluates the property invariants on the observed history ("obs");
                   every returned function is also compared with a cache-less fresh conversion;
3. spec -> code  - TLC-generated interleavings (spec/SchedConvCache.tla, -simulate) replayed deterministically
                   into the real cache (vf/c10_replay.py), abstract state compared after every action.
"""
import os
import json
import copy
import queue
import threading
import multiprocessing

from .. import common, tlc
from .. import c10_stress, c10_replay

INVARIANTS = ['TypeOK', 'AtMostOnce', 'Coherent', 'Follows', 'NoAlias', 'NoStale', 'CacheCoherent', 'LockDiscipline', 'FastGetSafe',
              'AddrOK']
INIT_FNS = {'Fns3': [[1, 1], [1, 2], [2, 3]], 'Fns4': [[1, 1], [1, 2], [2, 3], [2, 1]], 'Fns2': [[1, 1], [1, 2]]}


def _set(n):
    return '{' + ', '.join(str(i) for i in range(1, n + 1)) + '}'


def model_cfg(spec='Spec', threads=3, symmetry=False, codes=3, envs=3, opts=2, fns='Fns3', req=1, depth=2, nest=1,
              fail=1, redef=1, coll=1, vals=2, rebind=0, reuse=0, mutant='none', invariants=INVARIANTS, properties=(),
              extra=''):
    th = '{' + ', '.join('t%d' % i for i in range(1, threads + 1)) + '}' if symmetry else _set(threads)
    lines = ['SPECIFICATION %s' % spec, 'CONSTANTS',
             ' Threads = %s' % th, ' Codes = %s' % _set(codes), ' Envs = %s' % _set(envs), ' Opts = %s' % _set(opts),
             ' InitFns <- %s' % fns, ' MaxReq = %d' % req, ' MaxDepth = %d' % depth, ' MaxNest = %d' % nest,
             ' MaxFail = %d' % fail, ' MaxRedefine = %d' % redef, ' MaxCollect = %d' % coll, ' Vals = %s' % _set(vals),
             ' MaxRebind = %d' % rebind, ' MaxReuse = %d' % reuse, ' Mutant = "%s"' % mutant]
    if symmetry:
        lines.append('SYMMETRY Perms')
    lines += ['INVARIANT %s' % i for i in invariants]
    lines += ['PROPERTY %s' % p for p in properties]
    if extra:
        lines.append(extra)
    lines.append('CHECK_DEADLOCK FALSE')
    return '\n'.join(lines) + '\n'


# ---- tiers ------------------------------------------------------------------------------------------
def tier_plan(tier):
    if tier == 'quick':
        return dict(
            models=[
                # 3 threads, 3 function objects over 2 code objects, 2 option values: re-entrancy + failures
                dict(name='mc3-nest-fail', workers=5, cfg=dict(spec='RSpec', threads=3, symmetry=True, redef=0, coll=0)),
                # ... environment (redefine + collect)
                dict(name='mc3-env', workers=5, cfg=dict(spec='RSpec', threads=3, symmetry=True, nest=0, fail=0)),
                # the full next-state relation (no reduction, no symmetry) with liveness, 2 threads
                dict(name='mc2-live', workers=3, cfg=dict(spec='FairSpec', threads=2, redef=0, coll=1, nest=1, fail=1,
                                                         fns='Fns2', codes=2, properties=('Returns',))),
                # the heap: captured variables rebound (cells of distinct environments hold equal values initially), a
                # redefinition's code object at the address of a collected one
                dict(name='mc2-heap', workers=3, cfg=dict(spec='RSpec', threads=2, symmetry=True, nest=0, fail=0,
                                                         rebind=1, reuse=1)),
            ],
            stress_procs=8, batch_events=30000,
            replay=dict(num=120, configs=[dict(threads=2, req=2), dict(threads=3, req=2), dict(threads=4, req=1),
                                          dict(threads=1, req=4)]),     # the last one: sequential histories
            trace_workers=10)
    return dict(
        models=[
            # the configuration of DESIGN.md section 5: 3 threads, 3 function objects over 2 code objects, 2 option
            # values, <= 1 redefine, <= 1 collect, re-entrancy depth 2, <= 1 failing transform
            dict(name='mc3-full', workers=5, cfg=dict(spec='RSpec', threads=3, symmetry=True)),
            # the full next-state relation (no reduction, no symmetry), everything on, 2 threads
            dict(name='mc2-full-unreduced', workers=3, cfg=dict(spec='Spec', threads=2)),
            # the full next-state relation, 3 threads
            dict(name='mc3-unreduced', workers=3, cfg=dict(spec='Spec', threads=3, symmetry=True, nest=0, redef=0, coll=1)),
            # 4 threads
            dict(name='mc4', workers=3, cfg=dict(spec='RSpec', threads=4, symmetry=True, nest=0, fail=1, redef=0, coll=1)),
            # liveness (no symmetry): every request returns
            dict(name='mc2-live', workers=2, cfg=dict(spec='FairSpec', threads=2, redef=0, coll=1, nest=1, fail=1,
                                                     properties=('Returns',))),
            # the heap (rebinding of captured variables, address reuse): 3 threads reduced, 2 threads unreduced
            dict(name='mc3-heap', workers=4, cfg=dict(spec='RSpec', threads=3, symmetry=True, nest=0, fail=0, rebind=1, reuse=1)),
            dict(name='mc2-heap-unreduced', workers=3, cfg=dict(spec='Spec', threads=2, nest=0, fail=0, rebind=1, reuse=1)),
            # random behaviours of a much bigger instance (6 threads, 2 requests each, 4 function objects, 3 option
            # values, depth 3, 2 redefinitions, 2 collections), invariants checked in every state
            dict(name='sim6', workers=3, simulate=dict(num=5000, depth=500),
                 cfg=dict(spec='Spec', threads=6, codes=5, envs=3, opts=3, fns='Fns4', req=2, depth=3, nest=2, fail=2,
                          redef=2, coll=2, rebind=2, reuse=2)),
        ],
        stress_procs=9, batch_events=150000,
        replay=dict(num=3600, configs=[dict(threads=2, req=2), dict(threads=3, req=2), dict(threads=4, req=2),
                                       dict(threads=6, req=1, fns='Fns4'), dict(threads=1, req=4)]),
        trace_workers=4)


# ---- design level -------------------------------------------------------------------------------------
def run_models(rep, models, out):
    def one(m):
        res = tlc.run_tlc('ConvCache', model_cfg(**m['cfg']), workers=m['workers'], timeout=m.get('timeout', 1500),
                          name='c10_' + m['name'], simulate=m.get('simulate'),
                          seed=(common.seed() * 7 + 1) if m.get('simulate') else None)
        out.append((m, res))
    ths = [threading.Thread(target=one, args=(m,)) for m in models]
    for th in ths:
        th.start()
    for th in ths:
        th.join()
    if len(out) != len(models):
        raise common.MachineryError('a ConvCache model-checking run crashed')


def judge_models(rep, results):
    for m, res in results:
        if res.violated:
            for inv in sorted(set(res.violated)):
                rep.violation('c10:design:%s:%s' % (m['name'], inv),
                              'the specification itself violates %s in configuration %s' % (inv, m['name']),
                              dict(config=m, trace=tlc.parse_trace_states(res.stdout)[:80]))
            rep.add_tlc(res)
            continue
        res.require_ok('ConvCache ' + m['name'])
        rep.add_tlc(res)
        rep.cov.setdefault('design_level', []).append(dict(config=m['name'], generated=res.generated, distinct=res.distinct,
                                                           wall_s=res.wall_s, constants=m['cfg']))


# ---- code -> spec ----------------------------------------------------------------------------------------
def trace_cfg(traces, modes):
    mx = lambda f: max([1] + [e[f] for t in traces for e in t['ev']])  # noqa: E731
    vals = max([1] + [e['fac'][1] for t in traces for e in t['ev'] if e['ev'] == 'def'] +
               [e['res'] for t in traces for e in t['ev'] if e['ev'] in ('rebind', 'look')])
    return '\n'.join([
        'SPECIFICATION TSpec', 'CONSTANTS',
        ' Threads = %s' % _set(mx('th')), ' Codes = %s' % _set(mx('key')), ' Envs = %s' % _set(mx('env')),
        ' Opts = %s' % _set(mx('sub')), ' InitFns <- Fns3',
        ' MaxReq = 1000000', ' MaxDepth = 3', ' MaxNest = 1000000', ' MaxFail = 1000000', ' MaxRedefine = 0',
        ' MaxCollect = 1000000', ' Vals = %s' % _set(vals), ' MaxRebind = 1000000', ' MaxReuse = 1000000', ' Mutant = "none"',
        ' Modes = {%s}' % ', '.join('"%s"' % m for m in modes),
        'INVARIANT Report', 'CHECK_DEADLOCK FALSE']) + '\n'


def corrupt(trace):
    """Corrupted copies of a recorded trace (binding demonstration): a flipped has() result, a lost release, a result
    that read another value through its closure than the requesting function's cells hold."""
    out = []
    ev = trace['ev']
    i = next((k for k, e in enumerate(ev) if e['ev'] == 'has_end' and e['res'] == 0), None)
    if i is not None:
        c = copy.deepcopy(trace)
        c['ev'][i]['res'] = 1
        c['id'] = -1
        out.append(c)
    j = next((k for k, e in enumerate(ev) if e['ev'] == 'released'), None)
    if j is not None:
        c = copy.deepcopy(trace)
        del c['ev'][j]
        c['id'] = -2
        out.append(c)
    m = next((k for k, e in enumerate(ev) if e['ev'] == 'look'), None)
    if m is not None:       # a result that read something else than the cells of the requesting function hold
        c = copy.deepcopy(trace)
        c['ev'][m]['res'] += 1
        c['id'] = -3
        out.append(c)
    return out


def validate_traces(traces, scratch, workers, name, modes=('strict', 'obs'), diag=False, timeout=1200):
    """TLC on a batch of traces.  Returns (ends: {(id, mode): record}, ats: [records], tlc result)."""
    path = os.path.join(scratch, name + '.json')
    with open(path, 'w') as f:
        json.dump(traces, f, separators=(',', ':'))
    res = tlc.run_tlc('TraceConvCache', trace_cfg(traces, modes), env=dict(C10_TRACES=path, C10_DIAG='1' if diag else '0'),
                      workers=workers, timeout=timeout, name='c10_' + name, jvm_mem='12g')
    res.require_ok('TraceConvCache ' + name)
    os.unlink(path)
    ends = {}
    ats = []
    for j in res.json:
        if not isinstance(j, dict):
            continue
        if j.get('k') == 'end':
            ends[(j['id'], j['mode'])] = j
        elif j.get('k') == 'at':
            ats.append(j)
    return ends, ats, res


def chunk_traces(traces, max_events):
    cur, n = [], 0
    for t in traces:
        if cur and n + len(t['ev']) > max_events:
            yield cur
            cur, n = [], 0
        cur.append(t)
        n += len(t['ev'])
    if cur:
        yield cur


OBS_FIELDS = (('amo', 'AtMostOnce', 'the source transformation of one (code object, options) pair ran more than once'),
              ('coh', 'Coherent', 'a request was answered with a function that is not Bind(factory of (code(fn), options), env(fn))'),
              ('alias', 'NoAlias', 'two requests with different options or environments share a result'),
              ('stale', 'NoStale', 'a function was served a factory made from another code object'),
              ('follow', 'Follows', 'a result is bound to closure cells that do not hold what the cells of the requesting '
                                    'function hold (it follows the captured variables of another function)'))


def judge_traces(rep, traces, by_id, scratch, workers, name):
    """Runs TLC over `traces` (plus corrupted copies), reports rejected traces / violated invariants."""
    controls = corrupt(traces[0]) if traces else []
    ends, _, res = validate_traces(traces + controls, scratch, workers, name, modes=('strict',))
    rep.add_tlc(res)
    for c in controls:
        if (c['id'], 'strict') in ends:
            raise common.MachineryError('TraceConvCache accepted a corrupted trace (control %d): trace validation is vacuous' % c['id'])
    rep.add('corrupted_control_traces_rejected', len(controls))
    rejected = []

    def report_invariants(rec, t):
        for fld, inv, what in OBS_FIELDS:
            if rec[fld]:
                rep.violation('c10:trace:%s' % inv, what + ' (recorded trace, decided by TLC on the observed history)',
                              dict(job=by_id[t['id']]['job'], offending=rec[fld][:5], mode=rec['mode'],
                                   trace_file=_save_trace(rep, t)))
        if not rec['lockok']:
            rep.violation('c10:trace:LockDiscipline', 'lock discipline violated at the end of an accepted trace',
                          dict(job=by_id[t['id']]['job'], trace_file=_save_trace(rep, t)))

    for t in traces:
        strict = ends.get((t['id'], 'strict'))
        if strict is None:
            rejected.append(t)
        else:
            report_invariants(strict, t)
            rep.validated()
    if rejected:
        # second pass: where does each rejected trace leave the specification, and which property invariant does
        # the observed history (requests, successful transforms, results) violate?
        ends2, ats, res2 = validate_traces(rejected, scratch, workers, name + '_diag', modes=('strict', 'obs'), diag=True)
        rep.add_tlc(res2)
        for t in rejected:
            obs = ends2.get((t['id'], 'obs'))
            if obs is None:
                raise common.MachineryError('trace %s is malformed: the observational replay did not reach its end' % t['id'])
            report_invariants(obs, t)
            mine = [a for a in ats if a['id'] == t['id'] and a['mode'] == 'strict']
            far = max(a['l'] for a in mine)
            stuck = sorted({(a['ev'], a['pc']) for a in mine if a['l'] == far})
            ev = stuck[0][0]
            pcs = '+'.join(sorted({p for _, p in stuck}))
            lo = max(0, far - 13)
            rep.violation('c10:trace-rejected:%s@%s' % (ev, pcs),
                          'a recorded run of the real cache is not a behaviour of ConvCache: event %r of thread %s is not '
                          'enabled where the specification is (%s)' % (ev, t['ev'][far - 1]['th'], pcs),
                          dict(job=by_id[t['id']]['job'], stuck_at=far, window=t['ev'][lo:far + 3],
                               trace_file=_save_trace(rep, t)))
    return len(rejected)


def _save_trace(rep, t):
    os.makedirs(rep.replay_dir, exist_ok=True)
    p = os.path.join(rep.replay_dir, 'trace_%s.json' % t['id'])
    if not os.path.exists(p):
        with open(p, 'w') as f:
            json.dump(t, f)
    return p


# ---- spec -> code ----------------------------------------------------------------------------------------
def sched_cfg(threads=3, req=2, fns='Fns3', codes=3, envs=3, opts=2, rebind=1, reuse=1, **kw):
    c = model_cfg(spec='SSpec', threads=threads, req=req, fns=fns, codes=codes, envs=envs,
                  opts=opts, rebind=rebind, reuse=reuse, invariants=['Emit'], **kw)
    return c


def generate_schedules(plan, seed, out):
    per = max(1, plan['num'] // len(plan['configs']))
    results = {}

    def one(k, c):
        c = dict(c)
        fns = c.get('fns', 'Fns3')
        got, runs, tries = [], [], 0
        while len(got) < per and tries < 6:
            # one worker: the generated set of schedules is a function of VERIF_SEED
            res = tlc.run_tlc('SchedConvCache', sched_cfg(**c), workers=1, timeout=900, name='c10_sched%d' % k,
                              simulate=dict(num=per - len(got), depth=400), seed=seed * 131 + k * 17 + tries)
            res.require_ok('SchedConvCache')
            got += [h for h in res.json if isinstance(h, list) and h]
            runs.append(res)
            tries += 1
        results[k] = (runs, [dict(hist=h, init_fns=INIT_FNS[fns], threads=c['threads']) for h in got[:per]])

    errs = []

    def guarded(k, c):
        try:
            one(k, c)
        except BaseException as e:  # noqa: BLE001
            errs.append(e)

    ths = [threading.Thread(target=guarded, args=(k, c)) for k, c in enumerate(plan['configs'])]
    for th in ths:
        th.start()
    for th in ths:
        th.join()
    if errs:
        raise errs[0]
    for k in sorted(results):
        out['tlc'] += results[k][0]
        out['jobs'] += results[k][1]


# ---- the check ---------------------------------------------------------------------------------------------
def run(rep):
    tier = rep.tier
    plan = tier_plan(tier)
    seed = common.seed()
    scratch = common.scratch('c10_%s_%d' % (tier, os.getpid()))
    timer = common.Timer()
    timing = {}
    ctx = multiprocessing.get_context('fork')
    pool = ctx.Pool(plan['stress_procs'])       # forked before any thread exists
    try:
        jobs = c10_stress.plan_jobs(seed, tier)
        for j in jobs:
            j['scratch'] = scratch
        stress_iter = pool.imap_unordered(c10_stress.run_job_safe, jobs, chunksize=1)
        model_results, sched = [], dict(tlc=[], jobs=[])
        errors = []

        def guarded(fn, *a):
            try:
                fn(*a)
            except BaseException as e:  # noqa: BLE001
                errors.append(e)

        th_models = threading.Thread(target=guarded, args=(run_models, rep, plan['models'], model_results))
        th_sched = threading.Thread(target=guarded, args=(generate_schedules, plan['replay'], seed, sched))
        th_models.start()
        th_sched.start()

        # ---- code -> spec: traces are validated in batches while the stress jobs are still running
        results, by_id, nrej = [], {}, [0]
        batches = queue.Queue()

        def validator():
            k = 0
            while True:
                chunk = batches.get()
                if chunk is None:
                    return
                k += 1
                nrej[0] += judge_traces(rep, chunk, by_id, scratch, plan['trace_workers'], 'traces%d' % k)

        th_val = threading.Thread(target=guarded, args=(validator,))
        th_val.start()
        replay_async = None
        cur, cur_events = [], 0
        for r in stress_iter:
            if 'machinery' in r:
                batches.put(None)
                raise common.MachineryError(r['machinery'])
            results.append(r)
            by_id[r['id']] = r
            cur.append(r['trace'])
            cur_events += len(r['trace']['ev'])
            if cur_events > plan.get('batch_events', 150000):
                batches.put(cur)
                cur, cur_events = [], 0
            if replay_async is None and not th_sched.is_alive():
                if errors:
                    batches.put(None)
                    raise errors[0]
                timing['schedules_generated_at'] = timer.s()
                for i, j in enumerate(sched['jobs']):
                    j.update(id=i + 1, layout=i, scratch=scratch)
                replay_async = pool.map_async(c10_replay.replay_safe, sched['jobs'], chunksize=2)
        if cur:
            batches.put(cur)
        batches.put(None)
        timing['stress_done_at'] = timer.s()
        if replay_async is None:
            th_sched.join()
            if errors:
                raise errors[0]
            for i, j in enumerate(sched['jobs']):
                j.update(id=i + 1, layout=i, scratch=scratch)
            replay_async = pool.map_async(c10_replay.replay_safe, sched['jobs'], chunksize=2)
        th_val.join()
        if errors:
            raise errors[0]
        results.sort(key=lambda r: r['id'])
        traces = [r['trace'] for r in results]
        nrej = nrej[0]
        timing['traces_validated_at'] = timer.s()
        for r in results:
            for d in r['diffs']:
                rep.violation(d['signature'], d['what'], d['witness'])
        agg = {}
        for r in results:
            for k, v in r['stats'].items():
                if k in ('codes', 'envs', 'opts', 'threads'):
                    agg[k] = max(agg.get(k, 0), v)
                else:
                    agg[k] = agg.get(k, 0) + v
        kinds = {}
        for t in traces:
            for e in t['ev']:
                kinds[e['ev']] = kinds.get(e['ev'], 0) + 1
        rep.set('stress', dict(traces=len(traces), rejected=nrej, by_threads=_count_by(jobs, 'nthreads'), totals=agg,
                               event_kinds=kinds))
        needed = {'req', 'has_start', 'has_end', 'load', 'acquired', 'released', 'transform_begin', 'transform_ok',
                  'transform_fail', 'parse_fail', 'store', 'inst', 'ret', 'err', 'def', 'collect', 'rebind', 'look'}
        vacuity = []
        if needed - set(kinds):
            vacuity.append('stress traces never exercised: %s' % sorted(needed - set(kinds)))
        if not agg.get('reuse_at_address'):
            vacuity.append('no private generation of the stress runs got the address of its dead predecessor')
        rep.sample(dict(trace_id=traces[0]['id'], threads=jobs[0]['nthreads'], first_events=traces[0]['ev'][:12]))

        # ---- spec -> code
        for res in sched['tlc']:
            rep.add_tlc(res)
        replays = replay_async.get()
        timing['replay_done_at'] = timer.s()
        acts = {}
        nsteps = 0
        unrealised = reused = 0
        for r, j in zip(replays, sched['jobs']):
            if 'machinery' in r:
                raise common.MachineryError(r['machinery'])
            nsteps += r['steps']
            reused += r.get('reused', 0)
            if r.get('unrealised'):
                unrealised += 1     # the allocator did not hand the dead code object's block out again: not replayable
                continue
            for h in j['hist']:
                acts[h['a']] = acts.get(h['a'], 0) + 1
            if r['divergence'] is not None:
                d = r['divergence']
                lo = max(0, d['step'] - 10)
                rep.violation(c10_replay.signature(d),
                              'replaying a TLC-generated interleaving into the real cache: ' + d['detail'],
                              dict(divergence=d, schedule=dict(hist=j['hist'], init_fns=j['init_fns'], layout=j['layout']),
                                   around=[(h['a'], h['t'], h['x']) for h in j['hist'][lo:d['step'] + 1]]))
            else:
                rep.validated()
            for d in r['diffs']:
                rep.violation(d['signature'], d['what'], dict(d['witness'], schedule=dict(
                    hist=j['hist'], init_fns=j['init_fns'], layout=j['layout'])))
        rep.set('replay', dict(schedules=len(replays), steps_compared=nsteps, actions=acts,
                               code_objects_at_a_dead_ones_address=reused, unrealised=unrealised,
                               by_threads=_count_by(sched['jobs'], 'threads')))
        if unrealised > len(replays) // 4:
            vacuity.append('%d of %d schedules could not be realised (address reuse)' % (unrealised, len(replays)))
        if not reused:
            vacuity.append('no replayed schedule placed a code object at the address of a dead one')
        all_actions = {'Start', 'HasBegin', 'FastRead', 'HasEnd', 'FastGet', 'Acquire', 'ReCheck', 'LockGet', 'TransformBegin',
                       'Nested', 'ParseFail', 'TransformFail', 'TransformOk', 'Store', 'Release', 'ReleaseFail', 'Raise', 'Instantiate',
                       'Return', 'Redefine', 'Collect', 'Rebind'}
        if all_actions - set(acts):
            vacuity.append('replayed schedules never took: %s' % sorted(all_actions - set(acts)))
        if sched['jobs']:
            rep.sample(dict(schedule_head=[(h['a'], h['t'], h['x']) for h in sched['jobs'][0]['hist'][:14]]))

        # ---- design level
        th_models.join()
        if errors:
            raise errors[0]
        timing['models_done_at'] = timer.s()
        rep.set('timing', timing)
        judge_models(rep, model_results)
        if vacuity and not rep.violations:
            raise common.MachineryError('; '.join(vacuity))
    finally:
        pool.terminate()
        pool.join()
        common.rmtree(scratch)
    rep.assume('the proxies that stand in for PyToPy._cache_lock / PyToPy._cache forward every operation to a real '
               'threading.RLock / to the repo\'s CodeObjectCache; has(), cache[fn], bucket[subkey] (load/store), the with '
               'block and transform_ast are the only operations transform_function performs on shared state')
    rep.assume('CPython with the GIL: a dict store and the log append are made atomic by the log mutex; the lock-free has() '
               'is bracketed by start/end events and TLC places the read')
    rep.assume('behavioural equivalence with a fresh conversion is observed on 3 inputs plus the options reaching FunctionScope')
    rep.assume('RSpec (local steps first) explores the same values of cache/lock/ntr/returned as Spec; argued in ConvCache.tla, '
               'cross-checked by running the unreduced Spec on the 2-thread configuration')


def _count_by(items, key):
    out = {}
    for it in items:
        out[str(it[key])] = out.get(str(it[key]), 0) + 1
    return out


# ---- replay of a witness ----------------------------------------------------------------------------------------
def replay(path):
    with open(path) as f:
        doc = json.load(f)
    w = doc['witness']
    print('signature:', doc['signature'])
    print('what     :', doc['what'])
    scratch = common.scratch('c10_replay_%d' % os.getpid())
    try:
        if 'schedule' in w:
            s = w['schedule']
            r = c10_replay.replay_safe(dict(id=1, hist=s['hist'], init_fns=s['init_fns'], layout=s['layout'], scratch=scratch))
            print(json.dumps({k: v for k, v in r.items() if k != 'id'}, indent=1, default=str)[:6000])
            bad = bool(r.get('machinery')) or not r.get('ok')
            print('REPRODUCED' if bad else 'NOT REPRODUCED')
            return 1 if bad else 0
        if w.get('trace_file') and os.path.exists(w['trace_file']):
            with open(w['trace_file']) as f:
                t = json.load(f)
            ends, ats, _ = validate_traces([t], scratch, 2, 'replay', diag=True)
            far = max([a['l'] for a in ats if a['mode'] == 'strict'] + [0])
            print('recorded trace %s: %d events, strict acceptance: %s, furthest event matched: %d' % (
                t['id'], len(t['ev']), (t['id'], 'strict') in ends, far))
            for e in t['ev'][max(0, far - 12):far + 2]:
                print('   ', e)
            print('observed history:', {k: ends[(t['id'], 'obs')][k] for k in ('amo', 'coh', 'alias', 'stale')} if (t['id'], 'obs') in ends else None)
            bad = (t['id'], 'strict') not in ends
            if 'job' in w:
                r = c10_stress.run_job_safe(dict(w['job'], scratch=scratch))
                if 'trace' in r:
                    ends2, _, _ = validate_traces([r['trace']], scratch, 2, 'replay2', modes=('strict',))
                    print('the same job re-run on the current tree (new interleaving, %d events): %s' % (
                        len(r['trace']['ev']), 'accepted' if (r['trace']['id'], 'strict') in ends2 else 'REJECTED'))
            print('REPRODUCED (the recorded trace is not a behaviour of ConvCache)' if bad else 'NOT REPRODUCED')
            return 1 if bad else 0
        if 'job' in w:
            job = dict(w['job'], scratch=scratch)
            r = c10_stress.run_job_safe(job)
            print('re-ran stress job %s (free-running threads: the interleaving differs from run to run)' % job)
            sigs = [d['signature'] for d in r.get('diffs', [])]
            print('differences against fresh conversions:', sigs)
            bad = doc['signature'] in sigs
            print('REPRODUCED' if bad else 'NOT REPRODUCED')
            return 1 if bad else 0
        print(json.dumps(w, indent=1, default=str)[:4000])
        return 1
    finally:
        common.rmtree(scratch)


# ---- self-test: every invariant can fail; corrupted evidence is rejected -----------------------------------
MUTANT_EXPECT = [('norecheck', 'AtMostOnce'), ('dropopts', 'NoAlias'), ('keybyenv', 'NoStale'),
                 ('bindfirst', 'Coherent'), ('earlyrelease', 'LockDiscipline'), ('earlyrelease', 'AtMostOnce'),
                 ('bindequal', 'Follows'), ('memoaddr', 'NoStale')]
# the history dimension matters: without a rebinding / without address reuse the same mutants pass these invariants
MUTANT_CONTROL = [('bindequal', 'Follows', dict(rebind=0)), ('memoaddr', 'NoStale', dict(reuse=0, threads=1))]


def _selftest_bounds(mutant):
    if mutant == 'keybyenv':
        return dict(redef=1, coll=0, req=2)
    if mutant == 'bindequal':
        return dict(redef=0, coll=0, req=1, rebind=1)
    if mutant == 'memoaddr':
        return dict(redef=1, coll=1, req=2, reuse=1)
    return dict(redef=0, coll=0, req=1)


def selftest():
    ok = True
    for mutant, inv in MUTANT_EXPECT:
        cfg = model_cfg(spec='Spec', threads=2, mutant=mutant, invariants=[inv], nest=0, fail=0, **_selftest_bounds(mutant))
        res = tlc.run_tlc('ConvCache', cfg, workers=4, timeout=600, name='c10_self_' + mutant)
        hit = inv in res.violated
        print('selftest: Mutant=%-12s %-15s %s (%d states)' % (mutant, inv, 'violated as expected' if hit else 'NOT VIOLATED', res.distinct))
        ok = ok and hit
    for mutant, inv, over in MUTANT_CONTROL:
        kw = dict(dict(threads=2), **dict(_selftest_bounds(mutant), **over))
        cfg = model_cfg(spec='Spec', mutant=mutant, invariants=[inv], nest=0, fail=0, **kw)
        res = tlc.run_tlc('ConvCache', cfg, workers=4, timeout=900, name='c10_self_ctl_' + mutant)
        res.require_ok('selftest control run')
        print('selftest: Mutant=%-12s %-15s holds with %s (%d states): the history is what exposes it' % (mutant, inv, over, res.distinct))
    cfg = model_cfg(spec='Spec', threads=2, fns='Fns2', codes=3, coll=1, redef=1, req=1, rebind=1, reuse=1)
    res = tlc.run_tlc('ConvCache', cfg, workers=4, timeout=900, name='c10_self_cov', coverage=True)
    res.require_ok('coverage run')
    import re
    cov = {m.group(1): int(m.group(2)) for m in re.finditer(r'(?m)^<(\w+) line [^>]*>: (\d+):\d+', res.stdout)}
    wanted = ['SomeStart', 'HasBegin', 'FastRead', 'HasEnd', 'FastGet', 'Acquire', 'ReCheck', 'LockGet', 'TransformBegin',
              'SomeNested', 'ParseFail', 'TransformFail', 'TransformOk', 'Store', 'Release', 'ReleaseFail', 'Raise', 'Instantiate', 'Return',
              'SomeRedefine', 'SomeCollect', 'SomeRebind']
    missing = [a for a in wanted if cov.get(a, 0) == 0 and cov.get(a.replace('Some', ''), 0) == 0]
    print('selftest: coverage of actions: %s' % ('all taken' if not missing else 'NEVER TAKEN: %s' % missing))
    ok = ok and not missing
    # corrupted traces
    scratch = common.scratch('c10_self_%d' % os.getpid())
    try:
        r = c10_stress.run_job_safe(dict(id=1, seed=1, nthreads=4, scratch=scratch))
        if 'machinery' in r:
            raise common.MachineryError(r['machinery'])
        t = r['trace']
        ends, _, _ = validate_traces([t] + corrupt(t), scratch, 4, 'self')
        good = (1, 'strict') in ends
        bad1 = (-1, 'strict') not in ends
        bad2 = (-2, 'strict') not in ends
        bad3 = (-3, 'strict') not in ends
        print('selftest: recorded trace accepted=%s, flipped has_end rejected=%s, removed released rejected=%s, '
              'wrong captured value rejected=%s' % (good, bad1, bad2, bad3))
        ok = ok and good and bad1 and bad2 and bad3
    finally:
        common.rmtree(scratch)
    print('selftest:', 'PASS' if ok else 'FAIL')
    return 0 if ok else 2
