"""C19 - static type inference over-approximates the types that occur at run time.

Decided by spec/TypeSem.tla: an operational semantics of a small typed Python subset that tracks the run-time
type tag of every variable and expression occurrence, explored by TLC over *all paths* of every generated
program, with a monitor that compares each tag with the claim (anno.Static.TYPES / CLOSURE_TYPES) that the
real malt analysis - driven with a truthful Resolver built from the spec's typing tables - attached to that
occurrence.  Every terminal state TLC prints is replayed on CPython (model validation).
"""
import json
import multiprocessing
import os
import random
import signal

from .. import common, tlc
from .. import c19_lang as L
from .. import c19_export as X
from .. import c19_replay as R

CFG = """SPECIFICATION Spec
CONSTANTS
  MaxTrip = %d
  MaxSteps = %d
  MaxDepth = %d
  MaxDec = %d
  Full = %s
INVARIANT Emit
CHECK_DEADLOCK FALSE
"""
DUMP_CFG = 'SPECIFICATION Spec\nINVARIANT Dump\nCHECK_DEADLOCK FALSE\n'
WORKERS = int(os.environ.get('VERIF_WORKERS', '16'))
HARD_TIMEOUT_S = 4.0
ANALYSIS_TIMEOUT_S = 0.5     # the fixed point of nested tuple types (x = (x, 1) in a loop) does not terminate

TIERS = {
    # fam_full: exhaustive family sizes; fam_sample: (size, how many sampled); rnd: (count, statement budget)
    # clo / br / chn / par: how many sampled of the family (0 = all)
    'quick': dict(fam_full=(1, 2), fam_sample=((3, 1100),), clo=(3, 500), br=400, chn=240, par=300,
                  rnd=((600, 8), (350, 12)), max_trip=2, max_steps=60, max_dec=8),
    'thorough': dict(fam_full=(1, 2, 3), fam_sample=((4, 12000),), clo=(3, 0), br=0, chn=0, par=0,
                     rnd=((16000, 8), (10000, 12), (4000, 16)), max_trip=2, max_steps=80, max_dec=10),
}


# ------------------------------------------------------------------------------------------------
# typing tables: dumped from the spec, validated against CPython
# ------------------------------------------------------------------------------------------------
def load_tables(rep):
    res = tlc.run_tlc('TypeTablesDump', DUMP_CFG, workers=1, timeout=120, name='TypeTablesDump').require_ok('TypeTablesDump')
    dumps = [j for j in res.json if isinstance(j, dict) and 'bin' in j]
    if len(dumps) != 1:
        raise common.MachineryError('TypeTablesDump printed %d tables' % len(dumps))
    dump = dumps[0]
    n = validate_tables(dump)
    rep.set('typing_table_entries_validated_on_cpython', n)
    return X.Tables(dump)


_SAMPLES = {'int': [1, 0, -2], 'float': [1.5, 0.0], 'bool': [True, False], 'str': ['s', ''], 'none': [None],
            'list': [[1], [], [1.5, 's']], 'tuple': [(1, 1.5), (), ('s',)], 'fn': [lambda: 0]}


def _head(v):
    if v is None:
        return 'none'
    if callable(v):
        return 'fn'
    return type(v).__name__


def validate_tables(dump):
    """Every entry of the spec's head-level tables against CPython, on several sample values per head."""
    import operator
    ops = {'+': operator.add, '-': operator.sub, '*': operator.mul, '<': operator.lt, '==': operator.eq,
           'not': operator.not_, 'neg': operator.neg}
    n = 0

    def observe(f, *args):
        got = set()
        for vs in __import__('itertools').product(*[_SAMPLES[a] for a in args]):
            try:
                got.add(_head(f(*vs)))
            except TypeError:
                got.add('TypeError')
        return got

    for kind in ('bin', 'cmp'):
        for op, a, b, r in dump[kind]:
            got = observe(ops[op], a, b)
            # comparisons of sequences may raise for some element values and answer for others: the table
            # gives the type of the answer
            if kind == 'cmp' and a == b and a in ('list', 'tuple'):
                got.discard('TypeError')
            if got != {r}:
                raise common.MachineryError('typing table %s(%s, %s) = %s, CPython says %s' % (op, a, b, r, sorted(got)))
            n += 1
    for op, a, r in dump['un']:
        got = observe(ops[op], a)
        if got != {r}:
            raise common.MachineryError('typing table %s(%s) = %s, CPython says %s' % (op, a, r, sorted(got)))
        n += 1
    for a, r in dump['iter']:
        for v in _SAMPLES[a]:
            try:
                iter(v)
                got = 'ok' if a != 'str' else 'unsup'
            except TypeError:
                got = 'TypeError'
            if got != r:
                raise common.MachineryError('iteration table %s = %s, CPython says %s' % (a, r, got))
        n += 1
    return n


# ------------------------------------------------------------------------------------------------
# programs of a tier
# ------------------------------------------------------------------------------------------------
def programs(tier, seed):
    t = TIERS[tier]
    rnd = random.Random(seed * 7919 + 17)
    out = []
    for n in t['fam_full']:
        out += [('fam%d' % n, tr) for tr in L.family(n)]
    for n, k in t['fam_sample']:
        allp = list(L.family(n))
        out += [('fam%d' % n, tr) for tr in (rnd.sample(allp, k) if k < len(allp) else allp)]
    clo = list(L.closure_family(t['clo'][0]))
    out += [('clo', tr) for tr in (rnd.sample(clo, t['clo'][1]) if 0 < t['clo'][1] < len(clo) else clo)]
    br = list(L.branch_family())
    out += [('br', tr) for tr in (rnd.sample(br, t['br']) if 0 < t['br'] < len(br) else br)]
    rnd3 = random.Random(seed * 104729 + 5)          # (a stream of its own: the samples above stay what they were)
    for fam, gen in (('chn', L.chain_family), ('par', L.param_family)):
        allp = list(gen())
        out += [(fam, tr) for tr in (rnd3.sample(allp, t[fam]) if 0 < t[fam] < len(allp) else allp)]
    for k, size in t['rnd']:
        base = rnd.randrange(1 << 30)
        out += [('rnd%d' % size, L.random_program(base + i, size)) for i in range(k)]
    return out


# ------------------------------------------------------------------------------------------------
# export (real malt) - parallel
# ------------------------------------------------------------------------------------------------
_G = {}


def _export_init(tables_dump):
    common.use_repo()
    _G['mods'] = X.malt_modules()
    _G['tables'] = tables_dump


class _Diverged(Exception):
    pass


def _alarm(*_):
    if _G.get('armed'):          # the timer repeats: an exception swallowed somewhere is raised again
        raise _Diverged()


def _export_one(tree):
    """-> (tables, source, claims | [claims order 0, claims order 1], error)"""
    p = L.flatten(tree)
    src = L.render(p)
    signal.signal(signal.SIGALRM, _alarm)
    try:
        _G['armed'] = True
        signal.setitimer(signal.ITIMER_REAL, ANALYSIS_TIMEOUT_S, 0.05)
        try:
            c = X.export_claims(_G['mods'], _G['tables'], tree, p, src, 0)
            c2 = X.export_claims(_G['mods'], _G['tables'], tree, p, src, 1)
        finally:
            _G['armed'] = False
            signal.setitimer(signal.ITIMER_REAL, 0)
        if c2 != c:
            c = [c, c2]
        return p, src, c, None
    except _Diverged:
        return p, src, None, 'diverged'
    except RecursionError:
        return p, src, None, 'diverged'
    except Exception as e:      # the analysis (or the exporter) failed on this program
        import traceback
        return p, src, None, '%s: %s\n%s' % (type(e).__name__, e, traceback.format_exc(limit=6))


def _export_worker(conn, tables):
    _export_init(tables)
    while True:
        msg = conn.recv()
        if msg is None:
            return
        for i, tree in msg:
            conn.send((i, _export_one(tree)))


class _Worker:
    def __init__(self, ctx, tables):
        self.conn, child = ctx.Pipe()
        self.proc = ctx.Process(target=_export_worker, args=(child, tables), daemon=True)
        self.proc.start()
        child.close()
        self.queue = []
        self.last = 0.0

    def kill(self):
        try:
            self.proc.kill()
            self.proc.join(5)
            self.conn.close()
        except Exception:
            pass


def export_all(trees, tables, procs):
    """Export every program in worker processes.  The in-process alarm (ANALYSIS_TIMEOUT_S) stops a fixed point
    that does not terminate; a worker that makes no progress for HARD_TIMEOUT_S (stuck inside a C call, e.g. the
    product of exploding tuple types) is killed and replaced, and its program counts as diverged."""
    import collections
    import time
    from multiprocessing.connection import wait
    ctx = multiprocessing.get_context('fork')
    n = len(trees)
    results = [None] * n
    size = max(1, min(25, n // (max(1, procs) * 4)))
    pending = collections.deque(list(c) for c in common.chunks(list(enumerate(trees)), size))
    workers = [_Worker(ctx, tables) for _ in range(max(1, min(procs, len(pending))))]
    done = 0
    try:
        while done < n:
            now = time.time()
            for w in workers:
                if not w.queue and pending:
                    w.queue = pending.popleft()
                    w.last = now
                    w.conn.send(w.queue)
            busy = [w for w in workers if w.queue]
            ready = wait([w.conn for w in busy], timeout=0.2)
            now = time.time()
            for w in busy:
                dead = False
                if w.conn in ready:
                    try:
                        while w.queue and w.conn.poll():
                            i, r = w.conn.recv()
                            assert i == w.queue[0][0]
                            results[i] = r
                            w.queue.pop(0)
                            w.last = now
                            done += 1
                    except (EOFError, OSError):
                        dead = True
                if w.queue and (dead or now - w.last > HARD_TIMEOUT_S):
                    i, tree = w.queue.pop(0)
                    p = L.flatten(tree)
                    results[i] = (p, L.render(p), None, 'diverged')
                    done += 1
                    if w.queue:
                        pending.appendleft(w.queue)
                    w.kill()
                    workers[workers.index(w)] = _Worker(ctx, tables)
    finally:
        for w in workers:
            try:
                w.conn.send(None)
            except Exception:
                pass
        for w in workers:
            w.proc.join(2)
            w.kill()
    return results


# ------------------------------------------------------------------------------------------------
# replay (CPython) - parallel
# ------------------------------------------------------------------------------------------------
def _replay_chunk(args):
    progs, has, terms = args
    bad = []
    n = checked = calls = 0
    codes = {}
    for t in terms:
        if t['out']['k'] not in ('ret', 'exc'):
            continue
        pid = t['pid']
        p = progs[pid]
        if pid not in codes:
            codes[pid] = R.compile_program(p)
        ev, out = R.run(codes[pid], p, t['dec'])
        n += 1
        h = has[pid]
        for o, _ in ev:
            checked += h[o - 1]
            calls += p['exprs'][o - 1]['kind'] == 'lcall'
        exp_out = {'k': t['out']['k'], 't': list(t['out']['t'])}
        if (len(ev), R.hash_events(ev)) != (t['evn'], t['evh']) or out != exp_out:
            d = dict(pid=pid, dec=t['dec'], spec_out=exp_out, cpython_out=out, spec_events=[t['evn'], t['evh']],
                     cpython_events=[len(ev), R.hash_events(ev)])
            if t['ev']:                        # Full mode: show where the sequences part
                exp_ev = [[e['o'], list(e['t'])] for e in t['ev']]
                first = next((i for i in range(min(len(ev), len(exp_ev))) if ev[i] != exp_ev[i]), min(len(ev), len(exp_ev)))
                d.update(first_diff=first, spec_ev=exp_ev[first:first + 3], cpython_ev=ev[first:first + 3])
            bad.append(d)
            if len(bad) > 5:
                break
    return n, bad, checked, calls


def replay_all(progs, claims, terms, procs):
    by_pid = {}
    for t in terms:
        by_pid.setdefault(t['pid'], []).append(t)
    pids = sorted(by_pid)
    chunks = []
    for group in common.chunks(pids, max(1, len(pids) // (procs * 4) + 1)):
        chunks.append(({pid: progs[pid] for pid in group}, {pid: [c['has'] for c in claims[pid]['types']] for pid in group},
                       [t for pid in group for t in by_pid[pid]]))
    if procs <= 1 or len(chunks) <= 1:
        results = [_replay_chunk(c) for c in chunks]
    else:
        ctx = multiprocessing.get_context('fork')
        with ctx.Pool(procs) as pool:
            try:
                results = pool.map_async(_replay_chunk, chunks).get(timeout=900)
            except multiprocessing.TimeoutError:
                raise common.MachineryError('CPython replay did not finish within 900 s')
    bad = [b for r in results for b in r[1]]
    return sum(r[0] for r in results), bad, sum(r[2] for r in results), sum(r[3] for r in results)


# ------------------------------------------------------------------------------------------------
# one batch: export -> TLC -> replay ; returns findings
# ------------------------------------------------------------------------------------------------
def signature(b, p):
    """Root-cause class of one monitor record, from what the specification knows about it (most specific first)."""
    okind = p['exprs'][b['o'] - 1]['kind']
    if b['unk']:
        return 'c19:stale-claim-after-operand-became-unknown'
    if b['wrel'] == 'store':
        # (a later target of a chained assignment: the specification knows what kind of target precedes it)
        return 'c19:binding-claim-misses-type:%s:%s%s' % (okind, b['wk'], ':' + b['chain'] if b['chain'] else '')
    if b['clause'] == 'closure' and b['cshadow']:
        # this call contributed the caller's own variable of that name, or nothing at all
        return 'c19:closure-types-from-call-in-local-function-use-its-own-names'
    if b['clause'] == 'types' and b['clo']:
        # the final CLOSURE_TYPES know the type: the body was annotated before they were complete
        return 'c19:callee-annotated-before-closure-types-complete'
    if b['wk'] == 'param' and not b['wc'] and b['ponly']:
        # the only binding of the variable is the call and carries no claim: whatever is claimed for it (at a read,
        # or as closure type for a function nested in its function) was not derived from a binding of this variable
        return 'c19:type-claimed-for-untyped-never-rebound-parameter:%s%s' % (
            'read' if b['clause'] == 'types' else 'closure', ':hides-enclosing-variable' if b['phide'] else '')
    cause = None
    if b['wnl'] and b['wrel'] == 'other':
        cause = 'nonlocal-rebinding-invisible-to-caller'
    elif b['wk'] == 'for' and not b['wc']:
        cause = 'for-target-keeps-old-type'
    elif b['wk'] == 'aug' and not b['wc']:
        cause = 'augassign-type-not-updated'
    elif b['wk'] in ('assign', 'unpack', 'param') and not b['wc']:
        cause = 'assign-of-unknown-keeps-old-type'
    if b['clause'] == 'closure':
        return 'c19:' + (cause or 'closure-types-miss-captured-type')
    if cause and okind == 'name':
        return 'c19:' + cause
    return 'c19:types-miss:%s:%s:%s' % (okind, b['wk'], b['wrel'])


class Batch:
    def __init__(self, tables, tier_cfg, name='TypeSem', workers=WORKERS, full=False):
        self.tables = tables
        self.cfg = CFG % (tier_cfg['max_trip'], tier_cfg['max_steps'], 3, tier_cfg['max_dec'], 'TRUE' if full else 'FALSE')
        self.full = full
        self.name = name
        self.workers = workers

    def run(self, trees, rep=None, replay=True, coverage=False):
        """Export, model-check, replay.  Returns dict(trees, progs, srcs, claims, index, terms, findings, stats):
        entry k of progs/srcs/claims/trees belongs to trees[index[k]] (a program whose claims depend on the
        visit order appears once per order; programs on which the analysis does not terminate are dropped);
        findings = list of (signature, k, monitor record, terminal state)."""
        tm = common.Timer()
        exported = export_all(trees, self.tables, self.workers)
        t_export = tm.s()
        diverged = [i for i, e in enumerate(exported) if e[3] == 'diverged']
        errors = [(i, e[3]) for i, e in enumerate(exported) if e[3] and e[3] != 'diverged']
        if errors:
            i, msg = errors[0]
            raise common.MachineryError('type inference pipeline failed on %d program(s); first:\n%s\n%s' % (
                len(errors), exported[i][1], msg))
        index, progs, srcs, claims = [], [], [], []
        for i, (p, src, c, err) in enumerate(exported):
            if err:
                continue
            for variant in (c if isinstance(c, list) else [c]):
                index.append(i)
                progs.append(p)
                srcs.append(src)
                claims.append(variant)
        d = common.scratch('c19_%s_%d' % (self.name, os.getpid()))
        try:
            pf, cf = os.path.join(d, 'progs.json'), os.path.join(d, 'claims.json')
            with open(pf, 'w') as f:
                json.dump(L.batch(progs), f)
            with open(cf, 'w') as f:
                json.dump(claims, f)
            res = tlc.run_tlc('TypeSem', self.cfg, env=dict(C19_PROGS=pf, C19_CLAIMS=cf), workers=self.workers,
                              timeout=1500, name=self.name, coverage=coverage, jvm_mem='12g')
        finally:
            common.rmtree(d)
        res.require_ok('TypeSem')
        terms = [j for j in res.json if isinstance(j, dict) and 'pid' in j and 'out' in j]
        for t in terms:
            t['pid'] -= 1                       # 0-based from here on
        seen = {t['pid'] for t in terms}
        if len(seen) != len(progs):
            raise common.MachineryError('TLC reported terminal states for %d of %d programs' % (len(seen), len(progs)))
        stats = dict(programs=len(trees) - len(diverged), order_dependent_claims=len(progs) - (len(trees) - len(diverged)),
                     executions=len(terms), analysis_diverged=len(diverged), t_export_s=t_export, t_tlc_s=res.wall_s)
        for t in terms:
            stats['out_' + t['out']['k']] = stats.get('out_' + t['out']['k'], 0) + 1
        if replay:
            tm = common.Timer()
            n, bad, checked, calls = replay_all(progs, claims, terms, self.workers)
            stats['replayed'] = n
            stats['claims_checked_in_replayed_executions'] = checked
            stats['local_calls_in_replayed_executions'] = calls
            stats['t_replay_s'] = tm.s()
            if bad:
                b = bad[0]
                raise common.MachineryError(
                    'TypeSem.tla and CPython disagree on %d execution(s); first:\n%s\n%s' % (
                        len(bad), L.render(progs[b['pid']]), json.dumps(b)))
        findings = []
        for t in terms:
            for b in t['bad']:
                findings.append((signature(b, progs[t['pid']]), t['pid'], b, t))
        if rep is not None:
            rep.add_tlc(res)
        return dict(progs=progs, srcs=srcs, claims=claims, terms=terms, findings=findings, stats=stats, res=res,
                    trees=[trees[i] for i in index], index=index, diverged=[exported[i][1] for i in diverged])


# ------------------------------------------------------------------------------------------------
# shrinking witnesses (signature preserving; all signatures in lockstep: one TLC run per round)
# ------------------------------------------------------------------------------------------------
def shrink_all(batch, starts, rounds):
    cur = dict(starts)
    active = set(starts)
    for _ in range(rounds):
        cands, owner = [], []
        for sig in sorted(active):
            for c in sorted(L.reductions(cur[sig]), key=L.size)[:400]:
                cands.append(c)
                owner.append(sig)
        if not cands:
            break
        out = batch.run(cands, replay=False)
        ok = {}
        for s, k, _, _ in out['findings']:
            i = out['index'][k]
            if s == owner[i]:
                ok.setdefault(s, set()).add(i)
        for sig in sorted(active):
            if ok.get(sig):
                cur[sig] = cands[min(ok[sig], key=lambda i: (L.size(cands[i]), i))]
            else:
                active.discard(sig)
        if not active:
            break
    return cur


def witnesses(batch, small):
    """small: signature -> tree.  One full-mode run (replayed on CPython) describing one witness per signature:
    source, the execution (decisions) and what was claimed / observed."""
    sigs = sorted(small)
    out = batch.run([small[s] for s in sigs], replay=True)
    res = {}
    for n, sig in enumerate(sigs):
        hits = [(b, t) for s, k, b, t in out['findings'] if s == sig and out['index'][k] == n]
        if not hits:
            raise common.MachineryError('witness of %s is not reproducible:\n%s' % (sig, L.render(L.flatten(small[sig]))))
        hits.sort(key=lambda bt: (len(bt[1]['dec']), bt[1]['dec'], bt[1]['pid'], bt[0]['o']))
        b, t = hits[0]
        p = out['progs'][t['pid']]
        cl = out['claims'][t['pid']]
        o = b['o']
        claim = cl['types'][o - 1]['ts'] if b['clause'] == 'types' else \
            [c['ts'] for i in _callee(p, b) for c in cl['closure'][i] if c['name'] == b['name']]
        res[sig] = dict(
            source=out['srcs'][t['pid']], tree=repr(small[sig]), decisions=t['dec'], outcome=t['out'], clause=b['clause'],
            occurrence=L.r_expr(p, o, False) if p['exprs'][o - 1]['kind'] not in ('store', 'stuple', 'param')
            else 'binding of ' + (b['name'] or 'tuple target'),
            occurrence_id=o, variable=b['name'], runtime_type=b['t'], claimed=claim,
            last_binding=dict(kind=b['wk'], had_claim=b['wc'], via_nonlocal=b['wnl'], activation=b['wrel'],
                              chained_target=b['chain'], parameter_never_rebound=b['ponly'],
                              parameter_hides_enclosing_variable=b['phide']),
            operand_unknown=b['unk'], final_closure_types_cover_it=b['clo'],
            caller_shadows_or_declares_nonlocal=b['cshadow'])
    return res


def _callee(p, b):
    nm = p['exprs'][p['exprs'][b['o'] - 1]['args'][0] - 1]['name']
    return [i for i, f in enumerate(p['fns']) if f['name'] == nm]       # several when the function is redefined


WHAT = {
    'c19:for-target-keeps-old-type': 'a name read after a for loop rebinds it keeps the type it had before the loop (the loop target is never visited)',
    'c19:augassign-type-not-updated': 'a name read after an augmented assignment keeps the type it had before (AugAssign is not inferred)',
    'c19:nonlocal-rebinding-invisible-to-caller': 'a local function rebinding a nonlocal variable to another type is invisible to the types the caller sees afterwards',
    'c19:assign-of-unknown-keeps-old-type': 'assigning a value of unknown type to a name leaves the old inferred type in place instead of forgetting it',
    'c19:closure-types-miss-captured-type': 'CLOSURE_TYPES of a local function do not cover the type of a captured variable at a call',
    'c19:callee-annotated-before-closure-types-complete': 'a captured variable read in a local function keeps the types known when the function body was analysed; a call from a sibling function analysed later adds to CLOSURE_TYPES but not to the body annotations',
    'c19:closure-types-from-call-in-local-function-use-its-own-names': 'closure types recorded at a call made inside another local function come from that function\'s own state: names it declares nonlocal are missing, locals that shadow a captured name are mixed in',
    'c19:binding-claim-misses-type:store:assign:after-unpack': 'in a chained assignment a name target that follows a tuple target is given a type that is not the type of the assigned value',
    'c19:binding-claim-misses-type:stuple:unpack:after-unpack': 'in a chained assignment a tuple target that follows another tuple target is given a type that is not the type of the assigned value',
    'c19:type-claimed-for-untyped-never-rebound-parameter:closure:hides-enclosing-variable': 'the closure types passed to a function nested in a local function contain, for a parameter (type unknown, never rebound) that has the name of a variable of the enclosing function, the types of that other variable',
    'c19:type-claimed-for-untyped-never-rebound-parameter:read:hides-enclosing-variable': 'a parameter of a local function (type unknown, never rebound) that has the name of a variable of the enclosing function is read with the types of that other variable',
    'c19:stale-claim-after-operand-became-unknown': 'a TYPES annotation written by an early visit of the fixed point stays on the node after a later visit finds an operand unknown',
}


# ------------------------------------------------------------------------------------------------
ACTIONS = ('Enter', 'ExecSimple', 'ExecCall', 'ExecIf', 'ExecWhile', 'NextWhile', 'ExecFor', 'NextFor', 'ExecDef',
           'ExecJump', 'EndBlock', 'EndCall', 'TooLong')
CHUNK = 6000          # programs per TLC run (JSON tables are loaded into memory by TLC)


def vacuity(rep, tables, tier, trees):
    """-coverage 1 on a sub-batch: every action of the specification must have been taken."""
    out = Batch(tables, tier, name='TypeSemCov', workers=min(WORKERS, 4)).run(trees, replay=False, coverage=True)
    cov = out['res'].coverage
    missing = [a for a in ACTIONS if cov.get(a, (0, 0))[0] == 0]
    rep.set('action_coverage', {a: cov.get(a, (0, 0))[0] for a in ACTIONS})
    if missing:
        raise common.MachineryError('vacuity: actions never taken in the coverage run: %s' % missing)


def run(rep):
    tier = TIERS[rep.tier]
    tables = load_tables(rep)
    tagged = programs(rep.tier, common.seed())
    all_trees = [t for _, t in tagged]
    batch = Batch(tables, tier)
    groups = {}                       # signature -> list of (size, global tree index, source)
    counts = {}
    totals = {}
    diverged = []
    nclaims = nclosure = 0
    for c0 in range(0, len(all_trees), CHUNK):
        out = batch.run(all_trees[c0:c0 + CHUNK], rep=rep, replay=True)
        for k, v in out['stats'].items():
            totals[k] = round(totals.get(k, 0) + v, 2)
        nclaims += sum(sum(c['has'] for c in cl['types']) for cl in out['claims'])
        nclosure += sum(len(f) for cl in out['claims'] for f in cl['closure'])
        diverged += out['diverged']
        if c0 == 0:
            n = len(out['trees'])
            for i in (0, n // 2, n - 1):
                rep.sample(dict(family=tagged[out['index'][i]][0], source=out['srcs'][i]))
        seen = set()
        for sig, k, b, t in out['findings']:
            counts[sig] = counts.get(sig, 0) + 1
            if (sig, k) not in seen:
                seen.add((sig, k))
                gi = c0 + out['index'][k]
                groups.setdefault(sig, []).append((L.size(all_trees[gi]), gi, out['srcs'][k]))
    rep.validated(int(totals.get('replayed', 0)))
    for k, v in totals.items():
        rep.set(k, v)
    fams = {}
    for fam, _ in tagged:
        fams[fam] = fams.get(fam, 0) + 1
    rep.set('program_families', fams)
    rep.set('types_claims_exported', nclaims)
    rep.set('closure_claims_exported', nclosure)
    rep.set('monitor_records', sum(counts.values()))
    rep.set('signatures', dict(sorted(counts.items())))
    vacuity(rep, tables, tier, [t for f, t in tagged if f.startswith('rnd')][:100])
    # witnesses of signatures that are not known findings are shrunk (in the thorough tier: all of them)
    first = {sig: min(v) for sig, v in groups.items()}
    todo = [sig for sig in sorted(groups) if sig not in rep.known_sigs or rep.tier != 'quick']
    shrink_batch = Batch(tables, tier, name='TypeSemShrink', workers=min(WORKERS, 8))
    small = shrink_all(shrink_batch, {sig: all_trees[first[sig][1]] for sig in todo}, 10 if rep.tier == 'quick' else 25)
    wit = witnesses(Batch(tables, tier, name='TypeSemWitness', workers=2, full=True), small) if small else {}
    for sig in sorted(groups):
        nprog = len({gi for _, gi, _ in groups[sig]})
        if sig in wit:
            w = wit[sig]
            w.update(programs=nprog, records=counts[sig], unshrunk_source=first[sig][2])
        else:
            w = dict(source=first[sig][2], programs=nprog, records=counts[sig])
        rep.violation(sig, WHAT.get(sig, 'a reported set of types misses the run-time type (class %s)' % sig), w)
    if diverged:
        rep.set('analysis_diverged_example', diverged[0])
    if len(diverged) > max(3, len(all_trees) // 100) and not rep.violations:
        # (with violations the verdict stands on the programs that could be analysed)
        raise common.MachineryError('type inference did not terminate within %.1fs on %d of %d programs and the rest '
                                    'shows no violation; first:\n%s' % (ANALYSIS_TIMEOUT_S, len(diverged), len(all_trees), diverged[0]))
    rep.assume('CPython evaluates the instrumented rendering (every occurrence wrapped in an identity function) '
               'like the plain rendering that malt analyses')
    rep.assume('external functions and arguments may return/carry any value of their declared type(s); '
               'while loops run at most MaxTrip=%d iterations per loop instance; executions longer than %d steps or '
               '%d decisions are cut (counted as out_steps)' % (tier['max_trip'], tier['max_steps'], tier['max_dec']))
    rep.assume('the iteration order of sets of CFG nodes (arbitrary in the real code: address hashes) is pinned '
               'by the harness to two fixed orders; the claims of both are checked')
    rep.assume('the event sequences of specification and CPython are compared by length and a 20-bit rolling hash')


def replay(path):
    """Re-run the witness of a VIOLATION file against the current VERIF_REPO; exit 1 if it reproduces."""
    w = json.load(open(path))
    print(json.dumps(w, indent=1))
    from .. import report
    rep = report.Report('C19', 'quick')
    tables = load_tables(rep)
    wit = w.get('witness', {})
    if 'tree' not in wit:          # an unshrunk witness: repeat the whole check
        run(rep)
        return rep.finish()
    tree = eval(wit['tree'], {})
    out = Batch(tables, TIERS['quick'], name='TypeSemReplay', workers=2, full=True).run([tree], rep=rep)
    sigs = sorted({s for s, _, _, _ in out['findings']})
    print(out['srcs'][0])
    for t in out['terms']:
        for b in t['bad']:
            print('decisions %s: %s clause, occurrence %d (%s), run-time type %s' % (
                t['dec'], b['clause'], b['o'], b['name'] or L.r_expr(out['progs'][t['pid']], b['o'], False), b['t']))
    hit = w.get('signature') in sigs
    print('signatures on this tree: %s -> %s' % (sigs, 'REPRODUCED' if hit else 'not reproduced'))
    return 1 if hit else 0


def selftest():
    """Binding demonstration (a): corrupt the evidence and show that the specification rejects it.

    A program on which the real analysis is sound is exported; then one TYPES claim / one CLOSURE_TYPES claim is
    narrowed by hand.  TLC must stay silent on the genuine claims and report the corrupted ones."""
    from .. import report
    rep = report.Report('C19', 'quick')
    tables = load_tables(rep)
    tree = dict(params=[('a', [['int']])], body=[
        ('assign', 'x', ('lit', 'int')),
        ('def', 'g1', [], [], [('return', ('name', 'x'))]),
        ('if', 'cb', [('assign', 'x', ('lit', 'float'))], []),
        ('assign', 'y', ('lcall', 'g1', [])),
        ('return', ('name', 'x'))])
    b = Batch(tables, TIERS['quick'], name='TypeSemSelftest', workers=2, full=True)
    out = b.run([tree])
    print(out['srcs'][0])
    if out['findings']:
        print('SELFTEST FAILED: genuine claims rejected', out['findings'][0][:3])
        return 2
    p, claims = out['progs'][0], out['claims'][0]
    ret_x = max(i for i, e in enumerate(p['exprs']) if e['kind'] == 'name' and e['name'] == 'x')
    ok = True
    for what, mutate in (
            ('TYPES of the returned x narrowed to {int}', lambda c: c['types'][ret_x].update(ts=[['int']])),
            ('CLOSURE_TYPES of g1 for x narrowed to {int}',
             lambda c: [e.update(ts=[['int']]) for e in c['closure'][1] if e['name'] == 'x'])):
        c2 = json.loads(json.dumps(claims))
        mutate(c2)
        got = _run_with_claims(b, p, c2)
        print('%s -> monitor records: %s' % (what, sorted({s for s in got})))
        ok = ok and bool(got)
    print('SELFTEST', 'OK' if ok else 'FAILED')
    return 0 if ok else 2


def _run_with_claims(batch, p, claims):
    d = common.scratch('c19_selftest_%d' % os.getpid())
    try:
        pf, cf = os.path.join(d, 'progs.json'), os.path.join(d, 'claims.json')
        json.dump(L.batch([p]), open(pf, 'w'))
        json.dump([claims], open(cf, 'w'))
        res = tlc.run_tlc('TypeSem', batch.cfg, env=dict(C19_PROGS=pf, C19_CLAIMS=cf), workers=2, timeout=300,
                          name='TypeSemSelftest').require_ok('TypeSem selftest')
    finally:
        common.rmtree(d)
    return [signature(b, p) for t in res.json if isinstance(t, dict) and 'bad' in t for b in t['bad']]
