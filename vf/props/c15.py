"""C15 - source recovery returns exactly the code of the function being converted.

Decided by two input-space specifications:
  spec/SourceLayout.tla  function definitions as sequences of physical lines (all layouts with at most `Budget`
                         deviations from the plain layout), with Python's logical-line structure, string values
                         and the reference dedent;
  spec/LambdaSelect.tla  1..3 lambda expressions with placement, line spans and parameter lists, optionally passed
                         through functools.wraps(W) (object carries __wrapped__: own vs reported parameters), with
                         the expected result of recovering the source of each lambda object.
TLC enumerates both spaces completely (BFS) and prints one JSON record per terminal state; vf/c15_layout.py and
vf/c15_lambda.py turn them into real modules, validate the model against CPython's own parser (MachineryError on
disagreement) and compare with malt.pyct.parser.parse_entity.  Failing cases are classified by descending through
the enumerated space to a minimal failing case: the signature names the layout features that remain.
"""
import collections
import re
import json
import multiprocessing
import os
import threading

from .. import common, tlc
from .. import c15_layout as L
from .. import c15_lambda as M

LAYOUT_CFG = """SPECIFICATION Spec
CONSTANTS
 Budget = %(budget)d
 MaxBody = %(maxbody)d
 MaxDepth = %(maxdepth)d
 MaxDeco = 2
 Units = {%(units)s}
 CtxKinds = {"class", "func", "loop", "with", "try"}
 DecoKinds = {"id", "call", "wrap"}
 StrKinds = {%(strkinds)s}
 Quotes = {"q3", "q1"}
INVARIANT DedentSound
INVARIANT LogicalPartition
INVARIANT LexState
INVARIANT BlocksFilled
INVARIANT Emit
CHECK_DEADLOCK FALSE
"""
LAMBDA_CFG = """SPECIFICATION Spec
CONSTANTS
 MaxL = %(maxl)d
 Sigs = {"none", "x", "y", "xy", "xd", "va", "kw", "po", "ko"}
 Sigs3 = {%(sigs3)s}
 Ctxs = {"mod", "fun"}
 WSigs = {%(wsigs)s}
 SigsW = {%(sigsw)s}
 MaxWrap = %(maxwrap)d
 MaxLW = %(maxlw)d
INVARIANT SelfCandidate
INVARIANT ResolvableUnique
INVARIANT Nesting
INVARIANT PreOrder
INVARIANT Statements
INVARIANT Wrapping
INVARIANT Emit
CHECK_DEADLOCK FALSE
"""
TIERS = {
    'quick': dict(layout=dict(budget=3, maxbody=5, maxdepth=3, units='"s4", "s2", "t1"',
                              strkinds='"plain", "raw", "bytes", "f", "rf"'),
                  lam=dict(maxl=2, sigs3='"x"', wsigs='"none", "x", "y", "va"', sigsw='"none", "x", "y", "va"',
                           maxwrap=1, maxlw=2), tlc_workers=3, procs=6),
    'thorough': dict(layout=dict(budget=4, maxbody=5, maxdepth=3, units='"s4", "s2", "t1", "t2"',
                                 strkinds='"plain", "raw", "bytes", "f", "rb", "rf"'),
                     lam=dict(maxl=3, sigs3='"x", "y", "po", "xd"',
                              wsigs='"none", "x", "y", "xy", "va", "kw"',
                              sigsw='"none", "x", "y", "va", "kw", "po"', maxwrap=1, maxlw=2),
                     tlc_workers=4, procs=8),
}
# every line kind / attribute the specification can write must occur in the enumeration (vacuity)
NEED_KINDS = {'ctx', 'deco', 'decoopen', 'decoarg', 'def1', 'defone', 'defopen', 'sigmid', 'sigclose', 'defbs',
              'sigbsend', 'code', 'open', 'comment', 'blank', 'codebs', 'contline', 'stropen', 'strmid', 'strclose'}

_W = {}


def _init_worker():
    from malt.pyct import parser, errors
    _W['parser'], _W['errors'] = parser, errors
    _W['scratch'] = os.path.join(common.BUILD, 'c15_mods')


def _layout_job(chunk):
    stats = {}
    outs = L.run_batch(_W['parser'], chunk, _W['scratch'], stats)
    return [(o.kind, o.detail) for o in outs], stats


def _lambda_job(chunk):
    stats = {}
    return M.run_batch(_W['parser'], _W['errors'], chunk, _W['scratch'], stats), stats


def _pmap(job, chunks, procs):
    if procs <= 1:
        _init_worker()
        return [job(c) for c in chunks]
    ctx = multiprocessing.get_context('fork')
    with ctx.Pool(procs, initializer=_init_worker) as pool:
        return pool.map(job, chunks, chunksize=1)


def _stable(text):
    """strip run-dependent parts (addresses, batch-local names) from messages"""
    return re.sub(r'<function .*? at 0x[0-9a-f]+>', '<lambda object>', text)


def _case_source(rec, name='f0'):
    return L.PRELUDE + '\n'.join(L.case_lines(rec, name)) + '\n'


def check_layouts(rep, recs, procs):
    recs.sort(key=lambda r: json.dumps(L.key_of(r)))
    kinds = {l['k'] for r in recs for l in r['lines']}
    if not NEED_KINDS <= kinds:
        raise common.MachineryError('vacuity: SourceLayout.tla never wrote line kinds %s' % sorted(NEED_KINDS - kinds))
    chunks = list(common.chunks(recs, L.PER_FILE))
    res = _pmap(_layout_job, chunks, procs)
    verdicts, by_key = {}, {}
    for chunk, (outs, stats) in zip(chunks, res):
        for k, v in stats.items():
            rep.add(k, v)
        for r, (kind, detail) in zip(chunk, outs):
            key = L.key_of(r)
            if key in verdicts:
                raise common.MachineryError('two derivations of one layout vector: %r' % (key,))
            verdicts[key] = L.Outcome(kind, detail)
            by_key[key] = r
    rep.validated(len(verdicts))
    rep.set('layouts', len(verdicts))
    cl = L.Classifier(verdicts)
    nfail = 0
    for r in recs:
        key = L.key_of(r)
        o = verdicts[key]
        if o.kind == 'ok':
            continue
        nfail += 1
        sig, m = cl.signature(key)
        mrec = by_key[m]
        what = ('parse_entity raises on a legal layout' if o.kind.startswith('error')
                else 'parse_entity returns a tree that differs from the compiled definition')
        rep.violation(sig, '%s; minimal failing layout has: %s' % (what, ', '.join(L.features(m)) or 'nothing special'),
                      dict(kind='layout', outcome=o.kind, detail=o.detail, module_source=_case_source(r),
                           first_line=L.PRELUDE_LINES + r['first'], vector=[list(x) for x in key[1]], unit=key[0],
                           minimal_source=_case_source(mrec), minimal_first_line=L.PRELUDE_LINES + mrec['first'],
                           minimal_outcome=verdicts[m].detail))
    rep.set('layouts_failing', nfail)
    rep.set('layout_classifier', dict(lookups=cl.lookups, not_enumerated=cl.misses))
    for r in recs[:: max(1, len(recs) // 3)][:3]:
        rep.sample(dict(layout='\n'.join(l['txt'] for l in r['lines']), logical=r['logical'], strs=r['strs']))


def check_lambdas(rep, recs, procs):
    recs.sort(key=lambda r: json.dumps(M.key_of(r)))
    chunks = list(common.chunks(recs, M.PER_FILE))
    res = _pmap(_lambda_job, chunks, procs)
    verdicts, by_key, found = {}, {}, []
    nobj = 0
    tally = collections.Counter()
    for chunk, (outs, stats) in zip(chunks, res):
        for k, v in stats.items():
            rep.add(k, v)
        for r, per in zip(chunk, outs):
            key = M.key_of(r)
            by_key[key] = r
            for i, o in enumerate(per, 1):
                nobj += 1
                tally['%s/%s' % (o[0].split(':')[0], r['exp'][i - 1])] += 1
                v = M.judge(r, i, o)
                verdicts[(key, i)] = M.violation_class(v[0]) if v else None
                if v:
                    found.append((key, i, v, o))
    rep.validated(nobj)
    rep.set('lambda_configurations', len(by_key))
    rep.set('lambda_outcomes', dict(tally))
    exps = {e for r in recs for e in r['exp']}
    if exps != {'found', 'found-or-unsupported'} or not any('semi' in r['sep'] for r in recs):
        raise common.MachineryError('vacuity: LambdaSelect.tla must produce resolvable and ambiguous lambdas and '
                                    'several statements on one line (got %s)' % sorted(exps))
    # ... and lambda objects that went through functools.wraps: with a rival that has the wrapped function's
    # parameter names and without one (resolvable and not; a decoy next to a twin needs three lambdas)
    wrapped = {(d, e) for r in recs for w, d, e in zip(r['wr'], r['decoy'], r['exp']) if w != 'no'}
    if not wrapped >= {(True, 'found'), (False, 'found'), (False, 'found-or-unsupported')}:
        raise common.MachineryError('vacuity: LambdaSelect.tla must produce wrapped lambdas with and without a rival '
                                    'named like the wrapped function (got %s)' % sorted(wrapped))
    rep.set('lambda_wrapped_with_decoy', sum(1 for r in recs for d in r['decoy'] if d))
    cl = M.Classifier(verdicts, by_key)
    for key, i, (rawsig, what), o in found:
        sig, m = cl.signature(key, i)
        r, mr = by_key[key], by_key[m]
        rep.violation(sig, _stable(what) + '; minimal failing configuration: ' + mr['text'].replace('\n    ', ' '),
                      dict(kind='lambda', config=r, index=i, outcome=list(o), local_signature=rawsig,
                           module_source=M.build_module([r])[0], minimal_module_source=M.build_module([mr])[0]))
    rep.set('lambda_classifier', dict(lookups=cl.lookups, not_enumerated=cl.misses))
    for r in recs[:: max(1, len(recs) // 2)][:2]:
        rep.sample(dict(lambdas=r['text'], expected=r['exp']))


def run(rep):
    t = TIERS[rep.tier]
    out = {}
    only = os.environ.get('C15_ONLY')        # development aid: 'layout' or 'lambda'

    def tl(name, module, cfg):
        out[name] = tlc.run_tlc(module, cfg, workers=t['tlc_workers'], timeout=1500, name=name)
    th = [threading.Thread(target=tl, args=('c15layout', 'SourceLayout', LAYOUT_CFG % t['layout'])),
          threading.Thread(target=tl, args=('c15lambda', 'LambdaSelect', LAMBDA_CFG % t['lam']))]
    if only:
        th = [x for x, nm in zip(th, ('layout', 'lambda')) if nm == only]
    for x in th:
        x.start()
    for x in th:
        x.join()
    for name in ('c15layout', 'c15lambda'):
        if only and name != 'c15' + only:
            continue
        if name not in out:
            raise common.MachineryError('TLC run %s did not complete' % name)
        out[name].require_ok(name)
        rep.add_tlc(out[name])
    scratch = common.scratch('c15_mods')
    try:
        if only != 'lambda':
            check_layouts(rep, out['c15layout'].json, t['procs'])
        if only != 'layout':
            check_lambdas(rep, out['c15lambda'].json, t['procs'])
    finally:
        common.rmtree(scratch)
    rep.set('bounds', dict(layout=t['layout'], lam=t['lam']))
    rep.assume('CPython ast.parse / compile of the rendered module is the reference for what the interpreter compiled '
               '(the specification is validated against it in the same run)')
    rep.assume('layouts are exhaustive up to the cost budget and body length; text inside lines is fixed '
               '(assignments of small integers, short string pieces)')


def replay(path):
    """Re-run one recorded witness against the current tree: exit 1 if it still fails, 0 otherwise."""
    import ast
    w = json.load(open(path))
    wit = w['witness']
    from malt.pyct import parser, errors
    scratch = common.scratch('c15_replay')
    print('signature:', w['signature'])
    print(wit['module_source'])
    try:
        mod, p = L.load_module(wit['module_source'], scratch, 'replay')
        try:
            tree = ast.parse(wit['module_source'])
            if wit['kind'] == 'layout':
                fn = L.unwrap_chain(mod.REG[0])[-1]
                node = L.def_index(tree)[wit['first_line']]
                o = L.observe(parser, fn, node)
                print('outcome:', o.kind)
                print(o.detail)
                return 0 if o.kind == 'ok' else 1
            rec = wit['config']
            res = M.run_batch(parser, errors, [rec], scratch, {})[0]
            bad = 0
            for i, o in enumerate(res, 1):
                v = M.judge(rec, i, o)
                print('lambda %d: %s %s -> %s' % (i, o[0], o[1], v[0] if v else 'conforms'))
                bad |= bool(v)
            return 1 if bad else 0
        finally:
            L.unload_module(mod, p)
    finally:
        common.rmtree(scratch)
