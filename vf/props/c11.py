"""C11 - generated names never capture, shadow or clash with user names.

(1) spec/Namer.tla, design level: new_symbol + the callers' reservation policy, invariant FreshVisible (TLC shows
    the flaw of the implemented policy on the model; the policy "reserve every identifier" satisfies it).
(2) MiniPy programs whose identifiers are drawn adversarially from the converter's own vocabulary, in every role,
    go through the C01 differential replay (spec/MiniPy.tla as oracle): binding of every user name unchanged.
(3) every call of the real Namer.new_symbol made during those conversions is recorded and validated by TLC
    against spec/TraceNamer.tla: the result is fresh w.r.t. every identifier visible to user code.
"""
import os
import json
import random

from .. import common, mpmon, mprun, tlc, skeleton, minipy as mp
from .. import replay as rp

VOCAB = ['do_return', 'retval_', 'break_', 'continue_', 'fscope', 'lscope', 'get_state', 'set_state', 'if_body',
         'else_body', 'loop_body', 'loop_test', 'extra_test', 'itr', 'vars_', 'block_vars', 'function_context']
KEEP = {'T', 'D', 'I', 'CM', 'E1', 'E2'}

DCFG = """SPECIFICATION DSpec
CONSTANTS Roots = {"do_return", "retval_"}
 MaxN = 2
 Policy = "%s"
INVARIANT FreshVisible
INVARIANT FreshReserved
CHECK_DEADLOCK FALSE
"""
TCFG = "SPECIFICATION TSpec\nINVARIANT TReport\nCHECK_DEADLOCK FALSE\n"


def rename(p, rnd, m=None):
    """Injectively rename the program's identifiers (not the tracers) to converter vocabulary (+ numbered variants)."""
    if m is None:
        idents = [n for n in p['names'] if n not in KEEP and n != p['fns'][0]['name']]
        pool = []
        for v in VOCAB:
            pool += [v, v + '_1', v + '_2'] if rnd.random() < 0.5 else [v]
        rnd.shuffle(pool)
        m = dict(zip(idents, pool))
    q = json.loads(json.dumps(p))
    q['renaming'] = m

    def r(x):
        return m.get(x, x)
    for d in q['nodes']:
        d['tgt'] = [r(x) for x in d['tgt']]
        d['args'] = [r(x) for x in d['args']]
        d['name'] = r(d['name']) if d['name'] else ''
    for x in q['exprs']:
        x['reads'] = [r(y) for y in x['reads']]
        x['name'] = r(x['name']) if x['name'] else ''
    for f in q['fns'][1:]:
        f['name'] = r(f['name'])
    for f in q['fns']:
        f['params'] = [r(x) for x in f['params']]
        f['nonlocals'] = [r(x) for x in f['nonlocals']]
    return mp.finish_program(q)


def own_identifiers(p, fid):
    """Identifiers of function fid's own scope (not of functions nested in it): {name: roles}."""
    f = p['fns'][fid - 1]
    out = {}

    def add(nm, role):
        out.setdefault(nm, set()).add(role)
    for nm in f['params']:
        add(nm, 'param')
    exprs = set()

    def walk_e(e):
        if e and e not in exprs:
            exprs.add(e)
            for a in p['exprs'][e - 1]['args']:
                walk_e(a)
    for d in p['nodes']:
        if d['fn'] != fid:
            continue
        for nm in d['tgt']:
            add(nm, 'written')
        if d['kind'] == 'with' and d['name']:
            add(d['name'], 'written')
        if d['kind'] == 'def':
            add(d['name'], 'function')
        for nm in d['args']:
            add(nm, 'read')
        if d['kind'] == 'call':
            add(d['name'], 'read')
        for h in d['handlers']:
            if h.get('name'):
                add(h['name'], 'written')
        walk_e(d['e'])
    for e in exprs:
        x = p['exprs'][e - 1]
        for nm in x['reads']:
            add(nm, 'read')
        if x['name']:
            add(x['name'], 'read')
    return {k: v for k, v in out.items() if k not in KEEP}


def adversarial_variants(p, generated, rnd, k):
    """Rename one user identifier to a name the converter really generated for the same function."""
    out = []
    cands = []
    for fname, gens in generated.items():
        fid = next((i + 1 for i, f in enumerate(p['fns']) if f['name'] == fname), 0)
        if not fid:
            continue
        ids = own_identifiers(p, fid)
        for u, roles in ids.items():
            if u == p['fns'][0]['name']:
                continue
            for g in sorted(set(gens)):
                if g in p['names']:
                    continue
                # identifiers that are never read are the hard case for a namer that reserves what is read
                weight = 3 if 'read' not in roles else 1
                weight += 2 if fid != 1 else 0
                cands.append((weight, u, g))
    rnd.shuffle(cands)
    cands.sort(key=lambda c: -c[0])
    seen = set()
    for w, u, g in cands:
        if (u, g) in seen:
            continue
        seen.add((u, g))
        out.append(rename(p, None, {u: g}))
        if len(out) >= k:
            break
    return out


def programs(tier, seed):
    rnd = random.Random(seed)
    sk, r1 = skeleton.enumerate_skeletons(4, 3, 2)
    step = 3 if tier == 'quick' else 1
    progs = skeleton.decorated(sk[seed % step::step], 1 if tier == 'quick' else 2, seed + 11)
    sk2, r2 = skeleton.enumerate_skeletons(3 if tier == 'quick' else 4, 2, 2, funcs=True)
    progs += skeleton.decorated([s for s in sk2 if 'def' in s], 1, seed + 12)
    progs += mprun.random_programs(200 if tier == 'quick' else 3000, seed + 13, lo=2, hi=3, maxdepth=3)
    base = [p for p in progs if len(p['nodes']) <= 45]
    # (a) random renaming into the converter vocabulary
    neutral = list(base)
    renamed = [rename(p, rnd) for p in base]
    # (b) adversarial renaming guided by the names the real converter generates for the neutral program
    dummy = [dict(pid=i + 1, dec=[], oc=True) for i in range(len(base))]
    rp.replay_all(base, dummy, [dict(rp.OPTION_SETS[0], namer=True)], name='c11gen')
    gen = {}
    for pid, calls in rp.replay_all.namer.items():
        for root, reserved, res, fname in calls:
            gen.setdefault(pid, {}).setdefault(fname, []).append(res)
    for i, p in enumerate(base):
        for q in adversarial_variants(p, gen.get(i + 1, {}), rnd, 2 if tier == 'quick' else 4):
            neutral.append(p)
            renamed.append(q)
    return renamed, neutral, [r1, r2]


def subtree(p, fid):
    out = {fid}
    changed = True
    while changed:
        changed = False
        for i, f in enumerate(p['fns']):
            if f['parent'] in out and i + 1 not in out:
                out.add(i + 1)
                changed = True
    return out


def user_identifiers(p, fname=''):
    """Identifiers visible to user code in function `fname` (used in it or in functions nested in it); '' = whole program."""
    fid = next((i + 1 for i, f in enumerate(p['fns']) if f['name'] == fname), 0)
    if not fid:
        return sorted(set(p['names']) | KEEP)
    fids = subtree(p, fid)
    names = set(KEEP)
    for f in fids:
        names |= set(p['fns'][f - 1]['params']) | set(p['fns'][f - 1]['nonlocals'])
        if f != fid:
            names.add(p['fns'][f - 1]['name'])
    nodes = {i + 1 for i, d in enumerate(p['nodes']) if d['fn'] in fids}
    exprs = set()

    def walk_e(e):
        if e and e not in exprs:
            exprs.add(e)
            for a in p['exprs'][e - 1]['args']:
                walk_e(a)
    for n in nodes:
        d = p['nodes'][n - 1]
        names |= set(d['tgt']) | set(d['args'])
        if d['name']:
            names.add(d['name'])
        walk_e(d['e'])
    for e in exprs:
        x = p['exprs'][e - 1]
        names |= set(x['reads'])
        if x['name']:
            names.add(x['name'])
    return sorted(names)


def blame(neutral, renamed, d, opt):
    """Which single renamed identifier reproduces the divergence on its own? (delta debugging over the renaming)"""
    m = renamed['renaming']
    culprits = []
    for old, new in sorted(m.items()):
        q = rename(neutral, None, {old: new})
        div, n, errs = rp.replay_all([q], [dict(d['rec'], pid=1)], [opt], procs=1, name='c11blame')
        if div or errs:
            culprits.append((new, roles(q, new)))
    return culprits


def classify_div(p, d):
    i = 0
    e, o = d['exp_log'], d['obs_log']
    while i < len(e) and i < len(o) and e[i] == o[i]:
        i += 1
    obs = d['observed']
    okind = obs[0] if obs[0] != 'exc' else 'exc:' + obs[1].split(':')[0:2][-1]
    return 'c11:diverge:%s:%s->%s' % (d['why'], d['expected'][0], okind)


def run(rep):
    tier = rep.tier
    # (1) design level
    r_flaw = tlc.run_tlc('Namer', DCFG % 'referenced', workers=4, timeout=300, name='namer_ref')
    rep.add_tlc(r_flaw)
    r_ok = tlc.run_tlc('Namer', DCFG % 'all', workers=4, timeout=300, name='namer_all')
    rep.add_tlc(r_ok)
    if not r_ok.ok:
        raise common.MachineryError('Namer.tla with Policy=all should satisfy FreshVisible:\n' + r_ok.stdout[-1500:])
    # the model documents why reserving only the names that are READ is not enough; which policy the code
    # implements is decided on the code itself by (2) and (3), not here
    if 'FreshVisible' not in r_flaw.violated:
        raise common.MachineryError('Namer.tla with Policy=referenced is expected to violate FreshVisible (vacuity check)')
    rep.set('design_level', dict(policy_all='FreshVisible holds (%d states)' % r_ok.distinct,
                                 policy_referenced='FreshVisible violated: a write-only user identifier is returned',
                                 counterexample=[t for h, t in tlc.parse_trace_states(r_flaw.stdout)][:2]))
    # (2) adversarial identifiers through the C01 replay
    progs, neutral, tlcs = programs(tier, common.seed())
    for r in tlcs:
        rep.add_tlc(r)
    res, wd2 = mprun.explore(progs, bounds=mpmon.bounds(tier), name='c11', timeout=3000)
    rep.add_tlc(res)
    recs = res.json
    mprun.validate_model(progs, recs)
    opts = [dict(rp.OPTION_SETS[0], namer=True)]
    div, nrun, errs = rp.replay_all(progs, recs, opts, name='c11')
    rep.set('programs', len(progs))
    rep.set('executions', len(recs))
    rep.set('converted_runs', nrun)
    rep.validated(nrun)
    byrec = {(r['pid'], tuple(r['dec'])): r for r in recs}
    # conversion errors and divergences that the neutral twin shows as well are C01's business, not a naming problem
    bad_pids = sorted({d['pid'] for d in div} | {e['pid'] for e in errs})
    twin_recs = [r for r in recs if r['pid'] in bad_pids]
    tdiv, tn, terrs = rp.replay_all(neutral, twin_recs, [rp.OPTION_SETS[0]], name='c11twin') if twin_recs else ([], 0, [])
    twin_bad = {(d['pid'], tuple(d['dec'])) for d in tdiv}
    twin_err = {e['pid'] for e in terrs}
    seen_pid = set()
    for e in errs:
        if e['pid'] in twin_err or e['pid'] in seen_pid:
            continue
        seen_pid.add(e['pid'])
        p = progs[e['pid'] - 1]
        rec0 = next(r for r in recs if r['pid'] == e['pid'])
        cul = blame(neutral[e['pid'] - 1], p, dict(rec=rec0), rp.OPTION_SETS[0])
        who = '+'.join('%s(%s)' % (base_root(n), r) for n, r in cul) or 'combination'
        rep.violation('c11:conversion-error:%s' % who, 'conversion fails because of the user identifier %s: %s' % (who, e['error'][:200]),
                      dict(source=mp.render(p)[0], error=e['error'], culprits=cul))
    for d in div:
        if (d['pid'], tuple(d['dec'])) in twin_bad or d['pid'] in seen_pid:
            continue
        seen_pid.add(d['pid'])      # one blame analysis per program
        p = progs[d['pid'] - 1]
        d['rec'] = byrec[(d['pid'], tuple(d['dec']))]
        cul = blame(neutral[d['pid'] - 1], p, d, rp.OPTION_SETS[0])
        who = '+'.join(sorted({'%s(%s)' % (base_root(n), r) for n, r in cul})) or 'combination'
        rep.violation('c11:capture:%s' % who,
                      'a user identifier equal to a converter name changes behaviour: %s; expected %s observed %s' % (who, d['expected'], d['observed']),
                      dict(source=mp.render(p)[0], decisions=d['dec'], expected=d['expected'], observed=d['observed'], culprits=cul))
    # (3) trace validation of new_symbol calls
    calls = rp.replay_all.namer
    traces, meta = [], []
    for pid, cs in sorted(calls.items()):
        p = progs[pid - 1]
        byfn = {}
        for c in cs:
            byfn.setdefault(c[3], []).append(c[:3])
        for fname, fcs in sorted(byfn.items()):
            traces.append(dict(user=user_identifiers(p, fname), namespace=sorted(KEEP), calls=fcs))
            meta.append(pid)
    wd = common.scratch('c11_%d' % os.getpid())
    tf = os.path.join(wd, 'traces.json')
    with open(tf, 'w') as f:
        json.dump(traces, f)
    tres = tlc.run_tlc('TraceNamer', TCFG, env=dict(TRACE_FILE=tf), workers=16, timeout=1200, name='c11tr').require_ok('TraceNamer')
    rep.add_tlc(tres)
    verdicts = {v['tid']: v['bad'] for v in tres.json if isinstance(v, dict) and 'tid' in v}
    if len(verdicts) != len(traces):
        raise common.MachineryError('TraceNamer returned %d verdicts for %d traces' % (len(verdicts), len(traces)))
    rep.validated(len(traces))
    rep.set('new_symbol_calls_validated', sum(len(t['calls']) for t in traces))
    for i, pid in enumerate(meta):
        bad = verdicts[i + 1]
        if bad:
            p = progs[pid - 1]
            kind, name = bad.split(':', 1)
            role = roles(p, name)
            rep.violation('c11:namer:%s:%s(%s)' % (kind, base_root(name), role), 'new_symbol returned %r which is an identifier of the user function (%s)' % (name, role),
                          dict(source=mp.render(p)[0], calls=traces[i]['calls']))
    for p in progs[:2]:
        rep.sample(dict(source=mp.render(p)[0]))
    common.rmtree(wd)
    common.rmtree(wd2)


def base_root(name):
    pieces = name.split('_')
    return '_'.join(pieces[:-1]) if pieces[-1].isdigit() else name


def roles(p, name):
    """How the user program uses an identifier: read / written / param / function name / nonlocal."""
    rs = set()
    for d in p['nodes']:
        if name in d['tgt'] or (d['kind'] == 'with' and d['name'] == name):
            rs.add('written')
        if d['kind'] == 'def' and d['name'] == name:
            rs.add('function')
        if name in d['args'] or (d['kind'] == 'call' and d['name'] == name):
            rs.add('read')
    for x in p['exprs']:
        if name in x['reads'] or x['name'] == name:
            rs.add('read')
    for f in p['fns']:
        if name in f['params']:
            rs.add('param')
    return '+'.join(sorted(rs)) or 'unused'


def replay(path):
    w = json.load(open(path))
    print(w['witness'].get('source', ''))
    print(w['what'])
    return 0
