"""C02 - functional (tracing) operator backends see complete state.

spec/MiniPy.tla (pure profile: ints, arithmetic tests, counted loops, closures) is the oracle: TLC enumerates
every program of the batch on every input tuple and predicts the return value; the function converted by
the real malt is run with the tracing-style backend of vf/tracing.py and must return the same value.
"""
import os
import json
import multiprocessing
import signal

from .. import common, mprun, minipy as mp


class _Timeout(BaseException):
    pass


def _on_alarm(*a):
    raise _Timeout()


def _chunk(args):
    progs, recs, wdroot = args
    common.use_repo()
    signal.signal(signal.SIGALRM, _on_alarm)
    from .. import tracing
    from .. import replay as rp
    from malt.core import converter
    wd = os.path.join(wdroot, 'w%d' % os.getpid())
    os.makedirs(wd, exist_ok=True)
    T = tracing.make_transpiler()
    opts = converter.ConversionOptions(recursive=True, user_requested=True, optional_features=None)
    cache, out, n, skipped, errs = {}, [], 0, 0, []
    mods = {}
    for rec in recs:
        pid = rec['pid']
        p = progs[pid - 1]
        if pid not in cache:
            m = rp.load_module(p, pid, wd)
            mods[pid] = m
            fn = getattr(m, p['fns'][0]['name'])
            try:
                g, _, _ = T.transform(fn, converter.ProgramContext(options=opts))
            except Exception as e:
                g = None
                errs.append(dict(pid=pid, error='%s: %s' % (type(e).__name__, str(e)[:200])))
            cache[pid] = g
        g = cache[pid]
        if g is None:
            continue
        try:
            tracing.reset_budget()
            rp.world([], mods[pid])     # fresh external world (object factory O) for this run
            rp.reset_globals(mods[pid], progs[pid - 1])
            signal.setitimer(signal.ITIMER_REAL, 2.0)      # speculative runs can square big integers for ever
            msg = ''
            try:
                try:
                    obs = ['ret', mp.enc(g(*list(rec['inp'])))]
                except NameError as e:
                    obs = ['exc', 'NameError']
                    msg = str(e)
                except tracing.BackendDiverged:
                    raise
                except Exception as e:
                    obs = mp.outcome(lambda: (_ for _ in ()).throw(e), [])
            finally:
                signal.setitimer(signal.ITIMER_REAL, 0)
        except (tracing.BackendDiverged, _Timeout):
            skipped += 1
            continue
        if obs[0] == 'exc' and 'BackendDiverged' in str(obs):
            skipped += 1
            continue
        n += 1
        exp = mp.spec_outcome(rec)
        if obs == exp and exp[0] == 'ret' and mp.globals_now(progs[pid - 1], mods[pid]) != rec.get('gl', []):
            obs = ['ret', obs[1], 'module-level variables', mp.globals_now(progs[pid - 1], mods[pid])]
            exp = ['ret', exp[1], 'module-level variables', rec.get('gl', [])]
        if obs != exp:
            out.append(dict(pid=pid, inp=rec['inp'], expected=exp, observed=obs, msg=msg))
    return dict(div=out, n=n, skipped=skipped, errs=errs)


def rebound_only_through_callee(p):
    """Some if/loop body calls a local function that changes - through `nonlocal` or by mutating an attribute of an
    enclosing object - state the body itself does not assign.  Returns 'nonlocal', 'attribute' or None."""
    from .. import mpsig
    par = mpsig.parents(p)
    byname = {f['name']: i for i, f in enumerate(p['fns'], 1)}
    direct = {}      # fid -> (names written through nonlocal, attributes written)
    callees = {}
    for i, f in enumerate(p['fns'], 1):
        nl = set(f['nonlocals'])
        w, aw, cs = set(), set(), set()
        for d in p['nodes']:
            if d['fn'] == i:
                w |= set(d['tgt']) & nl
                if d['kind'] == 'setattr':
                    aw.add('%s.%s' % (d['name'], d['attr']))
                if d['kind'] == 'call' and d['name'] in byname:
                    cs.add(byname[d['name']])
        direct[i] = (w, aw)
        callees[i] = cs

    def closure(i, seen=()):
        w, aw = set(direct[i][0]), set(direct[i][1])
        for c in callees[i]:
            if c not in seen and c != i:
                w2, a2 = closure(c, seen + (i,))
                w |= w2
                aw |= a2
        return w, aw
    for n, d in enumerate(p['nodes'], 1):
        if d['kind'] != 'call':
            continue
        target = byname.get(d['name'])
        if target is None:       # call through an alias: any local function may be meant
            cands = [i for i in direct if i != 1]
        else:
            cands = [target]
        for c in cands:
            w, aw = closure(c)
            if not w and not aw:
                continue
            for k, sec, q in mpsig.path(p, n, par):
                if k in ('if', 'while', 'for'):
                    own = {m for m in range(1, len(p['nodes']) + 1) if any(qq == q for _, _, qq in mpsig.path(p, m, par))}
                    assigned, aassigned = set(), set()
                    for m in own:
                        assigned |= set(p['nodes'][m - 1]['tgt'])
                        if p['nodes'][m - 1]['kind'] == 'setattr':
                            aassigned.add('%s.%s' % (p['nodes'][m - 1]['name'], p['nodes'][m - 1]['attr']))
                    if w - assigned:
                        return 'nonlocal'
                    if aw - aassigned:
                        return 'attribute'
            # return lowering moves everything after a conditional `return` into the else branch of that conditional:
            # a call that follows an `if` containing a return is then inside a functionalised branch as well
            fn = d['fn']
            early = any(dd['kind'] == 'return' and dd['fn'] == fn and mpsig.path(p, m, par)
                        for m, dd in enumerate(p['nodes'], 1) if m < n)
            if early:
                return 'nonlocal' if w else 'attribute'
            # break / continue lowering does the same inside a loop body: what follows a statement that contains the jump
            # is wrapped in a guard conditional, whose state tuple knows only what that guarded part assigns itself
            loops = [q for k, sec, q in mpsig.path(p, n, par) if k in ('while', 'for')]
            if loops:
                inner = loops[-1]
                jumped = any(dd['kind'] in ('break', 'continue') and m < n and
                             [q for k, sec, q in mpsig.path(p, m, par) if k in ('while', 'for')][-1:] == [inner]
                             for m, dd in enumerate(p['nodes'], 1))
                if jumped:
                    return 'nonlocal' if w else 'attribute'
    return None


def unassigned_body_local(p, msg):
    """NameError 'cannot access free variable v ...': v is assigned both directly in the block of an if/loop body and inside a
    compound statement nested in that block - the generated body function makes v its own local (v is dead outside), and
    the nested statement's state getter reads it before the first assignment."""
    import re
    from .. import mpsig
    m = re.search(r"free variable '(\w+)'|local variable '(\w+)'|name '(\w+)'", msg)
    if not m:
        return None
    v = m.group(1) or m.group(2) or m.group(3)
    par = mpsig.parents(p)
    direct = {}      # (compound stmt, section) -> names assigned directly in that block
    nested = {}      # (compound stmt, section) -> names assigned in compound statements nested in that block
    for n, d in enumerate(p['nodes'], 1):
        names = set(d['tgt'])
        if not names:
            continue
        path = mpsig.path(p, n, par)
        for i, (k, sec, q) in enumerate(path):
            if k in ('if', 'while', 'for'):
                key = (q, sec)
                if i == len(path) - 1:
                    direct.setdefault(key, set()).update(names)
                else:
                    nested.setdefault(key, set()).update(names)
    for key in direct:
        if v in direct[key] and v in nested.get(key, ()):
            return v
    return None


def run(rep):
    tier = rep.tier
    seed = common.seed()
    nprog = 700 if tier == 'quick' else 8000
    progs = [mp.gen_pure(seed * 100003 + i, maxdepth=3 if tier == 'quick' else 4) for i in range(nprog)]
    # closure-heavy programs: local functions reached through aliases / other local functions, called after a statement
    # that rebinds what they read
    progs += [mp.gen_pure(seed * 100003 + 50000 + i, maxdepth=3, closure_heavy=True, lo=1, hi=3) for i in range(nprog // 3)]
    bounds = dict(MaxTrip=3, MaxSteps=90, IntMax=2) if tier == 'quick' else dict(MaxTrip=4, MaxSteps=140, IntMax=3)
    res, wd2 = mprun.explore(progs, bounds=bounds, name='c02', timeout=3000)
    rep.add_tlc(res)
    recs = res.json
    mprun.validate_model(progs, recs)
    # class predicate "definitely assigned before every read": no execution of the program raises within the bounds
    outside = {r['pid'] for r in recs if mp.spec_outcome(r)[0] != 'ret'}
    recs = [r for r in recs if r['pid'] not in outside]
    rep.set('programs_generated', len(progs))
    rep.set('programs_in_class', len({r['pid'] for r in recs}))
    rep.set('executions', len(recs))
    wdroot = common.scratch('c02_%d' % os.getpid())
    bypid = {}
    for r in recs:
        bypid.setdefault(r['pid'], []).append(r)
    nparts = max(1, min(14, len(bypid)))
    parts = [[] for _ in range(nparts)]
    for i, pid in enumerate(sorted(bypid)):
        parts[i % nparts].extend(bypid[pid])
    with multiprocessing.get_context('fork').Pool(nparts) as pool:
        results = pool.map(_chunk, [(progs, part, wdroot) for part in parts])
    common.rmtree(wdroot)
    common.rmtree(wd2)
    n = sum(r['n'] for r in results)
    rep.validated(n)
    rep.set('backend_runs', n)
    rep.set('backend_runs_not_judged_speculative_loop_cap', sum(r['skipped'] for r in results))
    for r in results:
        for e in r['errs']:
            rep.violation('c02:conversion-error:%s' % e['error'].split(':')[0], 'conversion failed: ' + e['error'],
                          dict(source=mp.render(progs[e['pid'] - 1])[0]))
        for d in r['div']:
            p = progs[d['pid'] - 1]
            sig = 'c02:result:%s->%s' % (d['expected'][0], d['observed'][0] if d['observed'][0] != 'exc' else 'exc:' + d['observed'][1].split(':')[0:2][-1])
            how = rebound_only_through_callee(p)
            v = unassigned_body_local(p, d.get('msg', ''))
            if v:
                how = None
                sig = 'c02:state:getter-reads-variable-local-to-generated-body-before-assignment'
            if how == 'nonlocal':
                sig = 'c02:state:variable-rebound-only-through-nested-function-nonlocal'
            elif how == 'attribute':
                sig = 'c02:state:attribute-mutated-only-through-nested-function'
            rep.violation(sig,
                          'tracing backend computes %s, the original computes %s' % (d['observed'], d['expected']),
                          dict(source=mp.render(p)[0], inputs=d['inp'], expected=d['expected'], observed=d['observed']))
    for p in progs[:2]:
        rep.sample(dict(source=mp.render(p)[0]))
    rep.assume('the tracing backend of vf/tracing.py is a faithful instance of the backend the property describes (both branches from the same state, loop body once out of band, state re-injected before every iteration)')
    rep.assume('pure profile: ints, + - *, comparisons, and/or/not tests, counted while loops, for over range, closures with nonlocal; attribute/subscript state not generated yet')


def replay(path):
    w = json.load(open(path))
    print(w['witness']['source'])
    print(w['what'], 'inputs', w['witness'].get('inputs'))
    return 0
