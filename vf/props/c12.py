"""C12 - errors in converted code are reported at the original source location.

Decided by spec/ErrorMap.tla.  TLC enumerates (BFS, small bounds) and samples (-simulate, larger bounds)
scenarios - call chain x nesting contexts x failing statement - runs the transcription of the error
rewriting (converted_call's except clause, _stack_trace_inside_mapped_code, ErrorMetadataBase.__init__,
create_exception) on its model of the converted run's traceback, checks the property clauses as
invariants and prints, per scenario, the original function's own traceback and the expected outcome.

This harness renders every scenario to real module files (vf/c12_render.py), then
  1. model validation (CPython): runs the *unconverted* f1(p, 1); its user-module traceback, exception
     type, message and `__init__` class must be what the specification says  -> else MachineryError;
  2. runs malt.convert(recursive=True)(f1)(p, 1) and compares type class / message containment /
     user frames of e.ag_error_metadata.translated_stack with the specification;
     the class sequence of the real converted-run traceback must be the specification's (model of the
     runtime validated, MachineryError otherwise);
  3. replays every scan TLC performed (each catch site of each scenario, and in `frames` mode every
     sequence of <= 5 frames over four frame classes) into the real _stack_trace_inside_mapped_code
     with hand-built frame tuples - output equality;
  4. checks every entry of to_graph(fi).ag_source_map against the statement table of the renderer.
"""
import importlib
import json
import os
import re
import sys
import tempfile
import traceback

from .. import common, tlc
from .. import c12_render as R

ALL_CTX = ['if', 'else', 'for', 'while', 'with', 'try', 'fin']
ALL_TAILS = ['UE', 'CE', 'VE0', 'VE2', 'RE1', 'hdr']
ALL_LINKS = ['conv', 'dnc', 'allow', 'nested']
ALL_PRES = ['lam', 'def', 'deflam']

CFG = '''SPECIFICATION Spec
CONSTANT Mode = "%(mode)s"
CONSTANT MinChain = %(minchain)d
CONSTANT MaxChain = %(maxchain)d
CONSTANT MaxNestCaller = %(maxcaller)d
CONSTANT CallerCtxs = {%(callerctxs)s}
CONSTANT MinNestInner = %(mininner)d
CONSTANT MaxNestInner = %(maxinner)d
CONSTANT InnerCtxs = {%(innerctxs)s}
CONSTANT Tails = {%(tails)s}
CONSTANT Links = {%(links)s}
CONSTANT Pres = {%(pres)s}
CONSTANT MaxPre = %(maxpre)d
CONSTANT Ks = {%(ks)s}
CONSTANT PreU = %(preu)d
CONSTANT PreA = %(prea)d
CONSTANT MaxFrames = %(maxframes)d
INVARIANT InnermostNamed
INVARIANT FramesOfOriginal
INVARIANT OnePerConverted
INVARIANT TypeRule
INVARIANT MessageKept
INVARIANT ScanAssert
INVARIANT ScopesBalanced
INVARIANT Expect
CHECK_DEADLOCK FALSE
'''


def _q(xs):
    return ', '.join('"%s"' % x for x in xs)


def _cfg(**kw):
    p = dict(mode='scenario', minchain=1, maxchain=2, maxcaller=1, callerctxs=_q(ALL_CTX), mininner=0, maxinner=1,
             innerctxs=_q(ALL_CTX), tails=_q(ALL_TAILS), links=_q(['conv', 'dnc', 'allow']),
             pres=_q(ALL_PRES), maxpre=0, ks='1, 2, 3, 4, 5, 6, 7',
             preu=len(R.PRE_U), prea=len(R.PRE_A), maxframes=5)
    for k, v in kw.items():
        if k == 'ks':
            p[k] = ', '.join(str(x) for x in v)
        else:
            p[k] = _q(v) if isinstance(v, (list, tuple)) else v
    return CFG % p


# --------------------------------------------------------------------------------------------------
# tiers: (name, cfg kwargs, simulate or None)
# --------------------------------------------------------------------------------------------------
def _plans(tier):
    if tier == 'quick':
        return [
            ('bfs-depth1', dict(maxchain=1, maxinner=1), None),
            ('bfs-depth2', dict(minchain=2, maxchain=2, maxcaller=1, callerctxs=['if', 'for', 'with'], maxinner=1,
                                innerctxs=['else', 'while', 'try', 'fin']), None),
            # scopes: nested defs on the call path, preludes of lambdas / local defs, exhaustively for chains <= 2
            ('bfs-scopes', dict(minchain=1, maxchain=2, maxcaller=1, callerctxs=['if', 'with'], maxinner=1,
                                innerctxs=['for', 'try'], links=['conv', 'nested'], maxpre=1, tails=['UE'], ks=[2, 7]), None),
            ('sim-deep', dict(minchain=3, maxchain=4, maxcaller=2, mininner=1, maxinner=3, links=ALL_LINKS, maxpre=2),
             dict(num=300, depth=500)),
            ('sim-nest', dict(minchain=1, maxchain=2, maxcaller=2, mininner=2, maxinner=3, links=ALL_LINKS, maxpre=2),
             dict(num=150, depth=500)),
        ]
    return [
        ('bfs-depth1', dict(maxchain=1, maxinner=2), None),
        ('bfs-depth2', dict(minchain=2, maxchain=2, maxcaller=1, maxinner=1), None),
        ('bfs-depth3', dict(minchain=3, maxchain=3, maxcaller=1, callerctxs=['if', 'while', 'with'], maxinner=1,
                            innerctxs=['for', 'else', 'try', 'fin']), None),
        ('bfs-scopes', dict(minchain=1, maxchain=2, maxcaller=1, callerctxs=['if', 'for', 'with'], maxinner=1,
                            innerctxs=['else', 'while', 'try'], links=ALL_LINKS, maxpre=1, tails=['UE', 'hdr'], ks=[2, 7]), None),
        ('sim-deep', dict(minchain=3, maxchain=4, maxcaller=2, mininner=1, maxinner=3, links=ALL_LINKS, maxpre=3),
         dict(num=12000, depth=600)),
        ('sim-nest', dict(minchain=1, maxchain=3, maxcaller=2, mininner=2, maxinner=3, links=ALL_LINKS, maxpre=3),
         dict(num=8000, depth=600)),
    ]


# --------------------------------------------------------------------------------------------------
# module management
# --------------------------------------------------------------------------------------------------
class Modules(object):
    def __init__(self, root, base=0):
        self.root = root
        self.base = base      # module ids (hence code objects) must be unique within a process: see Modules.get
        self.n = 0
        self.cache = {}
        os.makedirs(os.path.join(root, 'c12allow'), exist_ok=True)
        open(os.path.join(root, 'c12allow', '__init__.py'), 'w').close()
        sys.modules.pop('c12allow', None)
        sys.path.insert(0, root)
        importlib.invalidate_caches()
        self.loaded = []

    def get(self, chain, nest, tail, fresh=False, modid=None, pre=None):
        key = json.dumps([chain, nest, tail, pre])
        if not fresh and key in self.cache:
            return self.cache[key]
        self.n += 1
        r = R.render(chain, nest, tail, modid=self.base + self.n if modid is None else modid, pre=pre)
        uname = 'c12u_%d' % self.n
        aname = 'c12allow.m%d' % self.n
        upath = os.path.join(self.root, uname + '.py')
        apath = os.path.join(self.root, 'c12allow', 'm%d.py' % self.n)
        with open(upath, 'w') as f:
            f.write(r['U'])
        with open(apath, 'w') as f:
            f.write(r['A'])
        importlib.invalidate_caches()
        U = importlib.import_module(uname)
        A = importlib.import_module(aname)
        self.loaded += [uname, aname]
        for nm in R.EXC_NAMES + ['CM', 'dnc']:
            setattr(A, nm, getattr(U, nm))
        fobj = []
        for i, fn in enumerate(r['fns'], 1):
            m = U if fn['file'] == 'U' else A
            fobj.append(None if fn['nested'] else getattr(m, 'f%d' % i))    # a nested def exists only while its caller runs
        for i, fn in enumerate(r['fns'], 1):      # callee visible from the caller's module
            if i > 1 and not fn['nested']:
                m = U if r['fns'][i - 2]['file'] == 'U' else A
                setattr(m, 'f%d' % i, fobj[i - 1])
        mod = dict(U=U, A=A, upath=upath, apath=apath, fobj=fobj, r=r, key=key, checked_map=False,
                   files={upath: 'U', apath: 'A'}, chain=chain, nest=nest, tail=tail, pre=pre)
        if not fresh:
            self.cache[key] = mod
        return mod

    def close(self):
        for nm in self.loaded + ['c12allow']:
            sys.modules.pop(nm, None)
        if self.root in sys.path:
            sys.path.remove(self.root)


# --------------------------------------------------------------------------------------------------
# helpers
# --------------------------------------------------------------------------------------------------
def _witness(rec, mod, extra=None):
    w = dict(chain=rec['chain'], nest=rec['nest'], pre=rec['pre'], tail=rec['tail'], k=rec['k'], prior=rec['prior'],
             kind=rec['kind'], source_U=mod['r']['U'], source_A=mod['r']['A'],
             run="p = vf.c12_render.inputs(k, tail); malt.convert(recursive=True)(U.f1)(p, 1)",
             expected=dict(type=rec['demanded'], orig=rec['orig'], stack=rec['stack']))
    if extra:
        w.update(extra)
    return w


def _shape(rec):
    eff = rec['conv']
    tailconv = 'allconv' if all(eff) else 'unconverted-tail'
    where = 'hdr' if (rec['tail'] == 'hdr' and rec['k'] == 7) else 'stmt'
    return '%s:%s:%s' % (tailconv, where, 'prior' if rec['prior'] else 'fresh')


def _scopes(rec):
    """Which kinds of scopes the functions of the scenario contain (for messages and signatures)."""
    s = sorted({kd for p in rec['pre'] for kd in p} | ({'nested'} if 'nested' in rec['chain'] else set()))
    return '+'.join(s) or 'plain'


def _name_class(name):
    """Whose name a frame / origin carries instead of its own function's (stable part of a signature)."""
    if name == '<lambda>':
        return 'of-a-lambda'
    if re.match(r'^h\d+$', name or ''):
        return 'of-a-local-def'
    if re.match(r'^f\d+$', name or ''):
        return 'of-another-function-of-the-chain'
    return 'unknown-name'


def _unwrap(f):
    while hasattr(f, '__wrapped__'):
        f = f.__wrapped__
    return f


def _user_frames(tb, files):
    return [[files[f.filename], f.name, f.lineno] for f in tb if f.filename in files]


class Runner(object):
    def __init__(self, rep, mods):
        import malt
        from malt.impl import api
        from malt.pyct import error_utils, origin_info
        self.malt, self.api, self.eu, self.oi = malt, api, error_utils, origin_info
        self.rep = rep
        self.mods = mods
        self.api_file = api.__file__
        self.scan_cache = {}
        self.flag_mismatch = 0
        self.n_scans = 0
        self.n_maps = 0
        self.n_entries = 0
        self.gen_dir = os.path.join(mods.root, 'gen')

    # ---- 3. the scan transcription against the real function -------------------------------------
    def check_scan(self, tb, amap, res, origin):
        key = json.dumps([tb, amap], sort_keys=True)
        exp = [[r['file'], r['fn'], r['line'], r['conv'], r['allow']] for r in res]
        if key in self.scan_cache:
            got = self.scan_cache[key]
        else:
            def path(f):
                return self.api_file if f == 'API' else '/abstract/%s.py' % f
            tuples = [(path(f['file']), f['line'], f['fn'], 'code %s %d' % (f['file'], f['line'])) for f in tb]
            smap = {}
            for e in amap:
                smap[self.oi.LineLocation(path(e['gfile']), e['gline'])] = self.oi.OriginInfo(
                    self.oi.Location(path(e['file']), e['line'], 0), e['fn'], 'orig code', None)
            try:
                out = self.eu._stack_trace_inside_mapped_code(tuples, smap, self.api_file)
            except Exception as e:    # the transcription never fails (ScanAssert is an invariant of the model)
                classes = ''.join(self._cls(f, amap) for f in tb)
                self.rep.violation('c12:scan-raises:%s' % classes,
                                   '_stack_trace_inside_mapped_code raises %r on frame classes %s' % (e, classes),
                                   dict(origin=origin, tb=tb, source_map=amap, expected=exp))
                return
            inv = {path(x): x for x in ('U', 'A', 'INT', 'API', 'G1', 'G2', 'G3', 'G4')}
            got = [[inv.get(f.filename, f.filename), f.function_name, f.lineno, bool(f.is_converted),
                    bool(f.is_allowlisted)] for f in out]
            self.scan_cache[key] = got
            self.n_scans += 1
        if got != exp:
            classes = ''.join(self._cls(f, amap) for f in tb)
            self.rep.violation('c12:scan:%s' % classes,
                               '_stack_trace_inside_mapped_code differs from its transcription (ErrorMap.tla Scan* actions) '
                               'on frame classes %s (M mapped, U user, C converter file, I internal), outermost first' % classes,
                               dict(origin=origin, tb=tb, source_map=amap, expected=exp, observed=got))

    @staticmethod
    def _cls(f, amap):
        if any(e['gfile'] == f['file'] and e['gline'] == f['line'] for e in amap):
            return 'M'
        if f['file'] == 'API':
            return 'C'
        return 'U' if f['file'] in ('U', 'A') else 'I'

    # ---- 4. the source map ------------------------------------------------------------------------
    def check_source_map(self, rec, mod):
        if mod['checked_map']:
            return
        mod['checked_map'] = True
        r = mod['r']
        units = rec['unit']
        for i, eff in enumerate(rec['conv'], 1):
            if not eff or units[i - 1] != i:       # one source map per separately converted function
                continue
            f = mod['fobj'][i - 1]
            fkey = r['fns'][i - 1]['file']
            opath = mod['upath'] if fkey == 'U' else mod['apath']
            # statements of the conversion unit: the function and the defs nested in it
            stmts = {ln: role for ln, (fi, role) in r[fkey + '_stmts'].items() if units[fi - 1] == i}
            owner = {ln: fi for ln, (fi, role) in r[fkey + '_stmts'].items() if units[fi - 1] == i}
            # function name of every statement the specification lists (ErrorMap.tla Resolve* actions)
            spec_names = {e['line']: e['fn'] for e in rec['names'] if e['file'] == fkey}
            olines = r[fkey].split('\n')
            try:
                g = self.malt.to_graph(f)
                sm = g.ag_source_map
                gpath = g.ag_module.__file__
                gsrc = open(gpath).read().split('\n')
            except Exception as e:
                raise common.MachineryError('to_graph failed on a rendered function: %r\n%s' % (e, r[fkey]))
            self.n_maps += 1
            wit = dict(function='f%d' % i, source=r[fkey], generated='\n'.join(gsrc))
            raise_line = [ln for ln, role in stmts.items() if role == 'fail7' and olines[ln - 1].strip().startswith('raise')]
            marked = {}
            for loc, org in sm.items():
                self.n_entries += 1
                w = dict(wit, entry=[loc.filename, loc.lineno, org.loc.filename, org.loc.lineno, org.function_name])
                # S1: the key is a line of the generated module of this conversion
                if loc.filename != gpath or not (1 <= loc.lineno <= len(gsrc)):
                    if re.match(r'^(c12u_\d+|m\d+)\.py$', os.path.basename(loc.filename)):   # a rendered user file (this or an earlier module)
                        self.rep.violation('c12:source-map:entry-keyed-by-user-line',
                                           'a source map entry is keyed by a line of a user file instead of a generated line', w)
                        continue
                    self.rep.violation('c12:source-map:key-not-a-generated-line',
                                       'a source map entry is keyed by a location that is not a line of the generated module', w)
                    continue
                # S2: the origin is a statement line of the function that was converted
                role = stmts.get(org.loc.lineno)
                if org.loc.filename != opath or role is None:
                    self.rep.violation('c12:source-map:origin-not-a-statement-of-the-function',
                                       'a generated line is mapped to a line that is no statement of the converted function', w)
                    continue
                # function name: of the def the statement is in.  Not demanded for the lines of nested `def` headers
                # (executed by the enclosing function, labelled with the new function by malt); a line holding a lambda
                # may carry either the enclosing function's name or '<lambda>' (the statement cannot fail there).
                want = spec_names.get(org.loc.lineno, 'f%d' % owner[org.loc.lineno])
                ok_names = {want} | ({'<lambda>'} if role == 'prelam' else set())
                if role == 'predef' or (role == 'def' and owner[org.loc.lineno] != i):
                    pass
                elif org.function_name not in ok_names:
                    self.rep.violation('c12:source-map:function-name:' + _name_class(org.function_name),
                                       'a generated line is mapped to the right line (%d, %s) but to function %r; the statement '
                                       'is in %r' % (org.loc.lineno, role, org.function_name, want), w)
                if (org.source_code_line or '').strip() != olines[org.loc.lineno - 1].strip():
                    self.rep.violation('c12:source-map:source-line-text', 'origin source_code_line is not the text of the origin line', w)
                # S3: a generated line that carries the token(s) of exactly one original statement was generated
                #     from that statement: it must be mapped to that statement's line
                text = gsrc[loc.lineno - 1]
                toks = R.tokens(text)
                if raise_line and re.search(r'ag__\.ld\((%s)\)' % '|'.join(R.EXC_NAMES), text):
                    toks = toks | {raise_line[0]}
                if len(toks) == 1:
                    t = next(iter(toks))
                    if t in stmts:
                        if org.loc.lineno != t:
                            self.rep.violation('c12:source-map:wrong-line:%s->%s' % (stmts[t], role),
                                               'the generated line produced from a %s statement (line %d) is mapped to line %d (%s)'
                                               % (stmts[t], t, org.loc.lineno, role), dict(w, generated_line=text))
                        else:
                            marked[t] = marked.get(t, 0) + 1
            # S3b: every statement that can be on a traceback has a mapped generated line of its own
            for ln, role in stmts.items():
                if role in ('def', 'filler', 'return', 'with', 'try', 'pre', 'predef', 'prelam'):
                    continue
                if not marked.get(ln):
                    self.rep.violation('c12:source-map:statement-unmapped:%s' % role,
                                       'no generated line produced from the %s statement is mapped to its line' % role,
                                       dict(wit, line=ln))

    # ---- 1 + 2. one scenario -----------------------------------------------------------------------
    def scenario(self, rec, twin=False):
        rep = self.rep
        chain, nest, tail, k, pre = rec['chain'], rec['nest'], rec['tail'], rec['k'], rec['pre']
        if twin:
            # history: a file with the same text was loaded and converted before (e.g. one module under two paths)
            self.mods.n += 1
            tid = self.mods.base + self.mods.n
            first = self.mods.get(chain, nest, tail, fresh=True, modid=tid, pre=pre)
            try:
                self.malt.convert(recursive=True)(first['fobj'][0])(R.inputs(k, tail), 1)
            except Exception:
                pass
            mod = self.mods.get(chain, nest, tail, fresh=True, modid=tid, pre=pre)
        else:
            mod = self.mods.get(chain, nest, tail, fresh=rec['prior'], pre=pre)
        files = mod['files']
        f1 = mod['fobj'][0]
        # renderer vs. specification layout
        got_def = [fn['defline'] for fn in mod['r']['fns']]
        if got_def != rec['deflines']:
            raise common.MachineryError('layout: renderer put the defs on lines %s, specification says %s\n%s' % (
                got_def, rec['deflines'], mod['r']['U']))
        # --- 1. the original function's own traceback (model validation against CPython)
        try:
            f1(R.inputs(k, tail), 1)
            raise common.MachineryError('unconverted run did not fail: %s' % json.dumps([chain, nest, pre, tail, k]))
        except common.MachineryError:
            raise
        except Exception as e:
            e0 = e
        otb = traceback.extract_tb(e0.__traceback__)[1:]
        ouser = _user_frames(otb, files)
        spec_orig = [[f['file'], f['fn'], f['line']] for f in rec['orig']]
        t0 = type(e0)
        init = ('exc' if t0.__init__ is Exception.__init__ else 'py' if hasattr(t0.__dict__.get('__init__'), '__code__')
                else 'c' if t0.__module__ == 'builtins' else 'cinh')
        if ouser != spec_orig or t0.__name__ != rec['kind'] or init != rec['init'] or \
                (rec['msg'] != '?' and str(e0) != rec['msg']):
            raise common.MachineryError('model vs CPython: unconverted run gave %s %r init=%s %s, specification says %s %r init=%s %s\n%s' % (
                t0.__name__, str(e0), init, ouser, rec['kind'], rec['msg'], rec['init'], spec_orig, mod['r']['U']))
        # --- history: the innermost function was converted earlier in this process
        if rec['prior']:
            self.malt.to_graph(_unwrap(mod['fobj'][-1]))
        # --- 2. the converted run
        shape = _shape(rec) + (':twin-file' if twin else '')
        try:
            self.malt.convert(recursive=True)(f1)(R.inputs(k, tail), 1)
            rep.violation('c12:no-exception:' + shape, 'converted function did not raise', _witness(rec, mod))
            return
        except Exception as e:
            e1 = e
        md = getattr(e1, 'ag_error_metadata', None)
        if md is None:
            rep.violation('c12:no-metadata:%s:%s' % (rec['kind'], shape),
                          'the exception from the convert wrapper carries no ag_error_metadata (%s: %s)' % (type(e1).__name__, e1),
                          _witness(rec, mod, dict(observed_type=type(e1).__name__, tb=traceback.format_exc())))
            return
        # type rule (three-valued, as printed by the specification)
        t1 = type(e1)
        if t1 is t0:
            cls = 'same'
        elif t1 is self.api.StagingError:
            cls = 'staging'
        elif t0 is KeyError and isinstance(e1, KeyError) and t1.__name__ == 'KeyError':
            cls = 'keysub'
        else:
            cls = 'other:' + t1.__name__
        if cls not in rec['demanded']:
            rep.violation('c12:type:%s:%s' % (rec['kind'], cls),
                          'a %s (__init__ class %s) comes back as %s; the statement allows %s' % (
                              rec['kind'], rec['init'], t1.__name__, '/'.join(rec['demanded'])),
                          _witness(rec, mod, dict(observed_type=t1.__name__)))
        if cls != rec['type']:
            rep.add('type_other_than_transcription_predicts')
        # message
        if str(e0) not in str(e1):
            rep.violation('c12:message:%s' % rec['kind'], 'the original message is not contained in the re-raised exception',
                          _witness(rec, mod, dict(original=str(e0), observed=str(e1))))
        # user frames
        ts = md.translated_stack
        inv = files
        got = [[inv[f.filename], f.function_name, f.lineno] for f in ts if f.filename in inv]
        exp = [[f['file'], f['fn'], f['line']] for f in rec['stack'] if f['file'] in ('U', 'A')]
        if got != exp:
            w = _witness(rec, mod, dict(observed_stack=[[os.path.basename(f.filename), f.lineno, f.function_name,
                                                         f.is_converted, f.is_allowlisted] for f in ts]))
            inner = spec_orig[-1]
            if twin:
                rep.violation('c12:stack:twin-file',
                              'a function whose text and position equal those of a function of another file converted earlier is '
                              'reported at the other file: user frames of this file listed %s, expected %s' % (got, exp), w)
            elif got and got[0] != inner and [got[0][0], got[0][2]] == [inner[0], inner[2]]:
                rep.violation('c12:stack:innermost:function-name:%s:%s' % (_name_class(got[0][1]), shape),
                              'the innermost user frame has the file and line of the failing statement but names function %r; '
                              'the statement is in %r (scopes of the function: %s)' % (
                                  got[0][1], inner[1], _scopes(rec)), w)
            elif not got or got[0] != inner:
                rep.violation('c12:stack:innermost:%s:%s' % (rec['kind'], shape),
                              'innermost user frame named is %s, the failing statement is %s' % (got[0] if got else None, inner), w)
            elif sorted([g[0], g[2]] for g in got) == sorted([e[0], e[2]] for e in exp):
                rep.violation('c12:stack:caller-function-name:' + shape,
                              'a caller frame has the file and line of the call statement but names another function: '
                              'listed %s, the frames of the original traceback are %s (scopes: %s)' % (got, spec_orig, _scopes(rec)), w)
            elif not _is_subseq(list(reversed(got)), spec_orig):
                rep.violation('c12:stack:not-frames-of-the-original-traceback:' + shape,
                              'user frames listed %s are not a subsequence of the original traceback %s' % (got, spec_orig), w)
            else:
                units = rec['unit']      # one entry per separately converted function (with the defs nested in it)
                bad = [i for i, eff in enumerate(rec['conv'], 1) if eff and units[i - 1] == i and
                       sum(1 for g in got if g[1] in ['f%d' % q for q in range(1, len(units) + 1) if units[q - 1] == i]) != 1]
                if bad:
                    rep.violation('c12:stack:one-per-converted:' + shape,
                                  'converted function(s) %s on the call path have no / several entries: %s' % (
                                      ['f%d' % i for i in bad], got), w)
                else:
                    self.imprecise.append('observed %s, predicted %s, clauses hold\n%s' % (got, exp, mod['r']['U']))
        else:
            fl_got = [[bool(f.is_converted), bool(f.is_allowlisted)] for f in ts if f.filename in inv]
            fl_exp = [[f['conv'], f['allow']] for f in rec['stack'] if f['file'] in ('U', 'A')]
            if fl_got != fl_exp:
                self.flag_mismatch += 1
            # the message names file, function and line of the failing statement
            fr = [f for f in ts if f.filename in inv][0]
            want = 'File "%s", line %d, in %s' % (fr.filename, fr.lineno, fr.function_name)
            if want not in str(e1):
                rep.violation('c12:message-names-location:' + shape, 'the message does not name the innermost user frame',
                              _witness(rec, mod, dict(observed=str(e1), wanted=want)))
        # model of the converted run's traceback (classes only)
        src = e1 if t1 is not self.api.StagingError or e1.__context__ is None else e1.__context__
        rtb = traceback.extract_tb(src.__traceback__)   # StagingError is created without the source traceback
        cl = []
        for f in rtb:
            if '__autograph_generated_file' in f.filename:
                cl.append('G')
            elif f.filename == self.api_file:
                cl.append('API')
            elif f.filename in inv:
                cl.append(inv[f.filename])
            else:
                cl.append('INT')
        while cl and cl[0] != 'G':
            cl.pop(0)
        spec_cl = ['G' if f['file'].startswith('G') else f['file'] for f in rec['full']]
        if cl != spec_cl and not rec['prior'] and not twin:
            self.shape_mismatch.append((cl, spec_cl, json.dumps([chain, nest, pre, tail, k])))
        # --- 3. every scan of this scenario against the real function
        for sc in rec['scans']:
            self.check_scan(sc['tb'], sc['map'], sc['res'], dict(chain=chain, nest=nest, pre=pre, tail=tail, k=k, lvl=sc['lvl']))
        # --- 4. source maps of the converted functions of this module
        if not twin:
            self.check_source_map(rec, mod)
        rep.validated()
        rep.sample(dict(chain=chain, nest=nest, pre=pre, tail=tail, k=k, kind=rec['kind'], observed_type=t1.__name__, user_frames=got))

    shape_mismatch = []
    imprecise = []


def _is_subseq(a, b):
    it = iter(b)
    return all(any(x == y for y in it) for x in a)


class _Collect(object):
    """Report stand-in used inside worker processes; merged into the real report by the parent."""

    def __init__(self):
        self.viol = {}          # signature -> [what, witness, count]
        self.counts = {}
        self.samples = []
        self.nvalid = 0

    def violation(self, sig, what, witness):
        if sig in self.viol:
            self.viol[sig][2] += 1
        else:
            self.viol[sig] = [what, witness, 1]

    def add(self, key, n=1):
        self.counts[key] = self.counts.get(key, 0) + n

    def validated(self, n=1):
        self.nvalid += n

    def sample(self, s, limit=2):
        if len(self.samples) < limit:
            self.samples.append(s)


def _work(job):
    """One worker process: a contiguous block of scenarios (whole modules), in a scratch directory of its own."""
    idx, items = job
    from malt.core import config
    root = common.scratch('c12_%d_%d' % (os.getppid(), idx))
    gen = os.path.join(root, 'gen')
    os.makedirs(gen)
    old_tmp = tempfile.tempdir
    tempfile.tempdir = gen           # malt's loader writes generated modules through tempfile: keep them out of /tmp
    old_rules = config.CONVERSION_RULES
    config.CONVERSION_RULES = (config.DoNotConvert('c12allow'),) + tuple(old_rules)
    mods = Modules(root, base=(idx + 1) * 1000000)
    col = _Collect()
    run = Runner(col, mods)
    run.shape_mismatch = []
    run.imprecise = []
    err = None
    try:
        for rec, twin in items:
            run.scenario(rec, twin=twin)
    except common.MachineryError as e:
        err = str(e)
    except Exception:
        err = 'harness crash in worker:\n' + traceback.format_exc()
    finally:
        config.CONVERSION_RULES = old_rules
        tempfile.tempdir = old_tmp
        mods.close()
        common.rmtree(root)
    return dict(viol=col.viol, counts=col.counts, samples=col.samples, nvalid=col.nvalid, err=err,
                shape=run.shape_mismatch[:3], nshape=len(run.shape_mismatch), imprecise=run.imprecise[:3],
                nimprecise=len(run.imprecise), modules=mods.n, scans=run.n_scans, maps=run.n_maps,
                entries=run.n_entries, flags=run.flag_mismatch)


def _run(rep, tier, only=None):
    import multiprocessing
    nproc = 4 if tier == 'quick' else 8
    workers = 6 if tier == 'quick' else 12
    # ---- frames mode: the scan on every short frame sequence (parent process)
    root = common.scratch('c12_%d' % os.getpid())
    try:
        fr = Runner(rep, Modules(root))
        res = tlc.run_tlc('ErrorMap', _cfg(mode='frames', maxframes=5), workers=workers, timeout=600, name='ErrorMapFrames')
        res.require_ok('ErrorMap frames')
        rep.add_tlc(res)
        nfr = 0
        for rec in res.json:
            if rec.get('mode') != 'frames':
                continue
            nfr += 1
            fr.check_scan(rec['tb'], rec['map'], rec['res'], dict(mode='frames'))
        if nfr != sum(4 ** n for n in range(6)):
            raise common.MachineryError('frames mode printed %d sequences, expected %d' % (nfr, sum(4 ** n for n in range(6))))
        rep.set('frame_sequences', nfr)
    finally:
        fr.mods.close()
        common.rmtree(root)
    # ---- scenario mode
    tot = dict(modules=0, scans=fr.n_scans, maps=0, entries=0, flags=0, nshape=0, nimprecise=0)
    shape, imprecise, errs = [], [], []
    seen_dims = dict(kind=set(), link=set(), ctx=set(), type=set(), depth=set(), nestdepth=set(), pre=set())
    nsc = 0
    ctx = multiprocessing.get_context('fork')
    for name, kw, sim in _plans(tier):
        if only and name not in only:
            continue
        if sim:
            # one worker: the set of sampled behaviours is then a function of the seed alone
            res = tlc.run_tlc('ErrorMap', _cfg(**kw), workers=1, timeout=900, name='ErrorMap_' + name,
                              simulate=sim, seed=common.seed() + 12)
        else:
            res = tlc.run_tlc('ErrorMap', _cfg(**kw), workers=workers, timeout=900, name='ErrorMap_' + name)
        if res.violated:
            # a property clause fails on the model itself: design-level violation of the transcribed rules
            raise common.MachineryError('ErrorMap.tla invariant %s violated on the model (%s)\n%s' % (
                res.violated, name, res.stdout[-3000:]))
        res.require_ok('ErrorMap ' + name)
        rep.add_tlc(res)
        seen = set()
        uniq = []
        for r in res.json:
            if r.get('mode') != 'scenario':
                continue
            key = json.dumps([r['chain'], r['nest'], r['pre'], r['tail'], r['prior'], r['k']])
            if key not in seen:
                seen.add(key)
                uniq.append((key, r))
        uniq.sort(key=lambda kr: kr[0])
        if not uniq:
            raise common.MachineryError('plan %s produced no scenarios' % name)
        rep.set('scenarios_' + name, len(uniq))
        for _, r in uniq:
            seen_dims['kind'].add(r['kind'])
            seen_dims['link'].update(r['chain'])
            seen_dims['ctx'].update(c for n in r['nest'] for c in n)
            seen_dims['type'].add(r['type'])
            seen_dims['depth'].add(len(r['chain']))
            seen_dims['nestdepth'].add(len(r['nest'][-1]))
            seen_dims['pre'].update(kd for p in r['pre'] for kd in p)
        items = [(r, False) for _, r in uniq]
        if name == 'bfs-depth1':
            tw = [(r, True) for _, r in uniq if r['k'] in (2, 7) and not r['prior']][:6]
            items += tw
            rep.set('twin_file_scenarios', len(tw))
        # contiguous blocks (scenarios of one module stay together, fixed assignment: deterministic histories)
        nblocks = nproc * 3
        size = (len(items) + nblocks - 1) // nblocks
        jobs = [(i, items[i * size:(i + 1) * size]) for i in range(nblocks) if items[i * size:(i + 1) * size]]
        with ctx.Pool(nproc) as pool:
            results = pool.map(_work, jobs, chunksize=1)
        for out in results:
            if out['err']:
                errs.append(out['err'])
            for sig in sorted(out['viol']):
                what, wit, n = out['viol'][sig]
                for _ in range(n):
                    rep.violation(sig, what, wit)
            for k, v in out['counts'].items():
                rep.add(k, v)
            for sm in out['samples']:
                rep.sample(sm)
            rep.validated(out['nvalid'])
            nsc += out['nvalid']
            for k in ('modules', 'scans', 'maps', 'entries', 'flags', 'nshape', 'nimprecise'):
                tot[k] += out[k]
            shape += out['shape']
            imprecise += out['imprecise']
    if errs:
        raise common.MachineryError(errs[0])
    if not only:      # vacuity: every value of every scenario dimension was exercised
        want = dict(kind={'UE', 'CE', 'VE0', 'VE2', 'RE1', 'KeyError', 'IndexError', 'ZeroDivisionError', 'TypeError', 'AttributeError', 'ValueError'},
                    link=set(ALL_LINKS), ctx=set(ALL_CTX), type={'same', 'keysub', 'staging'},
                    depth={1, 2, 3, 4}, nestdepth={0, 1, 2, 3}, pre=set(ALL_PRES))
        for d, w in want.items():
            if not w <= seen_dims[d]:
                raise common.MachineryError('vacuity: dimension %s only saw %s' % (d, sorted(seen_dims[d], key=str)))
    rep.set('dimensions_covered', {d: sorted(v, key=str) for d, v in seen_dims.items()})
    # model-precision problems are only a verdict of their own when nothing the statement demands failed
    if imprecise and not rep.violations:
        raise common.MachineryError('transcription imprecise in %d scenario(s): %s' % (tot['nimprecise'], imprecise[0]))
    if shape and not rep.violations:
        cl, spec_cl, key = shape[0]
        raise common.MachineryError('model of the converted run traceback is wrong in %d scenario(s), e.g. %s:\n real %s\n spec %s' % (
            tot['nshape'], key, cl, spec_cl))
    rep.set('scenarios', nsc)
    rep.set('modules_rendered', tot['modules'])
    rep.set('scans_replayed_into_real_function', tot['scans'])
    rep.set('source_maps_checked', tot['maps'])
    rep.set('source_map_entries_checked', tot['entries'])
    rep.set('flag_mismatches_not_demanded_by_statement', tot['flags'])
    rep.assume('CPython traceback line attribution (validated in-run against the unconverted function)')
    rep.assume('allow-listing is exercised through config.CONVERSION_RULES extended with DoNotConvert("c12allow")')


def run(rep):
    _run(rep, rep.tier)


def replay(path):
    from .. import report
    w = json.load(open(path))
    print(json.dumps({k: v for k, v in w.items() if k != 'witness'}, indent=1))
    wit = w.get('witness', {})
    for k in ('source_U', 'source_A', 'source', 'generated'):
        if k in wit:
            print('---- %s ----\n%s' % (k, wit[k]))
    print(json.dumps({k: v for k, v in wit.items() if k not in ('source_U', 'source_A', 'source', 'generated')}, indent=1, default=str))
    rep = report.Report('C12', 'quick')
    _run(rep, 'quick')
    rc = rep.finish()
    return 1 if w.get('signature') in rep.violations else rc
