"""C13 - the call wrapper is transparent, obeys the conversion policy and falls back safely.

Decided by spec/CallPolicy.tla: TLC enumerates every two-call history of `converted_call` over the
abstract callable descriptors (kind x module x partial chain x argument shape x options x context x strict
mode x fault point x which call is faulted x second-call options), checks the property on the model and
prints the expected outcome of both calls; vf/c13_callables.py realises every history with fresh concrete
callables and replays it through the real malt.impl.api.converted_call.
"""
import json
import multiprocessing
import os
import traceback

from .. import common, tlc

INVARIANTS = ['TypeOK', 'ExactlyOnce', 'ConvertedOnlyIfPolicyAllows', 'ConvertedWheneverPolicyAllows',
              'OverloadOnlyForBuiltins', 'SafeFallback', 'StrictPropagates', 'NoErrorFromTheWrapper',
              'Remembered', 'WarnOnlyOnFailure', 'NonRecursiveNeverConverts', 'PartialSemantics',
              'BindingAtCall', 'CallSiteWins', 'Expect']
CFG = 'CONSTANT Tier = "%s"\nSPECIFICATION Spec\n' + ''.join('INVARIANT %s\n' % i for i in INVARIANTS) + \
      'CHECK_DEADLOCK FALSE\n'

# every rule / pipeline stage of the specification must be exercised by the enumeration (vacuity)
RULES = {'cache_hit', 'ctx_disabled', 'artifact', 'builtin_in_context', 'builtin_overload', 'builtin',
         'unsupported_wrapt', 'unsupported_lru', 'unsupported_constructor', 'unsupported_stdlib',
         'allow_module', 'allow_generator', 'allow_call_override', 'allow_owner', 'no_internal_convert',
         'native', 'dynamic_code', 'converted', 'fallback', 'strict_raise'}
STAGES = {'source', 'parse', 'naming', 'unsupported', 'analysis', 'converter', 'load', 'instantiate'}

_ENV = None


def _env(scratch):
  global _ENV
  if _ENV is None:
    from .. import c13_callables
    _ENV = c13_callables.Env(os.path.join(scratch, 'p%d' % os.getpid()))
  return _ENV


def _work(job):
  """Replays a chunk of histories; returns [(index, problems | None, error text | None)]."""
  scratch, chunk = job
  from .. import c13_callables
  out = []
  try:
    env = _env(scratch)
  except Exception:   # pylint:disable=broad-except
    return [(chunk[0][0], None, 'environment: ' + traceback.format_exc())]
  for n, (idx, rec) in enumerate(chunk):
    try:
      out.append((idx, c13_callables.run_history(env, rec, str(idx)), None))
    except common.MachineryError as e:
      out.append((idx, None, 'MachineryError: %s' % e))
    except Exception:   # pylint:disable=broad-except
      out.append((idx, None, traceback.format_exc()))
    if n % 64 == 63:
      env.housekeeping()
  env.housekeeping()
  return out


def _key(rec):
  return json.dumps({k: v for k, v in rec.items() if k != 'calls'}, sort_keys=True)


def _vacuity(recs):
  kinds = {r['kind'] for r in recs}
  rules = {c['rule'] for r in recs for c in r['calls']}
  stages = {c['failat'] for r in recs for c in r['calls'] if c['failat']}
  if rules != RULES:
    raise common.MachineryError('vacuity: rules never / unexpectedly decided: %s' % sorted(rules ^ RULES))
  if not STAGES <= stages:
    raise common.MachineryError('vacuity: pipeline stages never failing: %s' % sorted(STAGES - stages))
  return kinds, rules, stages


def _generated_variants(recs):
  """Histories that are replayed a second time with the calls made by really converted call sites:
  those whose options are the call options of a function scope, in an ENABLED context."""
  out = []
  for r in recs:
    if r['opt'].startswith('s_') and r['opt2'].startswith('s_') and r['ctx'] == 'ENABLED' \
        and not r['kind'].startswith('bi_'):
      g = dict(r)
      g['_generated'] = True
      out.append(g)
  return out


def _replay_all(rep, recs, procs, scratch):
  jobs = []
  indexed = list(enumerate(recs))
  size = max(8, min(64, len(indexed) // (procs * 8) + 1))
  for ch in common.chunks(indexed, size):
    jobs.append((scratch, ch))
  results = []
  if procs <= 1:
    global _ENV
    try:
      for j in jobs:
        results.extend(_work(j))
    finally:
      if _ENV is not None:
        _ENV.close()        # restore the spies installed in this process
        _ENV = None
  else:
    ctx = multiprocessing.get_context('fork')
    pool = ctx.Pool(procs)
    try:
      for r in pool.imap_unordered(_work, jobs):
        results.extend(r)
    finally:
      pool.terminate()
      pool.join()
  results.sort(key=lambda t: t[0])
  errors = [(i, e) for i, _, e in results if e]
  if errors:
    i, e = errors[0]
    raise common.MachineryError('%d histories could not be replayed; first (%s):\n%s' % (
        len(errors), _key(recs[i]), e))
  if len(results) != len(recs):
    raise common.MachineryError('replayed %d of %d histories' % (len(results), len(recs)))
  for i, problems, _ in results:
    for p in problems:
      p['witness']['record'] = recs[i]
      rep.violation(p['signature'], p['what'], p['witness'])
  rep.validated(len(results))


def run(rep):
  tier = rep.tier
  workers = int(os.environ.get('C13_TLC_WORKERS', 8 if tier == 'quick' else 16))
  procs = int(os.environ.get('C13_PROCS', 8 if tier == 'quick' else 14))
  res = tlc.run_tlc('CallPolicy', CFG % tier, workers=workers, timeout=120 if tier == 'quick' else 1500,
                    jvm_mem='6g').require_ok('CallPolicy')
  rep.add_tlc(res)
  recs = sorted(res.json, key=_key)
  if not recs:
    raise common.MachineryError('CallPolicy.tla printed no histories')
  kinds, rules, stages = _vacuity(recs)
  rep.set('histories', len(recs))
  rep.set('callable_kinds', len(kinds))
  rep.set('decision_rules_exercised', len(rules))
  rep.set('failing_stages_exercised', sorted(stages))
  rep.set('fault_points', sorted({r['fault'] for r in recs}))
  rep.set('modules', len({tuple(r['mod']) for r in recs}))
  rep.set('exhaustive_within_bounds', True)
  gen = _generated_variants(recs)
  rep.set('histories_through_generated_call_sites', len(gen))
  scratch = common.scratch('c13_%d' % os.getpid())
  try:
    _replay_all(rep, recs + gen, procs, scratch)
  finally:
    common.rmtree(scratch)
  for r in recs[:: max(1, len(recs) // 5)][:5]:
    rep.sample(dict(kind=r['kind'], layers=r['layers'], npos=r['npos'], kwsh=r['kwsh'], opt=r['opt'], ctx=r['ctx'],
                    fault=r['fault'], rules=[c['rule'] for c in r['calls']]))
  rep.assume('ag__.if_stmt / if_exp of the global transpiler firing inside the callee is what "converted" means')
  rep.assume('faults are exceptions (subclasses of Exception) raised by the wrapped pipeline function')
  rep.assume('callables that cannot be weakly referenced are never remembered (conversion.py catch-all)')


def replay(path):
  with open(path) as f:
    w = json.load(f)
  rec = w['witness']['record']
  print(json.dumps({k: v for k, v in w.items() if k != 'witness'}, indent=1))
  print(json.dumps(w['witness'].get('expected'), indent=1))
  print(json.dumps(w['witness'].get('observed'), indent=1))
  from .. import c13_callables
  scratch = common.scratch('c13replay_%d' % os.getpid())
  env = c13_callables.Env(scratch)
  try:
    problems = c13_callables.run_history(env, rec, '0')
  finally:
    env.close()
    common.rmtree(scratch)
  for p in problems:
    print('REPLAYED %s: %s' % (p['signature'], p['what']))
  return 1 if problems else 0
