"""C18 - the A-normal-form transformer preserves evaluation order and yields ANF.

Decided by spec/Anf.tla.
  gen     TLC enumerates every program of the class up to the tier's budget (grammar machine) and prints
          the predicted behaviour (effect log with the producing node, outcome, result) on every input;
  (i)     the harness renders each program and runs the ORIGINAL under CPython: prediction must be exact,
          otherwise MachineryError (the model of Python is wrong);
  (ii)    the real anf.transform output is unparsed, compiled (failure = violation of class c18:syntax),
          executed and compared with the prediction;
  (iii)   the output tree is abstracted back into the mini-language and TLC (MODE "check") decides
          Run(out) = Run(src) on every input, the ANF shape for the active configuration, the temporaries
          discipline and the rejection expectation;
  (iv)    signatures are derived from the node pair at which expected and observed order first diverge
          (lowest common ancestor, operand roles), witnesses are shrunk with TLC deciding every round.
"""
import ast
import json
import os
import re

from .. import common, tlc
from .. import c18_lang as L

GEN_CFG = """SPECIFICATION Spec
CONSTANT MODE = "gen"
CONSTANT TIER = %d
INVARIANT GenReport
INVARIANT BudgetsSane
INVARIANT SemanticsTotal
INVARIANT NoTempsInSource
CHECK_DEADLOCK FALSE
"""
CHK_CFG = """SPECIFICATION Spec
CONSTANT MODE = "check"
CONSTANT TIER = 1
INVARIANT ChkReport
CHECK_DEADLOCK FALSE
"""
CFG_CFG = """SPECIFICATION Spec
CONSTANT MODE = "configs"
CONSTANT TIER = 1
INVARIANT CfgReport
CHECK_DEADLOCK FALSE
"""
DEFAULT_RULES = [dict(p='ANY', f='ANY', c='literal', a='LEAVE'), dict(p='ANY', f='ANY', c='expr', a='REPLACE')]
WORKERS = int(os.environ.get('VERIF_WORKERS', '8'))


# --------------------------------------------------------------------------- the implementation under test
def _malt():
    from malt.pyct import parser, transformer, naming
    from malt.pyct.common_transformers import anf
    return parser, transformer, naming, anf


def transform(src, rules):
    """run the real anf.transform on the function source -> ('rejected', exc) | ('ok', tree, text)"""
    parser, transformer, naming, anf = _malt()
    node = ast.parse(src).body[0]
    info = transformer.EntityInfo(name='f', source_code=src, source_file=None, future_features=(), namespace={})
    ctx = transformer.Context(info, naming.Namer({}), None)
    try:
        out = anf.transform(node, ctx, L.build_config(rules, anf))
    except Exception as e:      # noqa - rejection (ValueError) or a crash of the transformer: both recorded
        return ('rejected', e)
    text = parser.unparse(out, include_encoding_marker=False)
    return ('ok', out, text)


class Case:
    """one (program, configuration) pair going through the pipeline"""

    def __init__(self, cid, prog, rules, runs=None):
        self.id = cid
        self.prog = prog
        self.rules = rules            # None = default configuration
        self.runs = runs              # predictions printed by the generator (None for shrink candidates)
        self.src = L.render(prog)
        self.rejected = None
        self.text = None
        self.out = None               # abstracted output
        self.syntax = None
        self.unabstractable = None
        self.exec_diff = None         # (dec, trips, expected, observed)
        self.verdict = None
        self.findings = []            # (signature, what)

    def cfg_name(self):
        return 'default' if self.rules is None else 'custom'

    def witness(self, extra=None):
        w = dict(source=self.src, config=self.rules or 'default', output=self.text,
                 rejected=repr(self.rejected) if self.rejected is not None else None, program=self.prog)
        if self.verdict is not None:
            w['tlc_verdict'] = self.verdict
        if self.exec_diff is not None:
            w['cpython'] = dict(dec=self.exec_diff[0], trips=self.exec_diff[1], expected=self.exec_diff[2],
                                observed=self.exec_diff[3])
        if extra:
            w.update(extra)
        return w


def observe(case, validate_model):
    """steps (i) and (ii): model validation on the original and execution of the transformed function"""
    if validate_model:
        f0 = L.compile_function(case.src)
        for dec, trips, out in case.runs:
            if out[3]:
                continue          # no semantics given (always-rejected lazy forms)
            got = L.norm_run(*L.call(f0, dec, trips)[:3])
            exp = L.norm_run(out[0], out[1], out[2])
            if got != exp:
                raise common.MachineryError(
                    'Anf.tla disagrees with CPython on the ORIGINAL program (model error):\n%s dec=%s trips=%s\n'
                    ' spec   %s\n python %s' % (case.src, dec, trips, exp, got))
    r = transform(case.src, case.rules)
    if r[0] == 'rejected':
        case.rejected = r[1]
        return
    _, tree, text = r
    case.text = text
    try:
        fn = L.compile_function(text)
    except SyntaxError as e:
        case.syntax = e
        fn = None
    try:
        if fn is not None:
            case.out = L.abstract(ast.parse(text).body[0], L.names_of(case.prog))
        else:
            case.out = L.abstract(tree, L.names_of(case.prog))
    except L.Unabstractable as e:
        case.unabstractable = str(e)
    if fn is not None and case.runs is not None:
        for dec, trips, out in case.runs:
            if out[3]:
                continue
            got = L.norm_run(*L.call(fn, dec, trips)[:3])
            exp = L.norm_run(out[0], out[1], out[2])
            if got != exp:
                case.exec_diff = (dec, trips, exp, got)
                break


def tlc_check(cases, name, workers=WORKERS):
    """step (iii): TLC decides every case; returns the TLC result (verdicts are attached to the cases)"""
    todo = [c for c in cases if c.rejected is not None or c.out is not None]
    if not todo:
        return None
    d = common.scratch('c18_%s_%d' % (name, os.getpid()))
    path = os.path.join(d, 'cases.json')
    recs = []
    for c in todo:
        recs.append(dict(id=c.id, src=c.prog, out=c.out if c.out is not None else c.prog,
                         cfg=c.rules or DEFAULT_RULES, rejected=c.rejected is not None))
    with open(path, 'w') as f:
        json.dump(recs, f, separators=(',', ':'))
    try:
        res = tlc.run_tlc('Anf', CHK_CFG, env=dict(C18_CASES=path), workers=workers, timeout=1500,
                          name='Anf_chk_' + name).require_ok('Anf check ' + name)
    finally:
        common.rmtree(d)
    by = {c.id: c for c in todo}
    seen = 0
    for v in res.json:
        if isinstance(v, dict) and 'id' in v and v['id'] in by:
            by[v['id']].verdict = v
            seen += 1
    if seen != len(todo):
        raise common.MachineryError('TLC printed %d verdicts for %d cases' % (seen, len(todo)))
    return res


# --------------------------------------------------------------------------- signatures
def _chain(pm, i):
    out = [i]
    while i in pm:
        i = pm[i][0]
        out.append(i)
    if out[-1] != 0:
        out.append(0)
    return out


def order_signature(prog, d):
    """signature of a divergence, from the source nodes that produced the first diverging effects"""
    src, out = d[2], d[3]
    slog, olog = [L.norm(x) for x in src[2]], [L.norm(x) for x in out[2]]
    sids = src[4]
    kinds = {i: n['k'] for i, n in enumerate(prog['n'], 1)}
    kinds[0] = 'body'
    j = 0
    while j < len(slog) and j < len(olog) and slog[j] == olog[j]:
        j += 1
    if j == len(slog) and j == len(olog):
        if src[0] != out[0]:
            return 'c18:outcome:%s-becomes-%s' % (src[0], out[0]), 'the outcome changes'
        return 'c18:result', 'same effects but a different result value'
    if j == len(olog):
        return ('c18:order:missing-effect:%s' % kinds[sids[j]],
                'an effect of the original is missing after the transformation')
    def label_class(lab):
        m = re.match(r'(bool|iter|enter|exit|set|del|T|F)\b', lab)
        return m.group(1) if m else 'operation'
    if j == len(slog) or olog[j] not in slog[j:]:
        if olog[j] in slog[:j]:
            return ('c18:order:repeated-effect:%s' % label_class(olog[j]),
                    'the transformed function performs the effect %s once more than the original' % olog[j])
        if j == len(slog):
            return ('c18:order:extra-effect:%s' % label_class(olog[j]),
                    'the transformed function has an additional effect %s' % olog[j])
        return ('c18:dataflow:%s' % kinds[sids[j]],
                'an operation is applied to other operands than in the original (effect %r instead of %r)' % (
                    olog[j], slog[j]))
    e = sids[j]
    later = [x for x in range(j + 1, len(slog)) if slog[x] == olog[j]]
    o = sids[later[0]]
    pm = L.parent_map(prog)
    ce, co = _chain(pm, e), _chain(pm, o)
    lca = next(x for x in ce if x in co)
    de, do = ce.index(lca), co.index(lca)

    def branch(chain, depth):
        if depth == 0:
            return 'own', -1, 'own'
        child = chain[depth - 1]
        _, field, pos = pm[child]
        return field, pos, ('self' if depth == 1 else 'inner')
    fe, pe, ke = branch(ce, de)
    fo, po, ko = branch(co, do)
    rel = '<' if pe < po else '>'
    # what characterises the root cause is WHERE the overtaking effect comes from: a later operand itself
    # ('self'), something nested inside it ('inner') or the enclosing node's own effect ('own') - and whether the
    # overtaken effect is the earlier operand's own effect (for a target: its read / store / deletion) or the
    # evaluation of something nested inside that operand ('in-<field>'): "operands of the right-hand side are
    # hoisted before the READ of the target" and "... before the OPERANDS of the target" are different causes
    sig = 'c18:order:%s:%s%s%s%s:%s' % (kinds[lca], 'in-' if ke == 'inner' else '', fe, rel, fo, ko)
    what = ('effect %s (%s of %s) must precede %s (%s of the same %s) but happens after it' % (
        slog[j], fe if ke == 'self' else 'inside ' + fe, kinds[lca], olog[j],
        fo if ko == 'self' else 'inside ' + fo, kinds[lca]))
    return sig, what


def syntax_class(case):
    """which construct of the output is not Python: decided on the output tree"""
    tree = transform(case.src, case.rules)[1]
    for node in ast.walk(tree):
        for f, v in ast.iter_fields(node):
            vs = v if isinstance(v, list) else [v]
            for x in vs:
                if isinstance(x, ast.Slice) and not isinstance(node, (ast.Subscript, ast.Tuple)):
                    return 'slice-temp'
                if isinstance(x, ast.Slice) and isinstance(node, ast.Tuple) and not isinstance(
                        getattr(node, 'ctx', None), ast.Load):
                    return 'slice-temp'
                if isinstance(x, ast.Starred) and not isinstance(node, (ast.Call, ast.Tuple, ast.List, ast.Set)):
                    return 'starred-temp'
    return 'other'


def lazy_kinds(prog):
    ks = []
    for n in prog['n']:
        if n['k'] in ('BoolOp', 'IfExp', 'Lambda', 'ListComp', 'While') or (n['k'] == 'Compare' and len(n['c']) > 2):
            ks.append('MultiCompare' if n['k'] == 'Compare' else n['k'])
    return '+'.join(sorted(set(ks)))


def judge(case):
    """turn the observations and the TLC verdict into findings [(signature, what)]"""
    out = []
    v = case.verdict
    cfgn = case.cfg_name()
    if case.rejected is not None:
        if v is None:
            raise common.MachineryError('no verdict for rejected case %s' % case.id)
        if v['ex'] == 'accept':
            top = case.prog['n'][case.prog['body'][0] - 1]['k']
            out.append(('c18:unexpected-reject:%s:%s:%s' % (cfgn, type(case.rejected).__name__, top),
                        'a program without lazy constructs is rejected: %r' % (case.rejected,)))
        case.findings = out
        return out
    if case.syntax is not None:
        out.append(('c18:syntax:%s' % syntax_class(case), 'the output is not valid Python: %s' % (case.syntax,)))
    if v is None:
        if case.syntax is None and case.exec_diff is None and case.unabstractable:
            raise common.MachineryError('output outside the mini-language (%s) and nothing else decided:\n%s' % (
                case.unabstractable, case.text))
        if case.exec_diff is not None:
            out.append(('c18:exec:unabstractable-output', 'behaviour differs (output outside the mini-language)'))
        case.findings = out
        return out
    undecided = v['bad'][0] not in ('',)
    # "must reject" is demanded because laziness cannot be preserved; an accepted program that TLC proves
    # equivalent on every input (nothing was pulled out after all) does not violate the property
    if v['ex'] == 'reject' and (undecided or v['nd'] > 0 or v['bad'][1]):
        out.append(('c18:reject:accepted:%s:%s' % (cfgn, lazy_kinds(case.prog)),
                    'a construct whose lazily evaluated operand would be hoisted is transformed instead of rejected'))
    if v['bad'][1] == 'unbound-temporary':
        out.append(('c18:temps:unbound-temporary', 'a generated temporary is read before it is assigned'))
    elif v['bad'][1] and not undecided:
        raise common.MachineryError('TLC cannot evaluate the abstracted output (%s):\n%s' % (v['bad'][1], case.text))
    for p in v['tmp']:
        out.append(('c18:temps:%s' % p, 'a generated temporary is %s' % p.replace('-', ' ')))
    for p, f, ck in v['anf']:
        out.append(('c18:anf:%s:%s.%s' % (cfgn, p, f),
                    'the output is not in A-normal form for the configuration: a %s is left at %s.%s' % (ck, p, f)))
    if v['nd'] > 0 and not undecided:
        sig, what = order_signature(case.prog, v['d'])
        if v['cc'] == 'partial' and sig.startswith('c18:order:') and sig.count(':') == 4 \
                and sig.split(':')[2] not in ('repeated-effect', 'extra-effect', 'missing-effect'):
            # inherent to a configuration that names only some of the effectful operands
            sig = 'c18:order:partial-config'
            what = 'under a partial configuration a named operand overtakes an operand left in place: ' + what
        if v['ex'] == 'reject':
            pass    # already reported as an accepted lazy construct
        else:
            out.append((sig, what))
    # the two deciders must agree where both apply
    if case.syntax is None and case.runs is not None and not undecided and v['bad'][1] == '':
        if (case.exec_diff is not None) != (v['nd'] > 0):
            raise common.MachineryError(
                'CPython execution and TLC disagree about the transformed function (abstraction error?):\n%s\n%s\n'
                'cpython diff=%s tlc=%s' % (case.src, case.text, case.exec_diff, v))
    case.findings = out
    return out


# --------------------------------------------------------------------------- shrinking
def _gc(prog):
    """renumber the reachable nodes"""
    order = []

    def visit(i):
        if i in seen:
            return
        seen.add(i)
        order.append(i)
        n = prog['n'][i - 1]
        for c in n['c'] + n['b1'] + n['b2'] + n['b3']:
            visit(c)
    seen = set()
    for i in prog['body']:
        visit(i)
    m = {old: new for new, old in enumerate(order, 1)}
    nodes = []
    for old in order:
        n = prog['n'][old - 1]
        nodes.append(dict(k=n['k'], s=n['s'], c=[m[x] for x in n['c']], t=list(n['t']),
                          b1=[m[x] for x in n['b1']], b2=[m[x] for x in n['b2']], b3=[m[x] for x in n['b3']]))
    return dict(n=nodes, body=[m[x] for x in prog['body']])


TOK_KINDS = {'T', 'Name', 'Call', 'Attribute', 'Subscript', 'BinOp', 'UnaryOp', 'Compare', 'BoolOp', 'IfExp'}
EXPR_KINDS = TOK_KINDS | {'Constant', 'Tuple', 'List', 'Set', 'Dict', 'Lambda', 'ListComp', 'Slice'}
STMT_KINDS = {'Assign', 'AugAssign', 'Expr', 'Return', 'Raise', 'Delete', 'Pass', 'If', 'While', 'For', 'With', 'Try'}


def _needs_tok(parent, field):
    k = parent['k']
    if k in ('Attribute', 'BinOp', 'UnaryOp', 'Compare', 'Set', 'BoolOp', 'IfExp', 'Lambda', 'ListComp',
             'AugAssign', 'Raise', 'If', 'While', 'For', 'With'):
        return True
    if k == 'Subscript' and field == 'value':
        return True
    if k == 'Dict' and field == 'keys':
        return True
    return False


def reductions(prog):
    """one-step reductions: remove an operand, remove a level of nesting, replace a subtree by a leaf"""
    import copy
    pm = L.parent_map(prog)
    out = []
    fresh = 90 + len(prog['n'])

    def variant(fn):
        q = copy.deepcopy(prog)
        if fn(q) is not False:
            out.append(_gc(q))

    for i, n in enumerate(prog['n'], 1):
        if i not in pm:
            continue
        par, field, pos = pm[i]
        pk = prog['n'][par - 1] if par else None
        if n['k'] in EXPR_KINDS and pk is not None and pk['k'] not in ('T',):
            store = pk['k'] in ('Assign', 'AugAssign', 'For', 'Delete') and field in ('target', 'targets')
            in_store = store or (pk['k'] in ('Tuple', 'List') and pm.get(par, (0, '', 0))[1] in ('target', 'targets'))
            starred = pos < len(pk['t']) and pk['t'][pos] in ('*', '**')
            unpack_rhs = pk['k'] == 'Assign' and field == 'value' and prog['n'][pk['c'][0] - 1]['k'] in ('Tuple', 'List')
            if n['k'] not in ('T', 'Name', 'Constant') and not in_store and not starred and not unpack_rhs \
                    and n['k'] != 'Slice' and not (pk['k'] == 'Call' and field == 'func'):
                # replace the subtree by a fresh tracer leaf
                def leaf(q, i=i):
                    q['n'][i - 1] = dict(k='T', s=str(fresh), c=[], t=[], b1=[], b2=[], b3=[])
                variant(leaf)
                # replace the node by one of its operands (one level of nesting less)
                for cpos, c in enumerate(n['c']):
                    ck = prog['n'][c - 1]['k']
                    if ck == 'Slice' or (n['k'] == 'Call' and cpos == 0):
                        continue
                    if n['t'] and cpos < len(n['t']) and n['t'][cpos] in ('*', '**'):
                        continue
                    if _needs_tok(pk, field) and ck not in TOK_KINDS:
                        continue

                    def lift(q, i=i, c=c):
                        q['n'][i - 1] = q['n'][c - 1]
                    variant(lift)
            # remove this operand from its parent
            removable = (pk['k'] == 'Call' and pos >= 1 and len(pk['c']) > 1) or \
                        (pk['k'] in ('Tuple', 'List', 'Set') and len(pk['c']) > 1 and not in_store
                         and not (pk['k'] == 'Tuple' and pm[par][1] == 'value' and pm[par][0]
                                  and prog['n'][pm[par][0] - 1]['k'] == 'Assign'
                                  and prog['n'][prog['n'][pm[par][0] - 1]['c'][0] - 1]['k'] in ('Tuple', 'List'))) or \
                        (pk['k'] in ('Delete', 'With') and len(pk['c']) > 1) or \
                        (pk['k'] == 'Slice' and len(pk['c']) > 1)
            if removable:
                def drop(q, par=par, pos=pos):
                    p = q['n'][par - 1]
                    del p['c'][pos]
                    del p['t'][pos]
                variant(drop)
            if pk['k'] == 'Dict' and pos % 2 == 0 and len(pk['c']) > 2:
                def droppair(q, par=par, pos=pos):
                    p = q['n'][par - 1]
                    del p['c'][pos:pos + 2]
                    del p['t'][pos:pos + 2]
                variant(droppair)
        if n['k'] in STMT_KINDS:
            holder = prog['body'] if par == 0 else pk[field]
            if len(holder) > 1 or (par != 0 and field in ('b2', 'b3')):
                def dropstmt(q, par=par, field=field, i=i):
                    h = q['body'] if par == 0 else q['n'][par - 1][field]
                    h.remove(i)
                variant(dropstmt)
            for f in ('b1', 'b2', 'b3'):
                if n[f]:
                    def hoist(q, par=par, field=field, i=i, f=f):
                        h = q['body'] if par == 0 else q['n'][par - 1][field]
                        k = h.index(i)
                        h[k:k + 1] = q['n'][i - 1][f]
                    variant(hoist)
    # dedupe
    seen, uniq = set(), []
    for q in out:
        key = json.dumps(q, sort_keys=True)
        if key not in seen:
            seen.add(key)
            uniq.append(q)
    return uniq


def shrink(rep, targets, max_rounds=8):
    """targets: {signature: Case}.  Rounds of one-step reductions; TLC decides every candidate.
    Returns {signature: minimal Case with the same signature}."""
    best = dict(targets)
    active = set(best)
    for rnd in range(max_rounds):
        cands = []
        owner = {}
        for sig in sorted(active):
            base = best[sig]
            for k, q in enumerate(reductions(base.prog)):
                try:
                    c = Case('s%d_%d_%d' % (rnd, len(cands), k), q, base.rules)
                except Exception:     # noqa - a reduction that cannot be rendered is just not a candidate
                    continue
                owner[c.id] = sig
                cands.append(c)
        if not cands:
            break
        for c in cands:
            try:
                observe(c, validate_model=False)
            except Exception:         # noqa
                c.rejected = None
                c.out = None
        res = tlc_check(cands, 'shrink%d' % rnd, workers=4)
        if res is not None:
            rep.add_tlc(res)
        active = set()
        for c in cands:
            if c.verdict is None and c.syntax is None:
                continue
            if c.verdict is not None and c.verdict['bad'][0]:
                continue              # the reduction left the language of the specification
            try:
                sigs = [s for s, _ in judge(c)]
            except common.MachineryError:
                continue
            sig = owner[c.id]
            if sig in sigs and L.node_count(c.prog) < L.node_count(best[sig].prog):
                if sig not in active or L.node_count(c.prog) < L.node_count(best[sig].prog):
                    best[sig] = c
                    active.add(sig)
    return best


# --------------------------------------------------------------------------- the check
def draw_configs(rep, n):
    """edge-pattern configurations drawn by TLC (-simulate, seeded) from the rule space of the spec"""
    res = tlc.run_tlc('Anf', CFG_CFG, workers=1, timeout=300, simulate=dict(num=40 * n, depth=3),
                      seed=common.seed() + 18, name='Anf_cfg')
    if res.rc != 0 or res.errors:
        raise common.MachineryError('Anf configs run failed:\n' + res.stdout[-2000:])
    cfgs, seen = [], set()
    for v in res.json:
        if isinstance(v, dict) and 'cfg' in v:
            key = json.dumps(v['cfg'], sort_keys=True)
            if key not in seen:
                seen.add(key)
                cfgs.append(v['cfg'])
    # TLC's simulator starts many behaviours with the same first rule: pick from the drawn pool in an order
    # that depends on the seed only
    cfgs.sort(key=lambda c: json.dumps(c, sort_keys=True))
    import random
    random.Random(common.seed() + 18).shuffle(cfgs)
    two = [c for c in cfgs if len(c) == 2]
    one = [c for c in cfgs if len(c) == 1]
    pick = (two[:n // 2] + one)[:n]
    if len(pick) < n:
        raise common.MachineryError('only %d configurations drawn' % len(pick))
    return pick


REQUIRED_KINDS = {'T', 'Name', 'Constant', 'Call', 'Attribute', 'Subscript', 'Slice', 'BinOp', 'UnaryOp', 'Compare',
                  'Tuple', 'List', 'Set', 'Dict', 'BoolOp', 'IfExp', 'Lambda', 'ListComp', 'Assign', 'AugAssign',
                  'Expr', 'Return', 'Raise', 'Delete', 'If', 'For', 'While', 'With', 'Try'}

FIXED_CONFIGS = [
    # the examples of the anf.transform docstring and of anf_test.py
    [dict(p='ANY', f='ANY', c='expr', a='REPLACE')],
    [dict(p='Call', f='ANY', c='literal', a='REPLACE')],
    [dict(p='If', f='test', c='ANY', a='LEAVE'), dict(p='Call', f='args', c='expr', a='REPLACE')],
]


def run(rep):
    tier = 1 if rep.tier == 'quick' else 2
    res = tlc.run_tlc('Anf', GEN_CFG % tier, workers=WORKERS, timeout=1500, name='Anf_gen').require_ok('Anf gen')
    rep.add_tlc(res)
    recs = [r for r in res.json if isinstance(r, dict) and 'runs' in r]
    res.stdout = ''
    res.json = []
    if not recs:
        raise common.MachineryError('the grammar machine printed no programs')
    recs.sort(key=lambda r: json.dumps(r, sort_keys=True))
    rep.set('programs', len(recs))
    configs = FIXED_CONFIGS + draw_configs(rep, 3 if tier == 1 else 9)
    rep.set('configurations', 1 + len(configs))
    rep.set('custom_configurations', configs)

    kinds = set()
    execs = 0
    found = {}
    counts = dict(rejected=0, transformed=0, cases=0)
    samples = []
    expects = {}
    chunk = 3000
    stride = 1 if tier == 1 else 4
    for j in range(0, len(recs), chunk):
        cases = []
        for k in range(j, min(j + chunk, len(recs))):
            r = recs[k]
            recs[k] = None
            prog = L.program(r)
            kinds |= {n['k'] for n in prog['n']}
            cases.append(Case('p%d' % k, prog, None, r['runs']))
            if k % stride == 0:
                cases.append(Case('p%dc' % k, prog, configs[(k // stride) % len(configs)], r['runs']))
        for c in cases:
            observe(c, validate_model=(c.rules is None))
            execs += len(c.runs)
        r2 = tlc_check(cases, 'main%d' % j)
        if r2 is not None:
            rep.add_tlc(r2)
        for c in cases:
            judge(c)
            if c.verdict is not None:
                expects[c.verdict['ex']] = expects.get(c.verdict['ex'], 0) + 1
            counts['rejected' if c.rejected is not None else 'transformed'] += 1
            counts['cases'] += 1
            rep.validated()
            for sig, what in c.findings:
                if sig not in found:
                    found[sig] = (c, what, 1)
                elif L.node_count(c.prog) < L.node_count(found[sig][0].prog):
                    found[sig] = (c, what, found[sig][2] + 1)
                else:
                    found[sig] = (found[sig][0], found[sig][1], found[sig][2] + 1)
        if j == 0:
            samples = [dict(source=c.src, output=c.text, predicted=c.runs[0]) for c in cases[:3]]
    rep.set('node_kinds_covered', sorted(kinds))
    rep.set('rejection_expectations', expects)
    # vacuity: every construct of the class and every rejection expectation must have been exercised
    missing = REQUIRED_KINDS - kinds
    if missing or any(expects.get(x, 0) == 0 for x in ('accept', 'reject', 'either')):
        raise common.MachineryError('vacuous run: node kinds never generated %s, expectations %s' % (
            sorted(missing), expects))
    rep.set('executions_compared', execs)
    rep.set('outcomes', counts)
    rep.set('signatures_seen', {s: n for s, (_, _, n) in sorted(found.items())})
    unknown = {s: c for s, (c, _, _) in found.items() if s not in rep.known_sigs}
    minimal = shrink(rep, dict(sorted(unknown.items())[:12])) if unknown else {}
    for sig, (c, what, n) in sorted(found.items()):
        m = minimal.get(sig, c)
        rep.violation(sig, what, m.witness(dict(first_seen_in=c.src) if m is not c else None))
        for _ in range(n - 1):
            rep.violation(sig, what, None)
    for x in samples:
        rep.sample(x)
    rep.assume('the run-time values are opaque tokens whose operations log and never raise; iteration of a starred '
               'operand and dict/set construction are effect-free (starred operands are displays)')
    rep.assume('CPython %s evaluation order is the reference; Anf.tla was validated against it on every '
               'enumerated program in this run' % '.'.join(map(str, __import__('sys').version_info[:3])))


def replay(path):
    w = json.load(open(path))
    wit = w['witness']
    print('signature:', w['signature'])
    print(wit['source'])
    c = Case('r0', wit['program'], None if wit['config'] == 'default' else wit['config'])
    observe(c, validate_model=False)
    res = tlc_check([c], 'replay', workers=2)
    judge(c)
    print(c.text if c.text is not None else 'rejected: %r' % (c.rejected,))
    print(json.dumps(c.verdict, indent=1))
    for sig, what in c.findings:
        print('FINDING', sig, what)
    return 1 if any(s == w['signature'] for s, _ in c.findings) else 0
