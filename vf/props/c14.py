"""C14 - builtin overloads behave like the builtins on ordinary Python values.

Part 1 (spec/Builtins.tla): TLC enumerates builtin x call shape x tagged argument values and prints the
result the specification demands (acceptance by Python's binding rules, value, exception type, iter()/
__next__/function-call events, lazy __next__ steps, printed text).  For every printed state
  1. the *real builtin* is called: a disagreement with the model is a MachineryError (exit 2);
  2. py_builtins.overload_of(b) is called;
  3. api.converted_call(b, args, kwargs, options=...) is called;
  any departure of 2 or 3 from the specification is a violation.
Part 2 (spec/BuiltinFrames.tla): frame model for eval / locals / globals / zero-argument super inside
functionalised loop and branch bodies, see vf/c14_frames.py.
"""
import inspect
import json
import os

from .. import common, tlc
from .. import c14_values as cv
from .. import c14_frames as cf

LAWS = ['CallIsLazy', 'OnePullPerSource', 'ShortestStops', 'StrictLaw', 'EnumerateLaw', 'FilterLaw',
        'AnyAllLaw', 'SortedLaw', 'RangeLaw', 'RejectLaw', 'Expect']
ALL_FNS = ['abs', 'all', 'any', 'enumerate', 'filter', 'float', 'int', 'len', 'map', 'print', 'range',
           'sorted', 'zip']
ACTIONS = ['PickBuiltin', 'PickShape', 'PickArg', 'Call', 'StepNext']


def _cfg(tier, fns):
    return ('SPECIFICATION Spec\nCONSTANT Tier = "%s"\nCONSTANT Fns = {%s}\n' % (
        tier, ', '.join('"%s"' % f for f in fns))
        + ''.join('INVARIANT %s\n' % x for x in LAWS) + 'CHECK_DEADLOCK FALSE\n')


def _shape(rec):
    return 'np%d' % rec['np'] + ''.join('+' + k for k in rec['kw'])


def _tags(rec):
    return ','.join(v['t'] for v in rec['vals'])


def _signature(rec, clause, obs, overload, args, kwargs, via):
    """Stable identification of the failing input class (see notes/C14.md)."""
    b = rec['b']
    if obs['kind'] == 'exc' and obs['exc'] == 'TypeError' and rec['out']['k'] != 'exc':
        # does the overload's own re-declared signature refuse this (Python-accepted) shape?
        try:
            sig = inspect.signature(overload)
            try:
                sig.bind(*args, **kwargs)
            except TypeError:
                names = set(sig.parameters)
                off = [k for k in rec['kw'] if k not in names]
                if off:
                    return 'c14:%s:kw-%s' % (b, off[0])
                return 'c14:%s:bind:%s' % (b, _shape(rec))
        except (TypeError, ValueError):
            pass
    return 'c14:%s:%s:%s:%s%s' % (b, clause, _shape(rec), _tags(rec), via)


def _witness(rec, exp, obs, route):
    return dict(call=dict(b=rec['b'], np=rec['np'], kw=rec['kw'], vals=rec['vals']), route=route,
                expected=exp, observed=obs)


def run_builtins(rep, tier, workers):
    import builtins
    from malt.operators import py_builtins
    from malt.impl import api
    from malt.core import converter, ag_ctx

    groups = [ALL_FNS] if tier == 'quick' else [['zip'], ['print'], ['map'], ['sorted', 'range'],
                                                [f for f in ALL_FNS if f not in ('zip', 'print', 'map', 'sorted', 'range')]]
    opts = converter.ConversionOptions(recursive=True)
    reached = [0]
    orig_overload_of = py_builtins.overload_of

    def spy(f):
        reached[0] += 1
        return orig_overload_of(f)

    stats = dict(calls=0, rejected_shapes=0, accepted=0, lazy=0, next_steps=0, exc_expected=0,
                 rejected_shape_overload_differs=0)
    per_fn = {}
    strtab = None
    n_cc = 0
    cov = {}
    for fns in groups:
        res = tlc.run_tlc('Builtins', _cfg(tier, fns), workers=workers, timeout=1500,
                          coverage=(tier == 'quick'), name='Builtins_' + fns[0], jvm_mem='6g')
        res.require_ok('Builtins ' + ','.join(fns))
        rep.add_tlc(res)
        for k, v in res.coverage.items():
            cov[k] = cov.get(k, 0) + v[0]
        recs = sorted(res.json, key=lambda r: json.dumps(r, sort_keys=True))   # TLC's print order depends on worker timing
        res.stdout = ''
        for rec in recs:
            if 'strtab' in rec:
                strtab = rec['strtab']
        for rec in recs:
            if 'strtab' in rec:
                continue
            b = getattr(builtins, rec['b'])
            overload = py_builtins.overload_of(b)
            if overload is b:
                raise common.MachineryError('py_builtins.overload_of(%s) is the builtin itself' % rec['b'])
            exp = cv.expected_obs(rec)
            stats['calls'] += 1
            per_fn[rec['b']] = per_fn.get(rec['b'], 0) + 1
            # ---- 1. model validation on CPython
            real = cv.observe(b, rec, strtab)
            d = cv.diff(exp, real)
            if d:
                raise common.MachineryError(
                    'MODEL ERROR: Builtins.tla disagrees with the real builtin (%s): %s' % (
                        d, json.dumps(_witness(rec, exp, real, 'builtin'), default=str)[:3000]))
            # ---- 2./3. the overload, directly and through converted_call
            if rec['rej']:
                stats['rejected_shapes'] += 1
                got = cv.observe(overload, rec, strtab)
                if cv.diff(exp, got):
                    # outside the quantifier of the property ("every way of calling it that Python accepts")
                    stats['rejected_shape_overload_differs'] += 1
                continue
            stats['accepted'] += 1
            if exp['kind'] == 'lazy':
                stats['lazy'] += 1
                stats['next_steps'] += len(exp['steps'])
            if exp['kind'] == 'exc':
                stats['exc_expected'] += 1
            direct_bad = False
            got = cv.observe(overload, rec, strtab)
            d = cv.diff(exp, got)
            if d:
                direct_bad = True
                a, k, _, _ = cv.build_call(rec, strtab)
                rep.violation(_signature(rec, d, got, overload, a, k, ''),
                              '%s overload departs from the builtin (%s) for shape %s' % (rec['b'], d, _shape(rec)),
                              _witness(rec, exp, got, 'overload_of'))

            def via_cc(*a, **k):
                with ag_ctx.ControlStatusCtx(status=ag_ctx.Status.ENABLED):
                    return api.converted_call(b, a, (k if k else None), options=opts)

            py_builtins.overload_of = spy
            try:
                before = reached[0]
                got = cv.observe(via_cc, rec, strtab)
                n_cc += 1
                if reached[0] != before + 1:
                    raise common.MachineryError('converted_call(%s, ...) did not go through overload_of' % rec['b'])
            finally:
                py_builtins.overload_of = orig_overload_of
            d = cv.diff(exp, got)
            if d and not direct_bad:
                a, k, _, _ = cv.build_call(rec, strtab)
                rep.violation(_signature(rec, d, got, overload, a, k, ':via-converted_call'),
                              'converted_call(%s, ...) departs from the builtin (%s) for shape %s' % (
                                  rec['b'], d, _shape(rec)),
                              _witness(rec, exp, got, 'converted_call'))
            elif d:
                a, k, _, _ = cv.build_call(rec, strtab)
                rep.violation(_signature(rec, d, got, overload, a, k, ''),
                              'converted_call(%s, ...) departs from the builtin (%s) for shape %s' % (
                                  rec['b'], d, _shape(rec)),
                              _witness(rec, exp, got, 'converted_call'))
            rep.validated()
            if rec['b'] in ('zip', 'sorted', 'print') and rec['kw'] and exp['kind'] != 'exc':
                rep.sample(dict(b=rec['b'], np=rec['np'], kw=rec['kw'], vals=rec['vals'], expected=exp), limit=3)
        del recs
    if tier == 'quick':
        missing = [a for a in ACTIONS if not cov.get(a)]
        if missing:
            raise common.MachineryError('vacuity: actions of Builtins.tla never taken: %s' % missing)
    if set(per_fn) != set(ALL_FNS):
        raise common.MachineryError('vacuity: builtins never enumerated: %s' % sorted(set(ALL_FNS) - set(per_fn)))
    for k, v in stats.items():
        rep.set('builtin_' + k, v)
    rep.set('builtin_calls_per_fn', per_fn)
    rep.set('converted_call_route_calls', n_cc)


def run(rep):
    tier = rep.tier
    workers = int(os.environ.get('VERIF_WORKERS', '6'))   # TLC workers and conversion processes (shared machine)
    run_builtins(rep, tier, workers)
    cf.run_frames(rep, tier, workers)
    rep.assume('Call shapes Python rejects (TypeError from argument binding) are outside the property: the model is '
               'validated on them against CPython, the overload is only counted (builtin_rejected_shape_overload_differs)')
    rep.assume('Set-valued arguments with more than one element are used only where the result does not depend on '
               'iteration order; events of un-instrumented containers (list/tuple/set/dict) are not observable')
    rep.assume('locals(): every user variable visible at the call must be present with its value; extra generated '
               'names (fscope, ag__, do_return, ...) are not alarms')


def replay(path):
    w = json.load(open(path))
    print(json.dumps(w, indent=1, default=str)[:6000])
    wit = w.get('witness', {})
    if 'call' in wit:
        import builtins
        from malt.operators import py_builtins
        res = tlc.run_tlc('Builtins', _cfg('quick', [wit['call']['b']]), workers=2, timeout=300)
        strtab = [r for r in res.json if 'strtab' in r][0]['strtab']
        c = wit['call']
        rec = None
        for r in res.json:
            if 'strtab' not in r and r['np'] == c['np'] and r['kw'] == c['kw'] and r['vals'] == c['vals']:
                rec = r
        if rec is None:
            tres = tlc.run_tlc('Builtins', _cfg('thorough', [c['b']]), workers=4, timeout=900)
            for r in tres.json:
                if 'strtab' not in r and r['np'] == c['np'] and r['kw'] == c['kw'] and r['vals'] == c['vals']:
                    rec = r
        if rec is None:
            print('witness call is not a state of Builtins.tla any more')
            return 2
        from malt.impl import api
        from malt.core import converter, ag_ctx
        b = getattr(builtins, c['b'])
        opts = converter.ConversionOptions(recursive=True)

        def via_cc(*a, **k):
            with ag_ctx.ControlStatusCtx(status=ag_ctx.Status.ENABLED):
                return api.converted_call(b, a, (k if k else None), options=opts)

        exp = cv.expected_obs(rec)
        real = cv.observe(b, rec, strtab)
        got = cv.observe(py_builtins.overload_of(b), rec, strtab)
        got2 = cv.observe(via_cc, rec, strtab)
        print('specification :', exp)
        print('real builtin  :', real)
        print('overload      :', got, '->', cv.diff(exp, got) or 'agrees')
        print('converted_call:', got2, '->', cv.diff(exp, got2) or 'agrees')
        if cv.diff(exp, real):
            return 2
        return 1 if (cv.diff(exp, got) or cv.diff(exp, got2)) else 0
    return cf.replay(wit)
