"""C16 - conversion-status context is restored on every exit and isolated per thread.

Decided by spec/CtxStack.tla (+ spec/TraceCtxStack.tla):

  design   TLC checks StackShape / Restored / RegionStatus / Quiescent / AssertOK and the action property
           Isolation on the model, two threads interleaved, exhaustively for small constants.
  spec -> code
           TLC enumerates (BFS, exhaustively) and samples (-simulate) single-thread behaviours = call trees
           over the wrapper kinds with raise / catch points, and prints for each the predicted probe log.
           Every tree is rebuilt from the real malt wrappers around vf/c16_body.body and executed; the
           observed probe log must equal the prediction (identity up to renaming, status, mode).
           Trees of 2-4 predicted behaviours are also executed in real threads under a deterministic
           scheduler (one probe at a time, seeded merge order).
  code -> spec
           1-16 real threads run seeded random trees (all 36 kinds, deeper/wider than the enumeration)
           concurrently; the merged probe log of each run is validated by TLC against TraceCtxStack
           (reuses the CtxStack actions; acceptance is TLC's verdict).
"""
import os
import sys
import json
import random
import threading

from .. import common, tlc

INVS = ['StackShape', 'Restored', 'RegionStatus', 'Quiescent', 'AssertOK', 'TypeOK']
ACTIONS = ['BodyStart', 'Call', 'WEnter', 'WInvoke', 'Raise', 'Finish', 'BodyReturn', 'WExit', 'BodyUnwind',
           'WUnwind', 'Catch', 'Propagate', 'After']


def _cfg(threads, depth, width, nodes, kinds, record, nparts=1, part=0, expect=False, spec='Spec', extra=''):
    lines = ['SPECIFICATION ' + spec,
             'CONSTANT Threads = {%s}' % ', '.join(str(t) for t in threads),
             'CONSTANT MaxDepth = %d' % depth, 'CONSTANT MaxWidth = %d' % width, 'CONSTANT MaxNodes = %d' % nodes,
             'CONSTANT Kinds <- %s' % kinds, 'CONSTANT NParts = %d' % nparts, 'CONSTANT Part = %d' % part,
             'CONSTANT Record = %s' % ('TRUE' if record else 'FALSE')]
    lines += ['INVARIANT ' + i for i in INVS]
    if expect:
        lines.append('INVARIANT Expect')
    if spec == 'Spec':
        lines.append('PROPERTY Isolation')
    if extra:
        lines.append(extra)
    lines.append('CHECK_DEADLOCK FALSE')
    return '\n'.join(lines) + '\n'


# ---------------------------------------------------------------------------------------------------------
# rendering / signatures

def klabel(k):
    if k is None:
        return 'driver'
    w = k['w']
    if w == 'cvt':
        return 'convert-%s%s-%s' % ('lambda-' if k.get('lam') else '', 'rec' if k['rec'] else 'nonrec', 'ur' if k['ur'] else 'nur')
    if w == 'ic':
        return 'internal-%s-%s-%s' % (k['src'], 'cbd' if k['cbd'] else 'ncbd', 'ur' if k['ur'] else 'nur')
    return {'dnc': 'do_not_convert', 'uns': 'unspecified', 'blk': 'with-block', 'plain': 'plain'}[w]


WHAT = {
    'identity': 'control_status_ctx() is not the object the specification says it is (context not restored)',
    'isolation': 'a thread observes a context object that belongs to another thread',
    'status': 'the status visible at this probe differs from the documented one',
    'structure': 'the control flow of the probes deviates (unexpected or missing exception)',
    'node': 'the control flow of the probes deviates (unexpected or missing exception)',
    'incomplete': 'a thread stopped before its call tree was finished, or finished with a different outcome',
}


def _sig(clause, tag, kind, exc):
    if clause == 'node':
        clause = 'structure'
    return 'c16:%s:%s:%s%s' % (clause, tag, klabel(kind), ':exc' if exc else '')


def render_log(events):
    """Observed events with context objects replaced by small numbers (order of first appearance)."""
    m = {}
    out = []
    for e in events:
        out.append([e[1], e[2], m.setdefault(id(e[3]), len(m)), e[4], e[5], e[7]])
    return out


def first_diff(exp, got):
    """exp: TLC's [n, tag, id, st, conv]; got: observed events. First disagreement or None.

    Identity is compared up to renaming: one model id <-> always the same object."""
    m = {}
    for i, e in enumerate(exp):
        if i >= len(got):
            return i, 'structure', e[1], e[0]
        g = got[i]
        if g[1] != e[0] or g[2] != e[1]:
            return i, 'structure', e[1], e[0]
        if e[2] in m and m[e[2]] is not g[3]:
            return i, 'identity', e[1], e[0]
        m[e[2]] = g[3]
        if g[4] != e[3]:
            return i, 'status', e[1], e[0]
        if g[5] != e[4]:
            return i, 'mode', e[1], e[0]
    if len(got) > len(exp):
        return len(exp), 'structure', got[len(exp)][2], got[len(exp)][1]
    return None


def _kind_of(tree, n):
    return tree[n - 1]['k'] if 0 < n <= len(tree) else None


# ---------------------------------------------------------------------------------------------------------
# spec -> code: replay one predicted behaviour in the calling thread

def clean_stack(B, rep):
    """A context leaked by an earlier (already reported) case must not cascade into the following ones."""
    st = B.ag_ctx._control_ctx()
    if len(st) != 1:
        del st[1:]
        rep.add('stack_resets_after_leak')


def replay_case(B, case, rep, origin):
    clean_stack(B, rep)
    log = B.Log()
    drv = any(e[0] == 0 and e[1] == 'raise' for e in case['log'])
    esc = B.run_tree(case['tree'], log, drv)
    d = first_diff(case['log'], log.events)
    if d is None and bool(esc) != bool(case['exc']):
        d = (len(case['log']), 'incomplete', 'end', 0)
    if d is None:
        return True
    i, clause, tag, n = d
    exc = bool(i < len(log.events) and log.events[i][7])
    witness = dict(mode='tree', origin=origin, tree=case['tree'], expected=case['log'], expected_escapes=case['exc'],
                   observed=render_log(log.events), escaped=esc, first_difference=i, clause=clause)
    if clause == 'mode':
        raise common.MachineryError(
            'C16: the body of node %d ran %s but the model of converted_call\'s decision says otherwise '
            '(not a C16 matter): %s' % (n, 'converted' if log.events[i][5] else 'unconverted', json.dumps(witness)[:1500]))
    rep.violation(_sig(clause, tag, _kind_of(case['tree'], n), exc),
                  '%s at probe %r of a call through %s' % (WHAT[clause], tag, klabel(_kind_of(case['tree'], n))), witness)
    return False


class _Collector(object):
    """Stand-in for the report inside a worker process."""

    def __init__(self):
        self.viol = {}
        self.counts = {}

    def violation(self, sig, what, witness):
        if sig in self.viol:
            self.viol[sig][2] += 1
        else:
            self.viol[sig] = [what, witness, 1]

    def add(self, key, n=1):
        self.counts[key] = self.counts.get(key, 0) + n


_MP = {}


def _replay_chunk(span):
    B, cases, origin = _MP['B'], _MP['cases'], _MP['origin']
    col = _Collector()
    ok = 0
    for c in cases[span[0]:span[1]]:
        if replay_case(B, c, col, origin):
            ok += 1
    return ok, col.viol, col.counts


def replay_all(B, cases, rep, origin, nproc=1):
    """Replay every predicted behaviour; big batches are split over forked worker processes."""
    if nproc <= 1 or len(cases) < 20000:
        for c in cases:
            if replay_case(B, c, rep, origin):
                rep.validated()
        return
    import multiprocessing
    _MP.update(B=B, cases=cases, origin=origin)
    step = 2000
    spans = [(i, min(i + step, len(cases))) for i in range(0, len(cases), step)]
    try:
        with multiprocessing.get_context('fork').Pool(nproc) as pool:
            for ok, viol, counts in pool.imap(_replay_chunk, spans):
                rep.validated(ok)
                for sig, (what, witness, n) in viol.items():
                    for _ in range(n):
                        rep.violation(sig, what, witness)
                for k, n in counts.items():
                    rep.add(k, n)
    finally:
        _MP.clear()


# ---------------------------------------------------------------------------------------------------------
# real threads

def run_threads(B, trees, order=None, switch=1e-6):
    """Run trees[i] in thread i+1, all started together. Returns (logs, escapes, diverged)."""
    n = len(trees)
    sched = B.Sched(order) if order is not None else None
    logs = [B.Log(thread=i + 1, sched=sched) for i in range(n)]
    esc = [None] * n
    barrier = threading.Barrier(n)
    crashed = []

    def work(i):
        try:
            barrier.wait(timeout=30)
            esc[i] = B.run_tree(trees[i]['tree'], logs[i], trees[i].get('drv', False))
        except BaseException as e:  # harness failure, not an observation
            crashed.append(repr(e))
        finally:
            if sched is not None:
                sched.finish(i + 1)

    old = sys.getswitchinterval()
    sys.setswitchinterval(switch)
    try:
        ths = [threading.Thread(target=work, args=(i,), daemon=True) for i in range(n)]
        for t in ths:
            t.start()
        for t in ths:
            t.join(120)
        if any(t.is_alive() for t in ths) or crashed:
            raise common.MachineryError('C16 thread harness failed: %s' % (crashed or 'threads still alive'))
    finally:
        sys.setswitchinterval(old)
    return logs, esc, bool(sched and sched.diverged)


def make_run(rid, logs, esc):
    """Merge the per-thread probe logs by the global counter and number the observed context objects."""
    merged = []
    for lg in logs:
        for e in lg.events:
            merged.append((e[0], lg.thread, e))
    merged.sort(key=lambda x: x[0])
    cid = {}
    evs = []
    nokind = dict(w='-', rec=False, ur=False, src='none', cbd=False, lam=False)
    for _, t, e in merged:
        k = dict(nokind)
        if e[8] is not None:
            k.update(e[8])
        evs.append(dict(t=t, n=e[1], tag=e[2], cid=cid.setdefault(id(e[3]), len(cid) + 1), st=e[4], conv=bool(e[5]), k=k,
                        et=e[7], depth=e[6]))
    return dict(id=rid, nt=len(logs), esc=[bool(x) for x in esc], ev=evs)


def validate_runs(rep, runs, meta, workers, tag):
    """TLC decides acceptance of every run (TraceCtxStack). meta[run id] -> what is needed to replay it."""
    if not runs:
        return
    d = common.scratch('c16_traces_%s_%d' % (tag, os.getpid()))
    try:
        path = os.path.join(d, 'runs.json')
        with open(path, 'w') as f:
            json.dump(runs, f)
        cfg = _cfg(range(1, 17), 1000, 1000, 100000, 'KindsAll', False, spec='TSpec', extra='INVARIANT Report')
        res = tlc.run_tlc('TraceCtxStack', cfg, env={'C16_TRACES': path}, workers=workers, timeout=1500,
                          name='TraceCtxStack_' + tag).require_ok('TraceCtxStack ' + tag)
    finally:
        common.rmtree(d)
    rep.add_tlc(res)
    verdicts = {}
    for v in res.json:
        if isinstance(v, dict) and 'run' in v and 'v' in v:
            verdicts.setdefault(v['run'], v)
    byid = {r['id']: r for r in runs}
    if set(verdicts) != set(byid):
        raise common.MachineryError('TraceCtxStack gave verdicts for %d of %d runs' % (len(verdicts), len(runs)))
    for rid, v in sorted(verdicts.items()):
        run = byid[rid]
        if v['v'] == 'accepted':
            rep.validated()
            rep.add('trace_events_validated', len(run['ev']))
            continue
        li = v['l'] - 1
        e = run['ev'][li] if 0 <= li < len(run['ev']) else None
        clause = v['clause']
        kinds = {(x['t'], x['n']): x['k'] for x in run['ev'] if x['tag'] == 'pre'}
        kind = kinds.get((e['t'], e['n'])) if e else None
        witness = dict(mode='threads', run=rid, verdict=v, event=e, events_before=run['ev'][max(0, li - 12):li + 1],
                       replay=meta.get(rid))
        if clause == 'mode':
            raise common.MachineryError('C16: conversion mode differs from the model of converted_call\'s decision '
                                        '(not a C16 matter): %s' % json.dumps(witness)[:1500])
        rep.violation(_sig(clause, e['tag'] if e else 'end', kind, bool(e and e['et'])),
                      '%s at probe %r of a call through %s (%d thread(s))' % (
                          WHAT[clause], e['tag'] if e else 'end', klabel(kind), run['nt']), witness)


# ---------------------------------------------------------------------------------------------------------
# seeded random trees for the stress runs (inputs only; TLC decides what is right for them)

def all_kinds():
    ks = [dict(w='cvt', rec=r, ur=u, src='none', cbd=False, lam=l) for l in (False, True) for r in (False, True)
          for u in (False, True)]
    ks += [dict(w=w, rec=False, ur=False, src='none', cbd=False, lam=False) for w in ('dnc', 'uns', 'blk', 'plain')]
    ks += [dict(w='ic', rec=True, ur=u, src=s, cbd=c, lam=False) for s in ('cur', 'up1', 'up2', 'E', 'D', 'U') for c in (False, True)
           for u in (False, True)]
    return ks


def random_tree(rng, kinds, max_depth, max_width, max_nodes):
    tree = []

    def grow(parent, depth):
        for _ in range(rng.randint(0 if depth else 1, max_width)):
            if len(tree) >= max_nodes:
                return
            tree.append(dict(p=parent, k=rng.choice(kinds), catch=rng.random() < 0.5,
                             raises=rng.choice([0, 0, 0, 0, 0, 1, 1, 2])))    # 2: a BaseException that is no Exception
            me = len(tree)
            if depth + 1 < max_depth:
                grow(me, depth + 1)

    grow(0, 0)
    return dict(tree=tree, drv=rng.random() < 0.1)


# ---------------------------------------------------------------------------------------------------------

def run(rep):
    from .. import c16_body as B
    quick = rep.tier == 'quick'
    seed = common.seed()
    W = int(os.environ.get('VERIF_WORKERS', '16'))
    NPROC = 1 if quick else min(W, 8)
    WP = min(W, 8)      # runs that print one JSON line per behaviour: more workers only contend

    # --- vacuity: every action of the specification is taken (tiny instance, coverage on)
    # and the captured-context kinds do put one context object on a stack twice with another one in between
    res = tlc.run_tlc('CtxStack', _cfg([1], 2, 2, 2, 'KindsCov', True, extra='INVARIANT SplitReport'),
                      workers=2, timeout=300, coverage=True, name='CtxStack_cov').require_ok('CtxStack coverage')
    missing = [a for a in ACTIONS if res.coverage.get(a, (0, 0))[0] == 0]
    if missing:
        raise common.MachineryError('CtxStack: actions never taken: %s' % missing)
    nsplit = sum(1 for v in res.json if isinstance(v, dict) and v.get('split'))
    if not nsplit:
        raise common.MachineryError('CtxStack: no state with a context object entered twice below another context')
    rep.set('model_states_with_reentered_captured_context_tiny', nsplit)
    rep.add_tlc(res)

    # --- design level: two threads interleaved, all invariants + Isolation
    design = [(2, 1, 2, 'KindsTiny')] if quick else [(2, 2, 2, 'KindsSmall'), (4, 1, 4, 'KindsTrio')]
    for (d, w, n, ks) in design:
        res = tlc.run_tlc('CtxStack', _cfg([1, 2], d, w, n, ks, False), workers=W, timeout=1500,
                          name='CtxStack_2t').require_ok('CtxStack two threads %s' % ((d, w, n, ks),))
        rep.add_tlc(res)
        rep.add('design_states_two_threads', res.distinct)

    # --- spec -> code, exhaustive (BFS) single-thread behaviours
    if quick:
        bfs = [(2, 2, 2, 'KindsCoreUp', 1), (3, 2, 3, 'KindsTiny', 1), (3, 1, 3, 'KindsUp', 1)]
    else:
        bfs = [(3, 2, 3, 'KindsCore', 7), (4, 2, 4, 'KindsTiny', 5), (2, 2, 2, 'KindsCoreUp', 1),
               (3, 2, 3, 'KindsUp', 1)]
    for (d, w, n, ks, nparts) in bfs:
        for part in range(nparts):
            res = tlc.run_tlc('CtxStack', _cfg([1], d, w, n, ks, True, nparts, part, expect=True), workers=WP,
                              timeout=1500, name='CtxStack_bfs').require_ok('CtxStack BFS %s' % ((d, w, n, ks, part),))
            rep.add_tlc(res)
            cases = [c for c in res.json if isinstance(c, dict) and 'tree' in c]
            if not cases and nparts == 1:
                raise common.MachineryError('CtxStack BFS printed no behaviours')
            replay_all(B, cases, rep, 'bfs %s' % ((d, w, n, ks),), NPROC)
            rep.add('behaviours_exhaustive', len(cases))
            if cases:
                rep.sample(dict(tree=[[x['p'], klabel(x['k']), x['catch'], x['raises']] for x in cases[len(cases) // 2]['tree']],
                                predicted_log=cases[len(cases) // 2]['log']))
            del res, cases

    # --- spec -> code, sampled deeper behaviours over all 36 kinds (TLC -simulate, seeded)
    nsim = max(1, (2400 if quick else 48000) // W)        # -simulate num is per worker
    res = tlc.run_tlc('CtxStack', _cfg([1], 4, 3, 8, 'KindsAll', True, expect=True), workers=W, timeout=1500,
                      simulate=dict(num=nsim, depth=500), seed=seed, name='CtxStack_sim').require_ok('CtxStack simulate')
    rep.add_tlc(res)
    sims = [c for c in res.json if isinstance(c, dict) and 'tree' in c]
    sims.sort(key=lambda c: json.dumps(c, sort_keys=True))
    replay_all(B, sims, rep, 'simulate depth 4', NPROC)
    rep.add('behaviours_sampled', len(sims))
    pool = [c for c in sims if c['tree']]
    if not pool:
        raise common.MachineryError('CtxStack simulate produced no behaviours')

    rng = random.Random(seed * 7919 + 16)
    runs, meta = [], {}

    # --- spec -> code with real threads under the deterministic scheduler
    nsched = 40 if quick else 600
    for i in range(nsched):
        nt = rng.choice([2, 2, 2, 3, 4])
        picks = [rng.choice(pool) for _ in range(nt)]
        trees = [dict(tree=c['tree'], drv=any(e[0] == 0 and e[1] == 'raise' for e in c['log']), log=c['log']) for c in picks]
        order = []
        for t, c in enumerate(picks):
            order += [t + 1] * len(c['log'])
        rng.shuffle(order)
        clean_stack(B, rep)
        logs, esc, div = run_threads(B, trees, order)
        rid = 'sched-%d' % i
        runs.append(make_run(rid, logs, esc))
        meta[rid] = dict(trees=trees, order=order, diverged=div)
        rep.add('scheduled_runs')
        if div:
            rep.add('scheduled_runs_diverged')

    # --- code -> spec: free-running threads, seeded random trees beyond the enumeration bounds
    kinds = all_kinds()
    nstress = 60 if quick else 1200
    for i in range(nstress):
        nt = rng.choice([1, 2, 3, 4, 6, 8, 12, 16])
        trees = [random_tree(rng, kinds, rng.choice([3, 4, 4, 5] if quick else [3, 4, 5, 6]), 3, 24) for _ in range(nt)]
        clean_stack(B, rep)
        logs, esc, _ = run_threads(B, trees, None)
        rid = 'stress-%d' % i
        runs.append(make_run(rid, logs, esc))
        meta[rid] = dict(trees=trees, order=None)
        rep.add('stress_runs')
        rep.add('stress_threads', nt)
    for j, chunk in enumerate(common.chunks(runs, 400)):
        validate_runs(rep, chunk, meta, W, 'b%d' % j)

    rep.set('wrapper_kinds', len(kinds))
    rep.assume('Python runs the __exit__ of every with-block of a frame that is left, normally or by an exception '
               '(modelled by Leave in CtxStack.tla)')
    rep.assume('probe events of different threads are ordered by an atomic counter; any order is a behaviour because '
               'the model has no shared state')


def replay(path):
    """Re-run the witness of a violation and show specification vs. implementation."""
    from .. import c16_body as B
    from .. import report
    w = json.load(open(path))['witness']
    # a Report clears its replay directory: keep the replayed file, write this run's evidence elsewhere
    os.environ['VERIF_EVIDENCE_DIR'] = os.path.join(common.BUILD, 'c16_replay_evidence')
    rep = report.Report('C16', 'replay')
    if w.get('mode') == 'tree':
        case = dict(tree=w['tree'], log=w['expected'], exc=w['expected_escapes'])
        log = B.Log()
        esc = B.run_tree(case['tree'], log, any(e[0] == 0 and e[1] == 'raise' for e in case['log']))
        print('call tree (node: parent, wrapper, catches, raises):')
        for i, x in enumerate(case['tree']):
            print('  %d: parent=%d %s catch=%s raises=%s' % (i + 1, x['p'], klabel(x['k']), x['catch'], x['raises']))
        print('%-34s | %s' % ('specification [node, probe, ctx, status, converted]', 'implementation [.., exception]'))
        obs = render_log(log.events)
        for i in range(max(len(case['log']), len(obs))):
            a = case['log'][i] if i < len(case['log']) else ''
            b = obs[i] if i < len(obs) else ''
            print('%-34s | %s' % (json.dumps(a), json.dumps(b)))
        print('exception escapes the driver: specification=%s implementation=%r' % (case['exc'], esc))
        replay_case(B, case, rep, 'replay')
    else:
        m = w.get('replay') or {}
        print(json.dumps(dict(verdict=w.get('verdict'), event=w.get('event')), indent=1))
        runs, meta = [], {}
        for i in range(20 if m.get('order') is None else 1):
            logs, esc, _ = run_threads(B, m['trees'], m.get('order'))
            rid = 'replay-%d' % i
            runs.append(make_run(rid, logs, esc))
            meta[rid] = m
        validate_runs(rep, runs, meta, 4, 'replay')
    return rep.finish()
