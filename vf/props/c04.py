"""C04 - every overloadable construct is routed through its operator.

Dynamic clause: spec/Routing.tla predicts for every execution the ordered user-level operator events; they
must embed in the events recorded from instrumented operators while the converted function runs.
Static clause: the generated code (to_code) contains no native if/while/for/break/continue/and/or/not/
conditional expression, and no native call outside the documented exceptions and the converter's scaffolding.
"""
import ast
import json

from .. import common, mpmon, mprun, minipy as mp
from .. import replay as rp

NATIVE = (ast.If, ast.While, ast.For, ast.Break, ast.Continue, ast.BoolOp, ast.IfExp)


def _is_ag(call):
    f = call.func
    while isinstance(f, ast.Attribute):
        f = f.value
    return isinstance(f, ast.Name) and (f.id == 'ag__' or f.id.startswith('fscope') or f.id.startswith('lscope'))


def native_constructs(code):
    """Native overloadable constructs surviving in generated code: list of (kind, line, text)."""
    tree = ast.parse(code)
    out = []
    parents = {}
    for n in ast.walk(tree):
        for c in ast.iter_child_nodes(n):
            parents[c] = n
    withitem_exprs = set()
    for n in ast.walk(tree):
        if isinstance(n, ast.With):
            for it in n.items:
                for x in ast.walk(it.context_expr):
                    withitem_exprs.add(x)
    for n in ast.walk(tree):
        if isinstance(n, NATIVE) or (isinstance(n, ast.UnaryOp) and isinstance(n.op, ast.Not)):
            out.append((type(n).__name__, getattr(n, 'lineno', 0)))
        elif isinstance(n, ast.Call):
            if _is_ag(n) or n in withitem_exprs:
                continue
            # scaffolding: tuple(<starargs>) / dict(<keywords>) built as arguments of ag__.converted_call
            par = parents.get(n)
            while isinstance(par, (ast.BinOp, ast.Tuple)):
                par = parents.get(par)
            if isinstance(n.func, ast.Name) and n.func.id in ('tuple', 'dict') and isinstance(par, ast.Call) and _is_ag(par):
                continue
            out.append(('Call', getattr(n, 'lineno', 0)))
    return out


def run(rep):
    tier = rep.tier
    progs, tlcs = mpmon.program_set(tier, common.seed(), loop_else=False)
    for r in tlcs:
        rep.add_tlc(r)
    res, wd2 = mprun.explore(progs, module='Routing', spec='MSpec', invariants=('Report',), bounds=mpmon.bounds(tier),
                             name='c04', timeout=3000)
    rep.add_tlc(res)
    recs = res.json
    mprun.validate_model(progs, recs)
    if tier == 'thorough':
        opts = [dict(o, ops='count', code=True) for o in (rp.OPTION_SETS[0], rp.OPTION_SETS[1], rp.OPTION_SETS[3], dict(rp.OPTION_SETS[2], every=4),
                                                          dict(rp.OPTION_SETS[4], every=4), rp.LISTS_OPTION)]
    else:   # quick: run one option set, convert + scan the generated code of one more
        opts = [dict(rp.OPTION_SETS[0], ops='count', code=True), dict(rp.LISTS_OPTION, ops='count', code=True)] + [
            dict(o, ops='count', code=True, norun=True) for o in rp.OPTION_SETS[2:3]]
    div, nrun, errs = rp.replay_all(progs, recs, opts, name='c04')
    rep.set('programs', len(progs))
    rep.set('executions', len(recs))
    rep.set('converted_runs', nrun)
    rep.set('option_sets', [o['name'] for o in opts])
    rep.set('predicted_user_events', sum(len(r['ulog']) for r in recs))
    rep.validated(nrun - len(div))
    for r in rp.replay_all.routing:
        p = progs[r['pid'] - 1]
        # the first predicted event that does not embed
        i = 0
        for e in r['observed']:
            if i < len(r['expected']) and e == r['expected'][i]:
                i += 1
        missing = r['expected'][i] if i < len(r['expected']) else ['?', 0]
        rep.violation('c04:dyn:%s-not-observed' % missing[0],
                      'predicted user-level %s (effect log length %s) was not observed by the instrumented operators' % tuple(missing),
                      dict(source=mp.render(p)[0], decisions=r['dec'], option_set=r['opt'], expected=r['expected'], observed=r['observed']))
    ncode = 0
    for pid, codes in rp.replay_all.codes.items():
        p = progs[pid - 1]
        for oname, code in codes.items():
            if code is None:
                continue
            ncode += 1
            import textwrap
            for kind, line in native_constructs(textwrap.dedent(code)):
                rep.violation('c04:static:native-%s' % kind, 'a native %s survives in the generated code' % kind,
                              dict(source=mp.render(p)[0], option_set=oname, generated=code, line=line))
    rep.set('generated_functions_scanned', ncode)
    for r in recs[:2]:
        rep.sample(dict(source=mp.render(progs[r['pid'] - 1])[0], decisions=r['dec'], predicted_events=r['ulog']))
    rep.assume('executions on which the converted function already diverges from the prediction are judged by C01, not here')
    rep.assume('contexts generated: loop/branch/try/except/finally/with bodies, nested defs, operands of other overloaded expressions, '
               'lambda bodies (called in place / stored), comprehension elements and conditions, decorators and default values of nested defs')
    common.rmtree(wd2)


def replay(path):
    w = json.load(open(path))
    print(w['witness']['source'])
    print(w['what'])
    for k in ('decisions', 'expected', 'observed', 'line'):
        if k in w['witness']:
            print(k, w['witness'][k])
    return 0
