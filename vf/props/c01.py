"""C01 - conversion preserves Python semantics under the default operators.

spec/MiniPy.tla is the oracle: TLC enumerates every execution (decision vector) of every generated program
and prints the predicted observation; each is replayed into the function converted by the real malt
(to_graph and the convert decorator, several option sets) and into the unconverted function (model
validation).  The exploration runs under the Liveness monitor so that a divergence can be attributed, by
the specification's own behaviour, to an analysis defect that is already a known finding.
"""
import json

from .. import common, mpmon, minipy as mp, mpsig
from .. import replay as rp
from . import c07


def first_divergence(d):
    e, o = d['exp_log'], d['obs_log']
    i = 0
    while i < len(e) and i < len(o) and e[i] == o[i]:
        i += 1
    ev = e[i] if i < len(e) else None
    ov = o[i] if i < len(o) else None
    return i, ev, ov


def handler_name_assigned_in_nested_statement(p):
    """A name bound by `except E as name` that is assigned inside a compound statement nested in that handler."""
    par = mpsig.parents(p)
    for n, d in enumerate(p['nodes'], 1):
        for nm in d['tgt'] + ([d['name']] if d['kind'] == 'with' and d['name'] else []):
            path = mpsig.path(p, n, par)
            for i, (k, sec, q) in enumerate(path):
                if k == 'try' and sec == 'handler' and i < len(path) - 1:
                    hs = [h for h in p['nodes'][q - 1]['handlers'] if h.get('name') == nm]
                    if hs:
                        return nm
    return None


def handler_name_used_outside_handler(p):
    """A name bound by `except E as name` that the function also reads or assigns outside that handler."""
    par = mpsig.parents(p)
    for n, d in enumerate(p['nodes'], 1):
        if d['kind'] != 'try':
            continue
        for h in d['handlers']:
            nm = h.get('name')
            if not nm:
                continue
            inside = set()
            todo = list(h['body'])
            while todo:
                m = todo.pop()
                inside.add(m)
                dd = p['nodes'][m - 1]
                todo += dd['body'] + dd['orelse'] + dd['final'] + [x for hh in dd['handlers'] for x in hh['body']]
            for m, dd in enumerate(p['nodes'], 1):
                if m in inside or dd['fn'] != d['fn']:
                    continue
                uses = set(dd['tgt']) | set(dd['args'])
                if dd['e']:
                    uses |= _expr_names(p, dd['e'])
                if nm in uses:
                    return nm
    return None


def _expr_names(p, e):
    x = p['exprs'][e - 1]
    out = set(x['reads']) | ({x['name']} if x['name'] else set())
    for a in x['args']:
        out |= _expr_names(p, a)
    return out


def stored_lambda_tracers(p):
    """Tracer keys that occur in the body of a lambda kept in a variable."""
    out = set()

    def walk(e):
        x = p['exprs'][e - 1]
        if x['kind'] in ('T', 'D', 'I'):
            out.add(x['k'])
        for a in x['args']:
            walk(a)
    for x in p['exprs']:
        if x['kind'] == 'lamv':
            walk(x['args'][0])
    return out


def for_target_tracers(p):
    """Tracer keys of values that are assigned, inside a for loop, to a target of that loop."""
    out = set()

    def ks(e):
        x = p['exprs'][e - 1]
        r = {x['k']} if x['kind'] in ('T', 'D', 'I') else set()
        for a in x['args']:
            r |= ks(a)
        return r
    for d in p['nodes']:
        if d['kind'] != 'for':
            continue
        todo = list(d['body'])
        while todo:
            m = todo.pop()
            dd = p['nodes'][m - 1]
            if set(dd['tgt']) & set(d['tgt']) and dd['e'] and dd['kind'] != 'for':
                out |= ks(dd['e'])
            todo += dd['body'] + dd['orelse'] + dd['final'] + [x for hh in dd['handlers'] for x in hh['body']]
    return out


def for_target_assigned_in_body(p):
    for n, d in enumerate(p['nodes'], 1):
        if d['kind'] == 'for':
            todo = list(d['body'])
            while todo:
                m = todo.pop()
                dd = p['nodes'][m - 1]
                bound = set(dd['tgt']) | ({dd['name']} if dd['kind'] == 'with' and dd['name'] else set())
                if bound & set(d['tgt']) and dd['kind'] != 'for':
                    return True
                todo += dd['body'] + dd['orelse'] + dd['final'] + [x for hh in dd['handlers'] for x in hh['body']]
    return False


def classify(p, d, rec, claims):
    """Semantic signature of a divergence between the prediction and the converted function."""
    for bad in [mpmon.parse_bad(b) for b in mpmon.reports(rec)]:
        if bad[0] != 'live':
            continue
        sig, what = c07.classify(p, bad, claims)
        if sig in ('c07:live:for-header-kills-target', 'c07:live:jump-in-handler-not-routed-through-finally',
                   'c07:live:read-by-lambda-called-after-its-definition'):
            return ('c01:diverge:' + sig.split(':', 2)[2],
                    'converted function diverges (%s: expected %s, observed %s) on an execution where %s' % (
                        d['why'], d['expected'], d['observed'], what))
    exp, obs = d['expected'], d['observed']
    if d['why'] == 'globals' and any(e == ['u', 0, 0] and o[0] == '?' and 'Undefined' in str(o[1])
                                     for e, o in zip(d.get('exp_gl', []), d.get('obs_gl', []))):
        return ('c01:del-of-global-leaves-undefined-placeholder-in-module',
                '`del` of a variable declared global unbinds the module-level variable in Python; the converted function '
                'assigns ag__.Undefined to it instead, so the module keeps a binding to a placeholder object')
    xn = rec.get('xfirst', 0) or rec.get('xnode', 0)
    hn = handler_name_assigned_in_nested_statement(p)
    # ... including when Python raises a NameError too, but later (the converted function stops short of expected effects)
    earlier = exp == obs and d['why'] == 'effects-before-raise' and d['obs_log'] == d['exp_log'][:len(d['obs_log'])]
    if hn and obs[0] == 'exc' and obs[1] == 'NameError' and (exp != obs or earlier):
        return ('c01:except-as-name-reset-to-undefined',
                'the variable %s bound by `except ... as %s` is also assigned inside a nested statement of the handler: the '
                'converter emits `%s = ag__.Undefined(...)` before that statement (the handler binding is not a reaching '
                'definition), so the bound exception is lost and a later read raises NameError' % (hn, hn, hn))
    hs = handler_name_used_outside_handler(p)
    if hs and ((obs[0] == 'exc' and obs[1] == 'NameError' and (exp != obs or earlier)) or (exp == ['exc', 'NameError'] and exp != obs)):
        return ('c01:except-as-name-shadows-outer-variable-in-generated-body',
                'the name %s is bound by `except ... as %s` and is an ordinary variable of the function outside that handler; when '
                'the try statement ends up inside a generated body function the except clause makes the name local to it, so '
                'reads of the outer variable raise UnboundLocalError there, and the unbinding of the name at the end of the '
                'handler does not reach the outer variable (Python raises NameError at its next read, the converted function '
                'reads the old value)' % (hs, hs))
    i0, ev0, ov0 = first_divergence(d)
    if ev0 and ov0 and ev0[:2] == ov0[:2] and len(ev0[2]) == len(ov0[2]):
        for x, y in zip(ev0[2], ov0[2]):
            stale = (y[0] == 'e') or (y[0] == 't' and y[1] in for_target_tracers(p)) or (x[0] == 't' and x[1] in for_target_tracers(p))
            if x != y and stale and for_target_assigned_in_body(p):
                return ('c01:diverge:for-header-kills-target',
                        'a variable that is a for-loop target holds the loop element or an older value (%s) where the value assigned to it '
                        'inside the loop body (%s) was expected: the analyses run on the lowered tree lose the assignment (for-header kills its '
                        'target, findings C06/C07)' % (y, x))
    # the first effect that differs is a tracer inside the body of a stored lambda, called with different values of the
    # variables it closes over: the lambda reads the function's variable, the assignment went to a generated body's local
    if ev0 and ov0 and ev0[:2] == ov0[:2] and ev0[1] in stored_lambda_tracers(p):
        return ('c01:diverge:read-by-lambda-called-after-its-definition',
                'a stored lambda is called after an assignment to a variable it closes over inside a loop/branch body: the '
                'converted function passes it %s where %s was expected (liveness assumes lambdas are used where they are written, '
                'finding C07)' % (ov0, ev0))
    if rec.get('delx'):
        return ('c01:del-of-unbound-variable-does-not-raise',
                'del of an unbound variable raises NameError in Python; the converted function continues (%s)' % (obs,))
    i, ev, ov = first_divergence(d)
    ek = ev[0] if ev else 'end'
    ok = ov[0] if ov else 'end'
    okind = obs[0] if obs[0] != 'exc' else 'exc:' + obs[1].split(':')[0:2][-1] if obs[1].startswith('OTHER') else obs[0] + ':' + obs[1]
    return ('c01:diverge:%s:%s->%s:first-log-diff:%s/%s' % (d['why'], exp[0] if exp[0] != 'exc' else 'exc:' + exp[1], okind, ek, ok),
            'converted function diverges (%s): expected %s, observed %s; first differing effect #%d: expected %s observed %s' % (
                d['why'], exp, obs, i, ev, ov))


def run(rep):
    tier = rep.tier
    holder = {}

    def cls7(p, b, claims):
        return ('ignored', '')
    # exploration under the Liveness monitor (its reports are used for attribution only; C07 judges them)
    import os
    from .. import mprun, export
    progs, tlcs = mpmon.program_set(tier, common.seed(), loop_else=False)
    for r in tlcs:
        rep.add_tlc(r)
    wd = common.scratch('c01_%d' % os.getpid())
    # programs on which the analyses crash are kept for the replay (conversion will fail there: a C01 violation)
    claims = []
    for p in progs:
        try:
            claims.append(export.all_claims(p))
        except common.MachineryError:
            raise
        except Exception:
            claims.append(None)
    explorable = [i for i, c in enumerate(claims) if c is not None]
    recs = []
    if explorable:
        res, wd2 = mprun.explore([progs[i] for i in explorable], module='Liveness', spec='MSpec', invariants=('Report',),
                                 claims=[claims[i] for i in explorable], bounds=mpmon.bounds(tier), name='c01', timeout=3000)
        rep.add_tlc(res)
        for r in res.json:
            r['pid'] = explorable[r['pid'] - 1] + 1
        recs = res.json
    rest = [i for i in range(len(progs)) if claims[i] is None]
    if rest:    # explored without a monitor (plain MiniPy) so that the conversion failure is demonstrated on real executions
        res2, wd3 = mprun.explore([progs[i] for i in rest], bounds=mpmon.bounds(tier), name='c01b', timeout=3000)
        rep.add_tlc(res2)
        for r in res2.json:
            r['pid'] = rest[r['pid'] - 1] + 1
        recs = recs + res2.json
        common.rmtree(wd3)
        if not explorable:
            wd2 = wd
    mprun.validate_model(progs, recs)
    # thorough: three option sets on every program, the two EQUALITY_OPERATORS / BUILTIN_FUNCTIONS sets on every fourth one
    thorough = [rp.OPTION_SETS[0], rp.OPTION_SETS[1], rp.OPTION_SETS[3], dict(rp.OPTION_SETS[2], every=4), dict(rp.OPTION_SETS[4], every=4)]
    opts = (thorough if tier == 'thorough' else rp.OPTION_SETS[:1] + rp.OPTION_SETS[3:4]) + [rp.LISTS_OPTION]
    div, nrun, errs = rp.replay_all(progs, recs, opts, name='c01')
    rep.set('programs', len(progs))
    rep.set('executions', len(recs))
    rep.set('executions_outside_class', sum(1 for r in recs if r.get('oc')))
    rep.set('converted_runs', nrun)
    rep.set('option_sets', [o['name'] for o in opts])
    rep.set('model_validated_on_cpython', len(recs))
    rep.validated(nrun)
    byrec = {(r['pid'], tuple(r['dec'])): r for r in recs}
    for e in errs:
        p = progs[e['pid'] - 1]
        import re as _re
        m = _re.search(r"no binding for nonlocal '(\w+)'", e['error'])
        if m and m.group(1) in p.get('hnames', []):
            rep.violation('c01:conversion-error:no-binding-for-nonlocal:except-as-name-reused', 'conversion failed: ' + e['error'],
                          dict(source=mp.render(p)[0], option_set=e['opt'], error=e['error']))
            continue
        rep.violation('c01:conversion-error:%s' % e['error'].split(':')[0], 'conversion failed: ' + e['error'],
                      dict(source=mp.render(p)[0], option_set=e['opt'], error=e['error']))
    for d in div:
        p = progs[d['pid'] - 1]
        rec = byrec[(d['pid'], tuple(d['dec']))]
        sig, what = classify(p, d, rec, claims[d['pid'] - 1])
        rep.violation(sig, what, dict(source=mp.render(p)[0], decisions=d['dec'], option_set=d['opt'], expected=d['expected'],
                                      observed=d['observed'], expected_log=d['exp_log'], observed_log=d['obs_log']))
    for p in progs[:2] + progs[-1:]:
        rep.sample(dict(source=mp.render(p)[0]))
    rep.assume('MiniPy.tla is the reference semantics; every explored execution was reproduced by CPython on the unconverted function in this run')
    rep.assume('observation rule of the property: return value + ordered effect log; for an escaping exception its type and the effects up to the raise; NameError subclass not distinguished')
    common.rmtree(wd)
    common.rmtree(wd2)


def replay_(path):
    w = json.load(open(path))
    wt = w['witness']
    print(wt['source'])
    print('decisions', wt.get('decisions'), 'option set', wt.get('option_set'))
    print('expected', wt.get('expected'), 'observed', wt.get('observed'))
    return 0


replay = replay_
