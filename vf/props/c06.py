"""C06 - reaching definitions and defined-on-entry sets are sound (spec/ReachDef.tla over MiniPy)."""
from .. import mpmon, mpsig


def classify(p, b, claims):
    if b[0] == 'rd':
        _, f, n, nm, writer, mine = b
        claim = [ws for (x, ws) in claims[f - 1]['defs'][n - 1] if x == nm]
        codes = set(claim[0]) if claim else set()
        for c in codes:
            if c > 0 and c % 1000:
                d = p['nodes'][c % 1000 - 1]
                if d['kind'] == 'for' and nm in d['tgt']:
                    return ('c06:rd:for-header-kills-target',
                            'read of %s at node %d: the claimed definitions contain only the for-loop header of target %s, '
                            'the value actually read was written by node %d (the header kills its target on the '
                            'zero-trip / exit edge)' % (nm, n, nm, writer % 1000))
        wf, wn = writer // 1000, writer % 1000
        if wf != f and wf >= 1 and nm in p['fns'][wf - 1]['nonlocals']:
            return ('c06:rd:value-written-by-nested-function-through-nonlocal',
                    'read of %s at node %d of function %d: the value was assigned by node %d of the nested function %s, which declares '
                    '%s nonlocal; the analysis is per function and attaches only the definitions made in function %d itself' % (
                        nm, n, f, wn, p['fns'][wf - 1]['name'], nm, f))
        if wf == f and wn:
            par = mpsig.parents(p)
            for k, sec, q in mpsig.path(p, wn, par):
                if k == 'try' and sec == 'handler' and p['nodes'][q - 1]['final'] and mpsig.in_section(p, n, q, 'finally', par):
                    return ('c06:rd:jump-in-handler-not-routed-through-finally',
                            'read of %s in the finally block (node %d) of try statement %d: the value was assigned in an except handler '
                            'of the same try (node %d) and reaches the finally block through a jump out of the handler, an edge the '
                            'CFG does not have (finding C05 edge:*@try.handler->try.finally)' % (nm, n, q, wn))
        if not mine and not codes:
            return ('c06:rd:nested-read-of-enclosing-variable-has-no-definitions',
                    'read of the enclosing function\'s variable %s inside a nested function carries no definitions' % nm)
        wk = mpsig.kind(p, writer % 1000)
        return ('c06:rd:%s-read-misses-%s-writer%s' % (mpsig.kind(p, n), wk, '' if mine else ':closure'),
                'read of %s at node %d: actual writer %d not among the claimed definitions %s' % (nm, n, writer, sorted(codes)))
    if b[0] == 'defin':
        _, f, s, nm = b
        par = mpsig.parents(p)
        for k, sec, q in mpsig.path(p, s, par) :
            if k == 'try' and sec == 'finally':
                hnodes = []
                todo = [x for h in p['nodes'][q - 1]['handlers'] for x in h['body']]
                while todo:
                    m = todo.pop()
                    hnodes.append(m)
                    dd = p['nodes'][m - 1]
                    todo += dd['body'] + dd['orelse'] + dd['final'] + [x for hh in dd['handlers'] for x in hh['body']]
                if any(nm in p['nodes'][m - 1]['tgt'] for m in hnodes) and any(
                        p['nodes'][m - 1]['kind'] in ('return', 'break', 'continue') or p['nodes'][m - 1].get('form') == 'return' for m in hnodes):
                    return ('c06:defin:jump-in-handler-not-routed-through-finally',
                            '%s is bound when statement %d in the finally block of try %d is entered after a jump out of an except '
                            'handler that assigned it, but is not in DEFINED_VARS_IN: the CFG has no edge from a jump in a handler to '
                            'the finally block (finding C05 edge:*@try.handler->try.finally)' % (nm, s, q))
        return ('c06:defin:%s' % mpsig.kind(p, s), '%s is bound on entry of statement %d but not in DEFINED_VARS_IN' % (nm, s))
    return ('c06:%s' % b[0], 'the reported solution is not a fixed point of the transfer equations (function %s)' % b[1:])


def run(rep):
    mpmon.run_monitor(rep, 'ReachDef', classify)


replay = mpmon.replay
