"""C20 - conversion options survive embedding in generated code and key the caches.

Decided by spec/Options.tla: TLC enumerates every (flags, feature subset, spelling) - the complete
space - checks the laws on the model and prints the expected observations; this harness replays
every enumerated state into the real ConversionOptions class and into real conversions.
"""
import ast
import itertools

from .. import common, tlc

CFG = """SPECIFICATION Spec
INVARIANT RoundTrip
INVARIANT StdOnlyStd
INVARIANT CallLaw
INVARIANT CallIdem
INVARIANT UsesLaw
INVARIANT Expect
CHECK_DEADLOCK FALSE
"""
N_ARGS = 8 * (1 + 7 + 4 * 128)


def _build(conv, rec):
    F = conv.Feature
    fs = [F[x] for x in rec['fs']]
    sp = rec['sp']
    if sp == 'none':
        of = None
    elif sp == 'single':
        of = fs[0]
    elif sp == 'tuple':
        of = tuple(fs)
    elif sp == 'list':
        of = list(fs)
    elif sp == 'set':
        of = set(fs)
    else:
        of = frozenset(fs)
    return conv.ConversionOptions(recursive=rec['r'], user_requested=rec['u'],
                                  internal_convert_user_code=rec['i'], optional_features=of)


def _sig(rec, clause):
    return 'c20:%s:r%d:u%d:i%d:%s:%s' % (clause, rec['r'], rec['u'], rec['i'], rec['sp'], '+'.join(sorted(rec['fs'])))


def run(rep):
    from malt.core import converter as conv
    from malt.impl import api
    from malt.pyct import parser
    from malt.operators import function_wrappers

    res = tlc.run_tlc('Options', CFG, workers=8, timeout=300).require_ok('Options')
    rep.add_tlc(res)
    recs = res.json
    if len(recs) != N_ARGS:
        raise common.MachineryError('Options.tla printed %d expectation records, expected %d' % (len(recs), N_ARGS))
    rep.set('exhaustive', True)
    ag = api.PyToPy().get_extra_locals()['ag__']
    objs = []
    for rec in recs:
        o = _build(conv, rec)
        objs.append((rec, o))
        w = dict(args=rec)
        # --- embedding round trip
        try:
            text = parser.unparse(o.to_ast(), include_encoding_marker=False).strip()
            back = eval(text, {'ag__': ag})
        except Exception as e:  # the embedded form must evaluate
            rep.violation(_sig(rec, 'embed-eval-error'), 'embedded options text does not evaluate: %r' % (e,), w)
            continue
        w['text'] = text
        if not isinstance(back, conv.ConversionOptions) or not (back == o) or hash(back) != hash(o) \
                or back.as_tuple() != o.as_tuple():
            rep.violation(_sig(rec, 'roundtrip'), 'eval(unparse(to_ast())) is not an equal options value', w)
        is_std = (text == 'ag__.STD')
        if is_std != (rec['form'] == 'STD'):
            rep.violation(_sig(rec, 'std-shortcut'), 'STD shortcut taken=%s, specification says %s' % (is_std, rec['form']), w)
        if not is_std and not text.startswith('ag__.ConversionOptions('):
            rep.violation(_sig(rec, 'form'), 'unexpected embedded form', w)
        # --- field normalisation
        if (o.recursive, o.user_requested, o.internal_convert_user_code) != (rec['r'], rec['u'], rec['i']) or \
                {f.name for f in o.optional_features} != set(rec['fs']):
            rep.violation(_sig(rec, 'construct'), 'constructor does not normalise this spelling to the written value', w)
        # --- callee options
        c = o.call_options()
        ce = rec['callee']
        if (c.recursive, c.user_requested, c.internal_convert_user_code) != (ce['r'], ce['u'], ce['i']) or \
                {f.name for f in c.optional_features} != set(ce['fs']):
            w['callee_observed'] = [c.recursive, c.user_requested, c.internal_convert_user_code,
                                    sorted(f.name for f in c.optional_features)]
            rep.violation(_sig(rec, 'call-options'), 'call_options() differs from the specification', w)
        # --- uses
        used = {f.name for f in conv.Feature if o.uses(f)}
        if used != set(rec['uses']):
            w['uses_observed'] = sorted(used)
            rep.violation(_sig(rec, 'uses'), 'uses() vector differs from the specification', w)
        rep.validated()
        rep.sample(dict(args=rec, embedded_text=text))
    # --- equality / hashing over all pairs: expectation = equality of the normal forms printed by TLC
    def nf(rec):
        return (rec['r'], rec['u'], rec['i'], frozenset(rec['fs']))
    groups = {}
    for rec, o in objs:
        groups.setdefault(nf(rec), []).append((rec, o))
    if len(groups) != 1024:
        raise common.MachineryError('expected 1024 distinct option values, TLC produced %d' % len(groups))
    pairs = 0
    for key, members in groups.items():
        for (r1, a), (r2, b) in itertools.combinations(members, 2):
            pairs += 1
            if not (a == b) or hash(a) != hash(b):
                rep.violation(_sig(r1, 'eq-same-value-' + r2['sp']), 'two spellings of one value are not equal/hash-equal',
                              dict(a=r1, b=r2))
    reps = [(m[0][0], m[0][1]) for m in groups.values()]
    for (r1, a), (r2, b) in itertools.combinations(reps, 2):
        pairs += 1
        if a == b:
            rep.violation(_sig(r1, 'alias'), 'two different option values compare equal', dict(a=r1, b=r2))
    table = {}
    for rec, o in objs:
        table.setdefault(o, []).append(rec)
    if len(table) != 1024:
        rep.violation('c20:dict-key-classes', 'used as dictionary keys the %d written options form %d classes, not 1024' % (
            len(objs), len(table)), dict(classes=len(table)))
    rep.set('pairs_compared', pairs)
    # --- end to end: the options embedded in generated code reach the function scopes
    seen = []
    orig_init = function_wrappers.FunctionScope.__init__

    def spy(self, function_name, scope_name, options):
        r = orig_init(self, function_name, scope_name, options)
        seen.append((function_name, options, self.callopts))     # callopts: what this scope hands to its callees
        return r

    def victim(x):
        def inner(y):
            return y + 1
        return inner(x) + (lambda z: z * 2)(x)

    usable = ['ASSERT_STATEMENTS', 'BUILTIN_FUNCTIONS', 'EQUALITY_OPERATORS', 'LISTS']
    e2e = 0
    for rec, o in reps:
        if not set(rec['fs']) <= set(usable):
            continue   # FunctionScope rejects NAME_SCOPES / AUTO_CONTROL_DEPS / ALL by assertion (stripped features)
        t = api.PyToPy()
        t.get_extra_locals()
        from malt.core import converter
        try:
            g, _, _ = t.transform(victim, converter.ProgramContext(options=o))
        except Exception as e:
            rep.violation(_sig(rec, 'e2e-convert'), 'conversion under these options failed: %r' % (e,), dict(args=rec))
            continue
        del seen[:]
        function_wrappers.FunctionScope.__init__ = spy
        try:
            out = g(3)
        except Exception as e:
            out = repr(e)
        finally:
            function_wrappers.FunctionScope.__init__ = orig_init
        e2e += 1
        exp_top, exp_inner = o, o.call_options()
        tops = [op for (nm, op, co) in seen if nm == 'victim']
        inners = [op for (nm, op, co) in seen if nm != 'victim']
        # every scope hands call_options() of its own options to the callees (the specification's CallOpts)
        handed_ok = all(co == op.call_options() and co.as_tuple() == op.call_options().as_tuple() for (nm, op, co) in seen)
        ce = rec['callee']
        top_handed = [co for (nm, op, co) in seen if nm == 'victim']
        spec_ok = all((co.recursive, co.user_requested, co.internal_convert_user_code) == (ce['r'], ce['u'], ce['i'])
                      and {f.name for f in co.optional_features} == set(ce['fs']) for co in top_handed)
        ok = (out == 10 and len(tops) == 1 and tops[0] == exp_top and inners and all(x == exp_inner for x in inners)
              and handed_ok and spec_ok)
        if not ok:
            rep.violation(_sig(rec, 'e2e-scope-options'),
                          'options reaching FunctionScope differ from those requested (top) / call_options (nested)',
                          dict(args=rec, result=out, scopes=[(nm, str(op.as_tuple()), str(co.as_tuple())) for nm, op, co in seen]))
        rep.validated()
    rep.set('end_to_end_conversions', e2e)
    rep.assume('Python evaluation of the embedded text is the evaluation semantics modelled by Evaluate in Options.tla')


def replay(path):
    import json
    w = json.load(open(path))
    print(json.dumps(w, indent=1))
    from .. import report
    rep = report.Report('C20', 'quick')
    run(rep)
    return rep.finish()
