"""C07 - liveness is sound (spec/Liveness.tla over MiniPy)."""
from .. import mpmon, mpsig


def classify(p, b, claims):
    if b[0] == 'live':
        _, f, n, nm, of, on, slot, mine = b
        kind = mpsig.kind(p, on)
        if on and kind == 'for' and nm in p['nodes'][on - 1]['tgt'] and slot in ('in', 'sin'):
            return ('c07:live:for-header-kills-target',
                    '%s is read at node %d, but not reported live at the entry of the for loop (node %d) whose target it is: '
                    'the header kills its target also on the zero-trip / exit edge' % (nm, n, on))
        rn = p['nodes'][n - 1] if n else None
        if rn and rn['kind'] == 'call' and nm not in rn['args'] and nm != rn['name'] and any(
                d['kind'] == 'assign' and d['tgt'] == [rn['name']] and p['exprs'][d['e'] - 1]['kind'] == 'lamv' for d in p['nodes']):
            return ('c07:live:read-by-lambda-called-after-its-definition',
                    '%s is read by the body of a lambda that was stored in %s and is called at node %d; node %d did not report it '
                    'live: the analysis assumes lambdas are used only where they are written' % (nm, rn['name'], n, on))
        if on:
            par = mpsig.parents(p)
            # the statement that failed to report lies in an except handler, the read in the finally block of the same try:
            # the only way from one to the other is a jump out of the handler, which the CFG does not route through finally
            for k, sec, q in mpsig.path(p, on, par) + ([('try', 'handler', on)] if False else []):
                if k == 'try' and sec == 'handler' and p['nodes'][q - 1]['final'] and mpsig.in_section(p, n, q, 'finally', par):
                    return ('c07:live:jump-in-handler-not-routed-through-finally',
                            '%s is read in the finally block (node %d) that runs after a jump out of the except handler of the same '
                            'try (statement %d, %s, failed to report it live): the CFG has no edge from a jump in a '
                            'handler to the finally block (see C05)' % (nm, n, on, kind))
        return ('c07:live:%s:%s%s' % (kind, slot, '' if mine else ':closure-read'),
                '%s is read at node %d before being overwritten, but was not reported live (%s) at node %d' % (nm, n, slot, on))
    return ('c07:%s' % b[0], 'the reported in/out sets do not solve the liveness equations (function %s)' % b[1:])


def run(rep):
    mpmon.run_monitor(rep, 'Liveness', classify)


replay = mpmon.replay
