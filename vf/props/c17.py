"""C17 - generated code is a well-formed tree that loads as what to_code shows.

spec/Pipeline.tla validates the trace of every recorded conversion: pass order as a function of the options,
and at EVERY pass boundary tree-ness (no node object twice) and context consistency of the exported
node tables; finally the facts compile / round-trip / to_code.
"""
import os
import ast
import json
import copy
import textwrap
import importlib.util

from .. import common, mpmon, mprun, tlc, skeleton, pipeline, zoo, minipy as mp

CFG = "SPECIFICATION Spec\nINVARIANT Report\nCHECK_DEADLOCK FALSE\n"

OPTSETS = [
    ('default', dict(recursive=True, feats=())),
    ('nonrecursive', dict(recursive=False, feats=())),
    ('lists', dict(recursive=True, feats=('LISTS',))),
    ('asserts+builtins+eq', dict(recursive=True, feats=('ASSERT_STATEMENTS', 'BUILTIN_FUNCTIONS', 'EQUALITY_OPERATORS'))),
    ('all-supported', dict(recursive=True, feats=('ASSERT_STATEMENTS', 'BUILTIN_FUNCTIONS', 'EQUALITY_OPERATORS', 'LISTS'))),
]


def _load(src, name, wd):
    path = os.path.join(wd, name + '.py')
    with open(path, 'w') as f:
        f.write(src)
    spec = importlib.util.spec_from_file_location(name, path)
    m = importlib.util.module_from_spec(spec)
    spec.loader.exec_module(m)
    return m


def record(fn, optname, opt):
    """Convert fn with a fresh transpiler under snapshots; returns the trace record (or a conversion error)."""
    import malt
    from malt.impl import api
    from malt.core import converter
    from malt.pyct import parser
    feats = tuple(converter.Feature[x] for x in opt['feats'])
    final = {}

    class Capture(api.PyToPy):
        def transform_ast(self, node, ctx):
            out = super().transform_ast(node, ctx)
            final['tree'] = out
            return out
    steps = []
    options = converter.ConversionOptions(recursive=opt['recursive'], user_requested=True, optional_features=feats or None)
    try:
        with pipeline.snapshots(steps):
            g, module, source_map = Capture().transform(fn, converter.ProgramContext(options=options))
    except Exception as e:
        return dict(error='%s: %s' % (type(e).__name__, str(e)[:300]), steps=steps)
    tree = final['tree']
    rec = dict(asserts=1 if 'ASSERT_STATEMENTS' in opt['feats'] else 0, lists=1 if 'LISTS' in opt['feats'] else 0,
               steps=steps, compiles=1, roundtrip=1, tocode=1, error='')
    text = parser.unparse(tree, include_encoding_marker=False)
    try:
        compile(text, '<c17>', 'exec')
        t2 = copy.deepcopy(tree)
        compile(ast.fix_missing_locations(ast.Module(body=[t2], type_ignores=[])), '<c17t>', 'exec')
    except Exception as e:
        rec['compiles'] = 0
        rec['detail'] = 'compile: %r' % (e,)
    try:
        re = ast.parse(text).body[0]
        if pipeline.shape(re) != pipeline.shape(tree):
            rec['roundtrip'] = 0
            rec['detail'] = 'reparse differs'
    except Exception as e:
        rec['roundtrip'] = 0
        rec['detail'] = 'reparse: %r' % (e,)
    try:
        code = malt.to_code(fn, recursive=opt['recursive'], experimental_optional_features=feats or None)
        try:
            shown = ast.parse(code).body[0]
        except IndentationError:
            # textwrap.dedent cannot dedent a function whose string literals have lines at column 0: to_code then
            # returns the (still indented) text of the loaded function; it is compared as it is
            shown = ast.parse('if 1:\n' + code).body[0].body[0]
        g2 = malt.to_graph(fn, recursive=opt['recursive'], experimental_optional_features=feats or None)
        import inspect
        loaded_text = open(inspect.getsourcefile(g2)).read()
        seg = inspect.getsource(g2)
        # "the text returned by to_code is the text of the module that was actually loaded": the function shown,
        # the function of that name in the module file loaded for to_graph, and the transformed tree are one program
        loaded_fns = [n for n in ast.walk(ast.parse(loaded_text)) if isinstance(n, ast.FunctionDef) and n.name == g2.__name__]
        if (pipeline.shape(shown) != pipeline.shape(tree) or seg not in loaded_text or not loaded_fns
                or pipeline.shape(loaded_fns[0]) != pipeline.shape(shown)):
            rec['tocode'] = 0
            rec['detail'] = 'to_code text is not the loaded function'
    except Exception as e:
        rec['tocode'] = 0
        rec['detail'] = 'to_code: %r' % (e,)
    return rec


def run(rep):
    tier = rep.tier
    seed = common.seed()
    wd = common.scratch('c17_%d' % os.getpid())
    # programs: a slice of the C01 class + the literal zoo
    sk, gres = skeleton.enumerate_skeletons(4, 3, 2, funcs=False)
    rep.add_tlc(gres)
    step = 8 if tier == 'quick' else 1
    progs = skeleton.decorated(sk[seed % step::step], 1, seed)
    progs += mprun.random_programs(60 if tier == 'quick' else 600, seed, lo=2, hi=3, maxdepth=3)
    progs = [p for p in progs if len(p['nodes']) <= 40]
    items = []          # (label, source, function object)
    for i, p in enumerate(progs):
        src = mp.render(p)[0]
        m = _load(src, 'c17p_%d_%d' % (os.getpid(), i), wd)
        for k, v in mp.Run([]).ns().items():
            setattr(m, k, v)
        items.append(('minipy#%d' % i, src, getattr(m, p['fns'][0]['name'])))
    for i, src in enumerate(zoo.SOURCES):
        m = _load('GLOB = 0\n' + src, 'c17z_%d_%d' % (os.getpid(), i), wd)
        items.append(('zoo#%d' % i, src, m.z))
    optsets = OPTSETS if tier == 'thorough' else OPTSETS[:1] + OPTSETS[4:5]
    traces, meta = [], []
    for label, src, fn in items:
        for oname, opt in (OPTSETS if label.startswith('zoo') else optsets):
            r = record(fn, oname, opt)
            if r.get('error'):
                rep.violation('c17:conversion-fails:%s:%s' % (label if label.startswith('zoo') else 'minipy', r['error'].split(':')[0]),
                              'conversion failed: %s' % r['error'], dict(source=src, option_set=oname))
                continue
            traces.append({k: r[k] for k in ('asserts', 'lists', 'steps', 'compiles', 'roundtrip', 'tocode')})
            meta.append((label, src, oname, r.get('detail', '')))
    tf = os.path.join(wd, 'traces.json')
    with open(tf, 'w') as f:
        json.dump(traces, f)
    tres = tlc.run_tlc('Pipeline', CFG, env=dict(TRACE_FILE=tf), workers=16, timeout=1500, name='c17').require_ok('Pipeline')
    rep.add_tlc(tres)
    verdicts = {v['tid']: v['bad'] for v in tres.json if isinstance(v, dict) and 'tid' in v}
    if len(verdicts) != len(traces):
        raise common.MachineryError('Pipeline returned %d verdicts for %d traces' % (len(verdicts), len(traces)))
    rep.validated(len(traces))
    rep.set('conversions', len(traces))
    rep.set('pass_boundaries_checked', sum(len(t['steps']) for t in traces))
    rep.set('node_occurrences_checked', sum(len(s['ids']) for t in traces for s in t['steps']))
    for i, (label, src, oname, detail) in enumerate(meta):
        bad = verdicts[i + 1]
        if bad:
            rep.violation('c17:%s:%s' % ('zoo' if label.startswith('zoo') else 'minipy', bad),
                          'conversion trace rejected by Pipeline.tla: %s %s' % (bad, detail),
                          dict(source=src, option_set=oname, label=label))
    rep.sample(dict(source=items[0][1], passes=[s['pass'] for s in traces[0]['steps']], nodes_after_last_pass=len(traces[0]['steps'][-1]['ids'])))
    rep.sample(dict(source=zoo.SOURCES[1]))
    rep.assume('required contexts are derived from syntactic position by vf/pipeline.py:required (Python grammar); ctx/operator singletons are shared by design and not counted as node objects')
    common.rmtree(wd)


def replay(path):
    w = json.load(open(path))
    print(w['witness']['source'])
    print(w['what'], w['witness'].get('option_set'))
    return 0
