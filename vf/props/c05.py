"""C05 - the control-flow graph contains every control path that can execute.

spec/CfgSound.tla (a monitor over the MiniPy semantics) decides: TLC explores every execution of every
generated program and checks each executed step against the graph exported from the real cfg.build.
"""
import os
import re
import json

from .. import common, mprun, mpmon, export, skeleton, minipy as mp, mpsig


def programs(tier, seed):
    if tier == 'quick':
        sk, res = skeleton.enumerate_skeletons(4, 3, 2, loop_else=True)
        progs = skeleton.decorated(sk, 1, seed)
        progs += mprun.random_programs(400, seed, lo=2, hi=4, maxdepth=3, loop_else=True)
    else:
        sk, res = skeleton.enumerate_skeletons(5, 3, 2, loop_else=True)
        progs = skeleton.decorated(sk, 1, seed)
        sk2, res2 = skeleton.enumerate_skeletons(4, 3, 2, loop_else=True, funcs=True)
        progs += skeleton.decorated(sk2, 2, seed + 1)
        progs += mprun.random_programs(4000, seed, lo=2, hi=5, maxdepth=4, loop_else=True)
    return progs, res


JUMP = dict(ret='return', brk='break', cnt='continue')


def edge_signature(p, a, b, pend='', jsrc=0):
    """Where the two nodes part in the tree, and what transfers control: the executed statement itself, or - when it
    is an ordinary statement of a finally block that a jump is passing through - that pending jump."""
    par = mpsig.parents(p)
    pa = mpsig.path(p, a, par) if a else []
    pb = mpsig.path(p, b, par) if b else []
    i = 0
    while i < len(pa) and i < len(pb) and pa[i] == pb[i]:
        i += 1
    ea = '%s.%s' % pa[i][:2] if i < len(pa) else '-'
    eb = '%s.%s' % pb[i][:2] if i < len(pb) else '-'
    k = mpsig.kind(p, a)
    if pend in JUMP and k not in JUMP.values():
        k = JUMP[pend]
        # the jump started in an except handler and travels through the finally block of the same try: the edge into that
        # block and the edge out of it (to the jump's target) are missing for one reason
        if jsrc:
            for kk, sec, q in mpsig.path(p, jsrc, par):
                if kk == 'try' and sec == 'handler' and p['nodes'][q - 1]['final'] and (
                        mpsig.in_section(p, a, q, 'finally', par) or (b and mpsig.in_section(p, b, q, 'finally', par))):
                    return 'c05:edge:%s@try.handler->try.finally' % k
    return 'c05:edge:%s@%s->%s' % (k, ea, eb)


def classify(p, bad):
    m = re.match(r'<<"(\w+)", (\d+), (.*)>>$', bad)
    kind = m.group(1)
    rest = [x.strip().strip('"') for x in m.group(3).split(',')]
    if kind == 'edge':
        a, b = int(rest[0]), int(rest[1])
        return edge_signature(p, a, b, rest[2] if len(rest) > 2 else '', int(rest[3]) if len(rest) > 3 else 0), 'executed transfer %s(node %d) -> %s(node %d) is not an edge of the graph' % (
            mpsig.kind(p, a), a, mpsig.kind(p, b), b)
    if kind == 'exit':
        a = int(rest[0])
        return 'c05:exit:%s:%s' % (mpsig.kind(p, a), rest[1]), 'function terminated (%s) at node %d which is not an exit/raise node of the graph' % (rest[1], a)
    return 'c05:static:%s' % rest[0], 'static well-formedness clause %s fails' % rest[0]


def run(rep):
    def cls(p, b, claims):
        return classify(p, '<<' + ', '.join(('"%s"' % x) if isinstance(x, str) else str(x) for x in b) + '>>')
    mpmon.run_monitor(rep, 'CfgSound', cls, loop_else=True,
                      claims_fn=lambda p: export.cfg_claims(export.analyse(p, upto='cfg')))


def replay(path):
    w = json.load(open(path))
    print(w['witness']['source'])
    print('decisions:', w['witness']['decisions'], 'report:', w['witness']['report'])
    return 0
