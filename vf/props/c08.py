"""C08 - activity analysis matches Python's binding rules (dynamic clause: spec/Activity.tla over MiniPy)."""
from .. import mpmon, mpsig


def classify(p, b, claims):
    kind, f, n, nm = b
    return ('c08:dyn:%s:%s' % (kind, mpsig.kind(p, n)),
            'executing node %d (%s) %s %s, which is not in the statement\'s %s set' % (
                n, mpsig.kind(p, n), {'read': 'read', 'modified': 'rebound', 'deleted': 'deleted'}[kind], nm, kind))


def run(rep):
    mpmon.run_monitor(rep, 'Activity', classify)


replay = mpmon.replay
