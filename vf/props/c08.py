"""C08 - activity analysis matches Python's binding rules.

Static clause: spec/Scoping.tla enumerates every chain of up to three nested scopes (function / lambda / class /
comprehension) with every menu of occurrences of a name (parameter, assignment kinds, import, def, del, use,
global / nonlocal declarations) and classifies the name per function by the language-reference rules; each
state is rendered to source and compared three ways: specification = symtable.symtable (model validation) =
the sets reported by the real activity analysis.
Dynamic clause: spec/Activity.tla over MiniPy (per-step read / rebind / delete sets).
"""
from .. import common, mpmon, mpsig, tlc, scoping

SCFG = "SPECIFICATION Spec\nINVARIANT Emit\nCHECK_DEADLOCK FALSE\n"


def classify(p, b, claims):
    kind, f, n, nm = b
    return ('c08:dyn:%s:%s' % (kind, mpsig.kind(p, n)),
            'executing node %d (%s) %s %s, which is not in the statement\'s %s set' % (
                n, mpsig.kind(p, n), {'read': 'read', 'modified': 'rebound', 'deleted': 'deleted'}[kind], nm, kind))


def static_clause(rep):
    res = tlc.run_tlc('Scoping', SCFG, workers=8, timeout=600, name='scoping').require_ok('Scoping')
    rep.add_tlc(res)
    states = [r for r in res.json if isinstance(r, dict) and 'K' in r]
    if len(states) != res.distinct or len(states) < 10000:
        raise common.MachineryError('Scoping.tla: %d states printed, %d distinct' % (len(states), res.distinct))
    nlegal = nfun = 0
    for r in states:
        src = scoping.render(r['K'], r['O'])
        sv = scoping.symtable_view(src)
        if (sv is not None) != r['legal']:
            raise common.MachineryError('Scoping.tla disagrees with CPython on legality (spec legal=%s):\n%s' % (r['legal'], src))
        if sv is None:
            continue
        nlegal += 1
        for i in range(3):
            if r['K'][i] == 'function' and r['cls'][i] != sv.get('s%d' % (i + 1)):
                raise common.MachineryError('Scoping.tla disagrees with symtable: s%d spec=%s symtable=%s\n%s' % (
                    i + 1, r['cls'][i], sv.get('s%d' % (i + 1)), src))
        try:
            av = scoping.activity_view(src)
        except Exception as e:
            rep.violation('c08:static:analysis-error:%s' % type(e).__name__, 'activity analysis fails: %r' % (e,), dict(source=src))
            continue
        for i in range(3):
            if r['K'][i] != 'function':
                continue
            nfun += 1
            exp, got = r['cls'][i], av.get('s%d' % (i + 1))
            if exp in ('param', 'global_explicit', 'nonlocal', 'local'):
                ok = {exp}
            elif exp in ('free', 'global_implicit'):
                ok = {'free-or-global'}
            else:
                ok = {'absent'} | ({'free-or-global'} if r['gref'][i] else set())
            if got not in ok:
                inner = [(r['K'][j], sorted(r['O'][j])) for j in range(i + 1, 3) if r['K'][j] != 'none']
                why = describe(r, i)
                rep.violation('c08:static:%s-reported-as-%s:%s' % (exp, got, why),
                              'CPython classifies v in s%d as %s, the activity analysis reports %s (%s)' % (i + 1, exp, got, why),
                              dict(source=src, scope='s%d' % (i + 1), cpython=exp, activity=got, chain=[r['K'], r['O']]))
        rep.validated()
    rep.set('scope_chains_enumerated', len(states))
    rep.set('legal_chains', nlegal)
    rep.set('function_scopes_compared', nfun)
    rep.set('scoping_exhaustive_for_menu', True)
    rep.sample(dict(chain=[states[len(states) // 2]['K'], states[len(states) // 2]['O']],
                    source=scoping.render(states[len(states) // 2]['K'], states[len(states) // 2]['O'])))


def describe(r, i):
    """Which feature of the nested scopes is responsible (coarse, stable)."""
    for j in range(i + 1, 3):
        if r['K'][j] == 'none':
            break
        if 'N' in r['O'][j] or 'Ni' in r['O'][j]:
            return 'nonlocal-declared-in-nested-%s' % r['K'][j]
        if 'P' in r['O'][j]:
            return 'parameter-of-nested-%s' % r['K'][j]
        if 'G' in r['O'][j] or 'Gi' in r['O'][j]:
            return 'global-declared-in-nested-%s' % r['K'][j]
    return 'own-occurrences:' + '+'.join(sorted(r['O'][i])) if r['O'][i] else 'nested-use'


def run(rep):
    static_clause(rep)
    mpmon.run_monitor(rep, 'Activity', classify)


replay = mpmon.replay
