"""C15 helper: binds spec/LambdaSelect.tla to malt.pyct.parser.parse_entity for lambda objects.

TLC prints, per configuration, the text of a tuple display containing 1..3 lambda expressions, the physical
first/last line of each and the expected result for the object created by each lambda.  This module writes
many configurations into one real module, evaluates it to obtain the actual lambda objects (nested ones by
calling their parent), validates the line model against CPython and compares what malt recovers.

wr[k] != 'no': the specification wrote  functools.wraps(W_<sig>)(lambda ...)  - the object carries __wrapped__.  The
functions W_<sig> live in the prelude of every module; that they have the parameter names the specification assumes
(`shown`) and that the object keeps its own (`own`) is validated against CPython for every object.
"""
import ast
import inspect

from . import common
from . import c15_layout as L

PER_FILE = 8
CALL = {   # how to call a lambda with this parameter list (to obtain the lambdas nested in its body)
    'none': ((), {}), 'x': ((0,), {}), 'y': ((0,), {}), 'xy': ((0, 0), {}), 'xd': ((), {}), 'va': ((), {}),
    'kw': ((), {}), 'po': ((0,), {}), 'ko': ((), {'x': 0}), 'xz': ((0,), {}),
}
NAMES = {'none': (), 'x': ('x',), 'y': ('y',), 'xy': ('x', 'y'), 'xd': ('x',), 'va': ('*a',), 'kw': ('**k',),
         'po': ('x',), 'ko': ('*', 'x'), 'xz': ('x', 'z')}    # parameter names, to keep reductions clash-free
SIG_NAME = {'none': 'noargs', 'x': 'x', 'y': 'y', 'xy': 'x-y', 'xd': 'x-default', 'va': 'varargs', 'kw': 'varkw',
            'po': 'x-posonly', 'ko': 'x-kwonly', 'xz': 'x-z-default'}


# parameter lists as the specification writes them (SigText); W_<sig> is what functools.wraps(...) copies from
SIG_TEXT = {'none': '', 'x': 'x', 'y': 'y', 'xy': 'x, y', 'xd': 'x=5', 'va': '*a', 'kw': '**k', 'po': 'x, /',
            'ko': '*, x', 'xz': 'x, z=5'}
PRELUDE = ('# lambda configurations enumerated by spec/LambdaSelect.tla\nimport functools\n' +
           ''.join('def W_%s(%s): return 0\n' % (s, t) for s, t in sorted(SIG_TEXT.items())))
PRELUDE_LINES = PRELUDE.count('\n')


def _wr(rec):
    return rec.get('wr') or ['no'] * rec['n']


def own_key(fn):
    """args (incl. positional-only) | varargs | varkw | kwonly of the function's own code object"""
    c = fn.__code__
    pos, ko = c.co_argcount, c.co_kwonlyargcount
    names = list(c.co_varnames)
    k = pos + ko
    va = kw = ''
    if c.co_flags & inspect.CO_VARARGS:
        va = names[k]
        k += 1
    if c.co_flags & inspect.CO_VARKEYWORDS:
        kw = names[k]
    return '%s|%s|%s|%s' % (','.join(names[:pos]), va, kw, ','.join(names[pos:pos + ko]))


def shown_key(fn):
    """the same, as reported by introspection that follows __wrapped__ (inspect.signature)"""
    P = inspect.Parameter
    ps = list(inspect.signature(fn).parameters.values())

    def names(*kinds):
        return ','.join(p.name for p in ps if p.kind in kinds)
    return '%s|%s|%s|%s' % (names(P.POSITIONAL_ONLY, P.POSITIONAL_OR_KEYWORD), names(P.VAR_POSITIONAL),
                            names(P.VAR_KEYWORD), names(P.KEYWORD_ONLY))


def build_module(recs):
    """-> (source, [line of the first line of configuration i's text], [line after its last line])"""
    out = [PRELUDE]
    offs, ends = [], []
    line = PRELUDE_LINES + 1
    for i, r in enumerate(recs):
        text = r['text'].replace('TGT', 'X%d_' % i)
        nl = text.count('\n')
        names = ', '.join('X%d_%d' % (i, s) for s in range(1, r['nst'] + 1))
        if r['cx'] == 'mod':
            out.append(text + '\n')
            offs.append(line)
            line += nl + 1
        else:
            out.append('def mk%d():\n    %s\n    return (%s, )\n%s, = mk%d()\n' % (i, text, names, names, i))
            offs.append(line + 1)
            line += nl + 4
        ends.append(offs[-1] + nl)
    return ''.join(out), offs, ends


def _lambda_id(node):
    """which lambda of the configuration an ast.Lambda node is (body constant 100+k)"""
    if not isinstance(node, ast.Lambda):
        return None
    b = node.body
    if isinstance(b, ast.Tuple) and b.elts:
        b = b.elts[0]
    if isinstance(b, ast.Constant) and isinstance(b.value, int) and 100 < b.value < 200:
        return b.value - 100
    return None


def _objects(rec, tops):
    """lambda objects of a configuration by index (1-based), following the specification's parent vector"""
    n = rec['n']
    objs = {}
    kids = {k: [c for c in range(1, n + 1) if rec['par'][c - 1] == k] for k in range(0, n + 1)}
    seen = {}
    for c in kids[0]:                         # top-level lambda c is the next element of its statement's tuple
        st = rec['stmt'][c - 1]
        objs[c] = tops[st - 1][seen.get(st, 0)]
        seen[st] = seen.get(st, 0) + 1

    def descend(k):
        if not kids[k]:
            return
        a, kw = CALL[rec['sig'][k - 1]]
        val = objs[k](*a, **kw)
        if not (isinstance(val, tuple) and val[0] == 100 + k and len(val) == 1 + len(kids[k])):
            raise common.MachineryError('lambda %d of %r did not return its body tuple' % (k, rec['text']))
        for pos, c in enumerate(kids[k]):
            objs[c] = val[1 + pos]
            descend(c)
    for c in kids[0]:
        descend(c)
    if sorted(objs) != list(range(1, n + 1)):
        raise common.MachineryError('could not obtain all lambda objects of %r' % rec['text'])
    return objs


def run_batch(parser, errors, recs, scratch, stats):
    """-> list (per record) of list (per lambda, 0-based) of (outcome, detail) with outcome in
    'found:<j>' | 'unsupported' | 'error:<Type>' | 'altered'"""
    src, offs, ends = build_module(recs)
    try:
        mod, path = L.load_module(src, scratch, 'lam')
    except Exception as e:
        raise common.MachineryError('rendered lambda module does not import: %r' % (e,))
    try:
        tree = ast.parse(src)
        all_lambdas = [nd for nd in ast.walk(tree) if isinstance(nd, ast.Lambda)]
        results = []
        for i, (rec, off, end) in enumerate(zip(recs, offs, ends)):
            nodes = {}
            for nd in all_lambdas:               # configurations occupy disjoint line ranges
                if off <= nd.lineno <= end:
                    k = _lambda_id(nd)
                    if k is None or k in nodes:
                        raise common.MachineryError('unexpected lambda at line %d' % nd.lineno)
                    nodes[k] = nd
            objs = _objects(rec, [getattr(mod, 'X%d_%d' % (i, s)) for s in range(1, rec['nst'] + 1)])
            per = []
            for k in range(1, rec['n'] + 1):
                nd, ob = nodes.get(k), objs[k]
                # model validation: the specification's line arithmetic is the interpreter's
                if nd is None or nd.lineno != off + rec['first'][k - 1] - 1 or nd.end_lineno != off + rec['last'][k - 1] - 1 \
                        or ob.__code__.co_firstlineno != nd.lineno:
                    raise common.MachineryError('LambdaSelect.tla disagrees with CPython on the lines of lambda %d in %r' % (
                        k, rec['text']))
                # ... and so is what it says about functools.wraps: the object is the lambda (its own code and
                # parameters), only wrapper-following introspection reports the wrapped function's parameters
                w = _wr(rec)[k - 1]
                if 'own' in rec and (
                        own_key(ob) != rec['own'][k - 1] or shown_key(ob) != rec['shown'][k - 1]
                        or ob.__code__.co_name != '<lambda>'
                        or (getattr(ob, '__wrapped__', None) is not getattr(mod, 'W_' + w, None))):
                    raise common.MachineryError(
                        'LambdaSelect.tla disagrees with CPython on the parameters of lambda %d in %r: own %s shown %s' % (
                            k, rec['text'], own_key(ob), shown_key(ob)))
                if w != 'no':
                    stats['wrapped_lambda_objects'] = stats.get('wrapped_lambda_objects', 0) + 1
                want = ast.dump(nd)
                try:
                    got, _s = parser.parse_entity(ob, ())
                except (errors.UnsupportedLanguageElementError, ValueError) as e:
                    per.append(('unsupported', '%s: %s' % (type(e).__name__, str(e)[:200])))
                    continue
                except Exception as e:   # noqa
                    per.append(('error:' + type(e).__name__, '%s: %s' % (type(e).__name__, str(e)[:200])))
                    continue
                j = _lambda_id(got)
                if j is None:
                    per.append(('altered', 'recovered node is not one of the lambdas: %s' % ast.dump(got)[:200]))
                elif j == k and ast.dump(got) != want:
                    per.append(('altered', 'recovered %s, the interpreter compiled %s' % (ast.unparse(got), ast.unparse(nd))))
                else:
                    per.append(('found:%d' % j, ast.unparse(got)))
                stats['lambda_objects'] = stats.get('lambda_objects', 0) + 1
            results.append(per)
        return results
    finally:
        L.unload_module(mod, path)


def _rivals(rec, i):
    """sorted descriptions of the other lambdas whose span covers the first line of lambda i (1-based)"""
    out = []
    for j, rel in enumerate(rec['rivals'][i - 1], 1):
        if rel:
            out.append('%s-%s' % (SIG_NAME[rec['sig'][j - 1]], rel))
    return sorted(set(out))


def judge(rec, i, outcome):
    """-> None (conforms to the specification) or (signature, what)"""
    kind = outcome[0]
    exp = rec['exp'][i - 1]
    me = SIG_NAME[rec['sig'][i - 1]]
    if kind.startswith('found:'):
        j = int(kind[6:])
        if j == i:
            return None
        rel = rec['rivals'][i - 1][j - 1] or 'not-a-candidate'
        return ('c15:lambda:wrong-lambda:%s-vs-%s:%s' % (me, SIG_NAME[rec['sig'][j - 1]], rel),
                'object created by lambda %d (%s) is resolved to lambda %d (%s), relation %s' % (
                    i, me, j, SIG_NAME[rec['sig'][j - 1]], rel))
    riv = '+'.join(_rivals(rec, i)) or 'alone'
    if kind == 'unsupported':
        if exp == 'found':
            return ('c15:lambda:unresolved:%s:%s' % (me, riv),
                    'lambda that is unique by line span or parameter names is rejected: ' + outcome[1])
        return None
    if kind == 'altered':
        return ('c15:lambda:altered:%s:%s' % (me, riv), outcome[1])
    return ('c15:lambda:%s:%s:%s' % (kind, me, riv), 'recovery crashed instead of finding or rejecting: ' + outcome[1])


# ---------------------------------------------------------------------------------------------------------
# classification: minimal failing configuration inside the enumerated space
# ---------------------------------------------------------------------------------------------------------
SEVERITY = ['wrong-lambda', 'altered', 'error', 'unresolved']


def key_of(rec):
    return (rec['cx'], tuple(rec['par']), tuple(rec['brk']), tuple(rec['span']), tuple(rec['sig']), tuple(rec['sep']),
            tuple(_wr(rec)))


def violation_class(sig):
    """'c15:lambda:<class>:...' -> class ('error:<Type>' counts as 'error')"""
    return sig.split(':')[2]


def reductions(key, i):
    """simpler configurations, each with the new index of the object under test (1-based)"""
    cx, par, brk, span, sig, sep, wr = key
    n = len(par)
    if cx != 'mod':
        yield ('mod', par, brk, span, sig, sep, wr), i
    for k in range(n - 1, -1, -1):                # drop another lambda; lambdas inside it move to its parent
        if n > 1 and k + 1 != i:
            newpar = tuple((par[k] if p == k + 1 else p - 1 if p > k + 1 else p) for q, p in enumerate(par) if q != k)

            def cut(t):
                return tuple(x for q, x in enumerate(t) if q != k)
            newsep = cut(sep)
            newsep = ('comma',) + newsep[1:]      # the first lambda never opens a second statement
            yield (cx, newpar, cut(brk), cut(span), cut(sig), newsep, cut(wr)), (i - 1 if k + 1 < i else i)
    for k in range(n):
        if wr[k] != 'no':                        # the object no longer goes through functools.wraps
            yield (cx, par, brk, span, sig, sep, wr[:k] + ('no',) + wr[k + 1:]), i
    for k in range(n):
        if sep[k] != 'comma':                    # join two statements into one tuple display
            yield (cx, par, brk, span, sig, sep[:k] + ('comma',) + sep[k + 1:], wr), i
        if brk[k] != 'same':
            yield (cx, par, brk[:k] + ('same',) + brk[k + 1:], span, sig, sep, wr), i
        if span[k] != 'one':
            yield (cx, par, brk, span[:k] + ('one',) + span[k + 1:], sig, sep, wr), i
        if par[k] != 0:                          # lift the last lambda, if nested and childless, to the top level
            if (k + 1) not in par and k == n - 1:
                yield (cx, par[:k] + (0,), brk, span, sig, sep, wr), i
        # a parameter list that shares its names with no other lambda (nor with a wrapped function) may lose its
        # parameters altogether (never rename: a reduction must remove features, not create a new name clash)
        wnames = [NAMES[w] for w in wr if w != 'no']
        others = [NAMES[sig[j]] for j in range(n) if j != k] + wnames
        if sig[k] != 'none' and NAMES[sig[k]] not in others and NAMES['none'] not in others:
            yield (cx, par, brk, span, sig[:k] + ('none',) + sig[k + 1:], sep, wr), i
        # likewise the parameter list of a wrapped function
        others = [NAMES[s] for s in sig] + [NAMES[w] for j, w in enumerate(wr) if w != 'no' and j != k]
        if wr[k] not in ('no', 'none') and NAMES[wr[k]] not in others and NAMES['none'] not in others:
            yield (cx, par, brk, span, sig, sep, wr[:k] + ('none',) + wr[k + 1:]), i


def describe(key, rec):
    """feature description of a (minimal) configuration: parameter lists and how the lambdas relate"""
    cx, par, brk, span, sig, sep, wr = key
    names = '-vs-'.join(sorted(SIG_NAME[s] for s in sig))
    n = len(par)
    rels = set()
    for i in range(n):
        for j in range(n):
            if i < j:
                r = rec['rivals'][i][j] or rec['rivals'][j][i]
                r = {'inside': 'nested', 'around': 'nested'}.get(r, r)
                rels.add(r or 'separate-lines')
    extra = []
    if cx != 'mod':
        extra.append('in-function')
    if 'semi' in sep:
        extra.append('separate-statements')
    for k in range(n):                           # functools.wraps(<function with parameters wr>)(<lambda sig>)
        if wr[k] != 'no':
            extra.append('%s-wraps-%s' % (SIG_NAME[sig[k]], SIG_NAME[wr[k]]))
    if n == 1:
        rels.add('alone')
        if span[0] == 'two':
            extra.append('two-lines')
        if brk[0] == 'nl':
            extra.append('after-line-break')
    return names + ':' + '+'.join(sorted(rels) + extra)


class Classifier:
    """Per lambda object: greedy descent through enumerated configurations in which the same object fails in the
    same way; memoised, deterministic."""

    def __init__(self, verdicts, recs_by_key):
        self.verdicts = verdicts        # (key, i) -> None | violation class
        self.recs = recs_by_key
        self.memo = {}
        self.lookups = 0
        self.misses = 0

    def minimal(self, key, i):
        cls = self.verdicts[(key, i)]
        path, cur = [], (key, i)
        while True:
            if cur in self.memo:
                res = self.memo[cur]
                break
            path.append(cur)
            nxt = None
            for cand in reductions(*cur):
                self.lookups += 1
                if cand not in self.verdicts:
                    self.misses += 1
                    continue
                if self.verdicts[cand] == cls:
                    nxt = cand
                    break
            if nxt is None:
                res = cur
                break
            cur = nxt
        for p in path:
            self.memo[p] = res
        return res

    def signature(self, key, i):
        m, mi = self.minimal(key, i)
        return 'c15:lambda:%s:%s' % (self.verdicts[(key, i)], describe(m, self.recs[m])), m
