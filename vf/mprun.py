"""Shared pipeline of the MiniPy family: program batches -> TLC exploration -> executions -> model validation."""
import os
import json
import time
import multiprocessing

from . import common, tlc, minipy as mp

BOUNDS = dict(MaxTrip=2, MaxSteps=60, MaxDepth=3, MaxDec=8, IntMax=2)


def cfg_text(spec='Spec', invariants=('Emit',), bounds=None, constraint='DecBound'):
    b = dict(BOUNDS)
    b.update(bounds or {})
    lines = ['SPECIFICATION %s' % spec, 'CONSTANTS'] + [' %s = %d' % kv for kv in sorted(b.items())]
    lines += ['INVARIANT %s' % i for i in invariants]
    if constraint:
        lines.append('CONSTRAINT %s' % constraint)
    lines.append('CHECK_DEADLOCK FALSE')
    return '\n'.join(lines) + '\n'


def random_programs(n, seed, **kw):
    return [mp.gen_random(seed * 1000003 + i, **kw) for i in range(n)]


BATCH = 6000      # programs per TLC run (bounds the memory and the duration of a single run)
PARALLEL = 1      # TLC instances run side by side on slices of a batch (measured: no gain over one 16-worker instance)


def explore(progs, module='MiniPy', spec='Spec', invariants=('Emit',), env=None, bounds=None, name=None,
            workers=16, timeout=1500, workdir=None, claims=None):
    """Run TLC over all executions of all programs (in batches). Returns (TLCResult, workdir).

    claims: per-program claim records for the monitors (written next to each batch as CLAIM_FILE)."""
    wd = workdir or common.scratch('mp_%s_%d' % (name or module, os.getpid()))
    # TLC scales poorly beyond a few workers on this specification (initial states and the JSON tables are handled by
    # one thread): several TLC instances on slices of the batch use the cores better than one instance with 16 workers
    n = len(progs)
    par = PARALLEL if (n >= 200 and workers >= 8) else 1
    nsl = max(par, -(-n // BATCH))
    # interleaved slices: the program families differ a lot in cost, contiguous slices would be unbalanced
    slices = [list(range(k, n, nsl)) for k in range(nsl)] if n else [[]]

    def one(k):
        idx = slices[k]
        pf = os.path.join(wd, 'progs_%d.json' % k)
        with open(pf, 'w') as f:
            json.dump([progs[i] for i in idx], f)
        e = dict(PROG_FILE=pf)
        e.update(env or {})
        if claims is not None:
            cf = os.path.join(wd, 'claims_%d.json' % k)
            with open(cf, 'w') as f:
                json.dump([claims[i] for i in idx], f)
            e['CLAIM_FILE'] = cf
        res = tlc.run_tlc(module, cfg_text(spec, invariants, bounds), env=e, workers=max(2, workers // par), timeout=timeout,
                          name='%s_%d' % (name or module, k))
        res.require_ok(module)
        for r in res.json:
            if isinstance(r, dict) and 'pid' in r:
                r['pid'] = idx[r['pid'] - 1] + 1
        return res
    from concurrent.futures import ThreadPoolExecutor
    t0 = time.time()
    with ThreadPoolExecutor(par) as ex:
        results = list(ex.map(one, range(len(slices))))
    total = results[0]
    for res in results[1:]:
        total.generated += res.generated
        total.distinct += res.distinct
        total.json.extend(res.json)
    total.wall_s = round(time.time() - t0, 2)
    return total, wd


def _validate_chunk(args):
    progs, recs = args
    rendered = {}
    bad = []
    for rec in recs:
        pid = rec['pid']
        p = progs[pid - 1]
        if pid not in rendered:
            rendered[pid] = mp.render(p)[0]
        res = mp.run_py(rendered[pid], p, rec['dec'], inp=rec.get('inp'))
        if not mp.same_observation(rec, res):
            bad.append(dict(pid=pid, dec=rec['dec'], src=rendered[pid], spec_log=rec['log'], spec_out=mp.spec_outcome(rec),
                            py_log=res['log'], py_out=res['out'], py_used=res['used']))
            if len(bad) > 3:
                break
    return bad


_SHARED = {}


def _shared_call(span):
    lo, hi = span
    return _SHARED['fn']((_SHARED['progs'], _SHARED['recs'][lo:hi]))


def parallel(fn, progs, recs, procs=14, chunk=4000):
    """Apply fn((progs, chunk_of_recs)) over chunks of recs grouped by program, in a process pool.

    The programs and records reach the workers through the fork (module global), only index ranges are sent:
    pickling the batch for every chunk made the thorough tier spend its time in pipes."""
    recs = sorted(recs, key=lambda r: r['pid'])
    spans = [(lo, min(len(recs), lo + chunk)) for lo in range(0, len(recs), chunk)]
    if len(spans) <= 1:
        return [fn((progs, recs))] if recs else []
    import gc
    _SHARED.update(fn=fn, progs=progs, recs=recs)
    gc.collect()
    gc.freeze()      # a forked worker's collector must not write into (and thereby copy) the parent's objects
    try:
        with multiprocessing.get_context('fork').Pool(min(procs, len(spans))) as pool:
            return pool.map(_shared_call, spans)
    finally:
        gc.unfreeze()
        _SHARED.clear()


def validate_model(progs, recs):
    """Every specification execution must be reproduced exactly by CPython on the unconverted function."""
    bad = [b for part in parallel(_validate_chunk, progs, recs) for b in part]
    if bad:
        b = bad[0]
        raise common.MachineryError(
            'MiniPy model disagrees with CPython on %d execution(s); first: dec=%s\n%s\nspec: %s %s\npy:   %s %s' % (
                len(bad), b['dec'], b['src'], b['spec_log'][-3:], b['spec_out'], b['py_log'][-3:], b['py_out']))
    return len(recs)
