"""Shared pipeline of the MiniPy family: program batches -> TLC exploration -> executions -> model validation."""
import os
import json
import multiprocessing

from . import common, tlc, minipy as mp

BOUNDS = dict(MaxTrip=2, MaxSteps=60, MaxDepth=3, MaxDec=8, IntMax=2)


def cfg_text(spec='Spec', invariants=('Emit',), bounds=None, constraint='DecBound'):
    b = dict(BOUNDS)
    b.update(bounds or {})
    lines = ['SPECIFICATION %s' % spec, 'CONSTANTS'] + [' %s = %d' % kv for kv in sorted(b.items())]
    lines += ['INVARIANT %s' % i for i in invariants]
    if constraint:
        lines.append('CONSTRAINT %s' % constraint)
    lines.append('CHECK_DEADLOCK FALSE')
    return '\n'.join(lines) + '\n'


def random_programs(n, seed, **kw):
    return [mp.gen_random(seed * 1000003 + i, **kw) for i in range(n)]


BATCH = 6000      # programs per TLC run (bounds the memory and the duration of a single run)


def explore(progs, module='MiniPy', spec='Spec', invariants=('Emit',), env=None, bounds=None, name=None,
            workers=16, timeout=1500, workdir=None, claims=None):
    """Run TLC over all executions of all programs (in batches). Returns (TLCResult, workdir).

    claims: per-program claim records for the monitors (written next to each batch as CLAIM_FILE)."""
    wd = workdir or common.scratch('mp_%s_%d' % (name or module, os.getpid()))
    total = None
    for lo in range(0, max(len(progs), 1), BATCH):
        part = progs[lo:lo + BATCH]
        pf = os.path.join(wd, 'progs.json')
        with open(pf, 'w') as f:
            json.dump(part, f)
        e = dict(PROG_FILE=pf)
        e.update(env or {})
        if claims is not None:
            cf = os.path.join(wd, 'claims.json')
            with open(cf, 'w') as f:
                json.dump(claims[lo:lo + BATCH], f)
            e['CLAIM_FILE'] = cf
        res = tlc.run_tlc(module, cfg_text(spec, invariants, bounds), env=e, workers=workers, timeout=timeout,
                          name=name or module)
        res.require_ok(module)
        for r in res.json:
            if isinstance(r, dict) and 'pid' in r:
                r['pid'] += lo
        if total is None:
            total = res
        else:
            total.generated += res.generated
            total.distinct += res.distinct
            total.json.extend(res.json)
            total.wall_s += res.wall_s
    return total, wd


def _validate_chunk(args):
    progs, recs = args
    rendered = {}
    bad = []
    for rec in recs:
        pid = rec['pid']
        p = progs[pid - 1]
        if pid not in rendered:
            rendered[pid] = mp.render(p)[0]
        res = mp.run_py(rendered[pid], p, rec['dec'], inp=rec.get('inp'))
        if not mp.same_observation(rec, res):
            bad.append(dict(pid=pid, dec=rec['dec'], src=rendered[pid], spec_log=rec['log'], spec_out=mp.spec_outcome(rec),
                            py_log=res['log'], py_out=res['out'], py_used=res['used']))
            if len(bad) > 3:
                break
    return bad


def parallel(fn, progs, recs, procs=14, chunk=4000):
    """Apply fn((progs, chunk_of_recs)) over chunks of recs grouped by program, in a process pool."""
    recs = sorted(recs, key=lambda r: r['pid'])
    parts = list(common.chunks(recs, chunk))
    if len(parts) <= 1:
        return [fn((progs, recs))] if recs else []
    with multiprocessing.get_context('fork').Pool(min(procs, len(parts))) as pool:
        return pool.map(fn, [(progs, part) for part in parts])


def validate_model(progs, recs):
    """Every specification execution must be reproduced exactly by CPython on the unconverted function."""
    bad = [b for part in parallel(_validate_chunk, progs, recs) for b in part]
    if bad:
        b = bad[0]
        raise common.MachineryError(
            'MiniPy model disagrees with CPython on %d execution(s); first: dec=%s\n%s\nspec: %s %s\npy:   %s %s' % (
                len(bad), b['dec'], b['src'], b['spec_log'][-3:], b['spec_out'], b['py_log'][-3:], b['py_out']))
    return len(recs)
