"""C13 harness: realises the abstract callable descriptors of spec/CallPolicy.tla as concrete Python
callables, replays one TLC history (two calls of the call wrapper) into the real malt code and reports
every difference between what the specification printed and what was observed.

Nothing in here decides what *should* happen: expected rule / mode / binding / warnings / attempts / cache
contents come from the JSON record TLC printed for the history.  The direct call `f(*args, **kwargs)` is
executed first and compared with the binding the specification predicts (model validation against
CPython: a disagreement is a MachineryError, never a violation).
"""
import contextlib
import functools
import inspect
import io
import os
import sys
import types

from . import common

TEMPLATE = os.path.join(os.path.dirname(os.path.abspath(__file__)), 'c13_targets_template.py')
MARK = 'C13CASEID'


class InjectedFault(Exception):
  """Raised by the harness inside the conversion pipeline."""


# ---------------------------------------------------------------------------------------------------
# environment: instrumentation of the malt under test (installed once per process)
# ---------------------------------------------------------------------------------------------------
class Env(object):

  def __init__(self, scratch):
    import tempfile
    from malt.impl import api, conversion
    from malt.core import converter, ag_ctx, unsupported_features_checker
    from malt.operators import function_wrappers
    from malt.utils import ag_logging
    from malt.pyct import errors, inspect_utils, parser, origin_info, cfg, qual_names, loader, transpiler
    from malt.pyct.static_analysis import activity, reaching_definitions
    from malt.converters import (functions, directives, break_statements, continue_statements,
                                 return_statements, call_trees, control_flow, conditional_expressions,
                                 logical_expressions, variables)
    self.api, self.conversion, self.converter, self.ag_ctx = api, conversion, converter, ag_ctx
    self.errors = errors
    self.FunctionScope = function_wrappers.FunctionScope
    self.scratch = scratch
    self.srcdir = os.path.join(scratch, 'src')
    self.tmpdir = os.path.join(scratch, 'tmp')
    os.makedirs(self.srcdir, exist_ok=True)
    os.makedirs(self.tmpdir, exist_ok=True)
    self._old_tempdir = tempfile.tempdir
    tempfile.tempdir = self.tmpdir        # generated files of malt's loader: not in /tmp
    with open(TEMPLATE) as f:
      parts = f.read().split('\n# --- section: ')
    self.header = parts[0]
    self.sections = {p.split('\n', 1)[0].strip(): p.split('\n', 1)[1] for p in parts[1:]}
    self.serial = 0
    # ---- observation state
    self.fired = 0          # instrumented control-flow operators executed
    self.depth = 0          # >0 while inside a call wrapper invoked from converted code
    self.base_depth = 0     # depth at which the call wrapper under test runs (1 when a converted caller makes the call)
    self._callers = {}
    self.warnings = []      # warnings emitted at depth 0
    self.nested_warnings = []
    self.attempts = 0       # _convert_actual entered at depth 0
    # ---- spies
    self._restore = []
    ag = api._TRANSPILER.get_extra_locals()['ag__']
    self.ag = ag
    for name in ('if_stmt', 'if_exp', 'for_stmt', 'while_stmt'):
      self._wrap(ag, name, self._count_fired)
    self._wrap(ag, 'converted_call', self._nested_call)
    self._wrap(ag_logging, 'warning', self._warning, call_orig=False)
    self._wrap(api, '_convert_actual', self._attempt)
    E = errors.UnsupportedLanguageElementError
    self.fault_points = {
        'source': (inspect_utils, 'getimmediatesource', OSError, False),
        'parse': (parser, 'parse_entity', SyntaxError, True),
        'origin': (origin_info, 'resolve_entity', ValueError, True),
        'unsupported': (unsupported_features_checker, 'verify', E, True),
        'cfg': (cfg, 'build', AssertionError, True),
        'qual_names': (qual_names, 'resolve', AttributeError, True),
        'activity': (activity, 'resolve', AssertionError, True),
        'reaching_definitions': (reaching_definitions, 'resolve', KeyError, True),
        'functions': (functions, 'transform', NotImplementedError, True),
        'directives': (directives, 'transform', ValueError, True),
        'break_statements': (break_statements, 'transform', KeyError, True),
        'continue_statements': (continue_statements, 'transform', IndexError, True),
        'return_statements': (return_statements, 'transform', TypeError, True),
        'call_trees': (call_trees, 'transform', NameError, True),
        'control_flow': (control_flow, 'transform', InjectedFault, True),
        'conditional_expressions': (conditional_expressions, 'transform', AttributeError, True),
        'logical_expressions': (logical_expressions, 'transform', RuntimeError, True),
        'variables': (variables, 'transform', LookupError, True),
        'load': (loader, 'load_ast', InjectedFault, True),
        'instantiate': (transpiler._PythonFnFactory, 'instantiate', ValueError, False),
    }

  # ---- spies -----------------------------------------------------------------------------------
  def _wrap(self, owner, name, hook, call_orig=True):
    orig = getattr(owner, name)

    def spy(*a, **k):
      return hook(orig, a, k)
    spy.__name__ = getattr(orig, '__name__', name)
    setattr(owner, name, spy)
    self._restore.append((owner, name, orig))

  def _count_fired(self, orig, a, k):
    self.fired += 1
    return orig(*a, **k)

  def _nested_call(self, orig, a, k):
    self.depth += 1
    try:
      return orig(*a, **k)
    finally:
      self.depth -= 1

  def _warning(self, orig, a, k):
    try:
      text = (a[0] % a[1:]) if len(a) > 1 else str(a[0])
    except Exception:  # pylint:disable=broad-except
      text = repr(a)
    (self.warnings if self.depth == self.base_depth else self.nested_warnings).append(text)

  def _attempt(self, orig, a, k):
    if self.depth == self.base_depth:
      self.attempts += 1
    return orig(*a, **k)

  def close(self):
    import tempfile
    for owner, name, orig in reversed(self._restore):
      setattr(owner, name, orig)
    self._restore = []
    tempfile.tempdir = self._old_tempdir

  def reset_observation(self):
    self.fired = 0
    self.depth = 0
    del self.warnings[:]
    del self.nested_warnings[:]
    self.attempts = 0

  # ---- fault injection --------------------------------------------------------------------------
  @contextlib.contextmanager
  def fault(self, point):
    """Makes the pipeline function of `point` raise for the duration of the block."""
    if point in (None, 'none'):
      yield None
      return
    owner, name, exc_type, after = self.fault_points[point]
    orig = getattr(owner, name)
    exc = exc_type('vf-c13 injected fault at %s' % point)

    def failing(*a, **k):
      if after:                 # the real stage runs first: a failure of its own comes first
        orig(*a, **k)
      raise exc
    setattr(owner, name, failing)
    try:
      yield exc
    finally:
      setattr(owner, name, orig)

  # ---- real generated call sites ------------------------------------------------------------------
  def caller(self, fn, recursive):
    """`fn` (one of the _call_* functions below) converted by to_graph(recursive=...)."""
    key = (fn.__name__, recursive)
    if key not in self._callers:
      self._callers[key] = self.api.to_graph(fn, recursive=recursive, experimental_optional_features=None)
    return self._callers[key]

  # ---- options ----------------------------------------------------------------------------------
  def options(self, name):
    """(options object for options=, function scope or None) for an option name of the specification."""
    C = self.converter.ConversionOptions
    if name.startswith('o_'):
      return C(recursive=True, user_requested=name[3] == '1', internal_convert_user_code=name[5] == '1',
               optional_features=None), None
    scope = self.FunctionScope('host', 'fscope', C(recursive=name == 's_r1', user_requested=False,
                                                     optional_features=None))
    return scope.callopts, scope

  # ---- fresh modules ----------------------------------------------------------------------------
  def load_targets(self, modname_components, cid, tag, sections):
    """Executes a fresh copy of (the needed sections of) the targets file as module
    <components>.vfc13<tag>_<cid>."""
    name = '.'.join(list(modname_components) + ['vfc13%s_%s' % (tag, cid)])
    path = os.path.join(self.srcdir, 'm_%s_%s.py' % (tag, cid))
    src = (self.header + ''.join(self.sections[x] for x in sections)).replace(MARK, 'case-%s-%s' % (tag, cid))
    with open(path, 'w') as f:
      f.write(src)
    mod = types.ModuleType(name)
    mod.__file__ = path
    sys.modules[name] = mod
    exec(compile(src, path, 'exec'), mod.__dict__)   # pylint:disable=exec-used
    return mod

  def unload(self, mod):
    import linecache
    sys.modules.pop(mod.__name__, None)
    linecache.cache.pop(mod.__file__, None)
    try:
      os.unlink(mod.__file__)
    except OSError:
      pass

  def housekeeping(self):
    for k in [k for k in sys.modules if k.startswith('__autograph_generated_file')]:
      del sys.modules[k]

  def evict(self, obj):
    """Forget a shared real object (copy.copy ...) in the allow-list cache: cases must not leak."""
    c = self.conversion._ALLOWLIST_CACHE
    try:
      c._cache.pop(c._get_key(obj), None)   # pylint:disable=protected-access
    except TypeError:
      pass


# ---------------------------------------------------------------------------------------------------
# concrete values for the symbolic argument tokens
# ---------------------------------------------------------------------------------------------------
def _neg(v):
  return -v


def _mod3(v):
  return v % 3


TOK_RANK = {'c': 0, 's1': 1, 's2': 2}


def _rank(token):
  """0 for call-site tokens, 1 / 2 for tokens stored by partial layer 1 / 2."""
  return 0 if token.startswith('c') else int(token[1])


class Realisation(object):
  """A concrete callable for one descriptor."""

  def __init__(self):
    self.base = None            # innermost target
    self.instr = False
    self.posval = None          # f(final_index, token, final_len) -> value  (fresh per call)
    self.kwname = {'k': 'k', 'z': 'z'}
    self.kwval = None           # f(key, token) -> value
    self.receiver = None        # expected implicit receiver
    self.record_name = None
    self.norm = None            # extra normaliser
    self.before_call = None     # e.g. lru cache_clear
    self.shared = False         # real library object shared between cases
    self.modules = []
    self.logs = []              # LOG lists of the loaded modules
    self.in_context = None      # 'eval' | 'super' | 'globals' | 'locals'


# sections of the targets file a kind needs: (user copy, copy living in an allow-listed module)
SECTIONS = {
    'function': (('function',), ()), 'lambda': (('lambda',), ()), 'closure': (('closure',), ()),
    'decorated': (('decorated',), ()), 'bound_method': (('obj',), ()), 'unbound_method': (('obj',), ()),
    'class_method': (('obj',), ()), 'static_method': (('obj',), ()), 'callable_object': (('obj',), ()),
    'callable_slots': (('slots',), ()), 'callable_static': (('staticcall',), ()),
    'callable_classm': (('classcall',), ()), 'class_meta': (('meta',), ()),
    'callable_partialsub': (('partialsub',), ()), 'method_nt_sub': (('nt',), ()),
    'method_overridden': (('owner',), ('owner',)), 'generator': (('gen',), ()), 'callable_gen': (('gencall',), ()),
    'callable_allowcall': ((), ('callfunc',)), 'method_testcase': (('testcase',), ()),
    'method_owner': (('owner',), ('owner',)), 'method_base': (('owner',), ('owner',)),
    'method_nt_own': (('nt', 'owner'), ()), 'method_nt': (('nt',), ()), 'class': (('cls',), ()),
    'namedtuple_class': (('nt',), ()), 'lru_cached': (('lru',), ()), 'wrapt_function': (('wrapt',), ()),
    'artifact_dnc': (('function',), ()), 'artifact_converted': (('function',), ()),
    'artifact_unspec': (('function',), ()), 'exec_function': (('exec',), ()), 'fn_nosource': (('exec',), ()),
    'callable_native': (('nativecall',), ()), 'fn_forelse': (('forelse',), ()), 'async_function': (('acoro',), ()),
}


def realise(env, rec, cid):
  """Builds the innermost target of the descriptor."""
  kind = rec['kind']
  R = Realisation()
  R.instr = rec['instr']
  usec, asec = SECTIONS.get(kind, ((), ()))
  U = env.load_targets(rec['mod'] if rec['modsens'] else ['vfc13user'], cid, 'u', usec)
  R.modules.append(U)
  R.logs.append(U.LOG)
  R.posval = lambda i, tok, n: tok
  R.kwval = lambda key, tok: tok

  def allowlisted_copy():
    A = env.load_targets(['tensorflow', 'python', 'ops'], cid, 'a', asec)
    R.modules.append(A)
    R.logs.append(A.LOG)
    return A

  def obj():
    o = U.Obj()
    R.receiver = o
    return o

  if kind == 'function':
    R.base = U.target
  elif kind == 'lambda':
    R.base = U.lam
  elif kind == 'closure':
    R.receiver = 'tag-%s' % cid
    R.base = U.make_closure(R.receiver)
  elif kind == 'decorated':
    R.base = U.decorated
  elif kind == 'bound_method':
    R.base = obj().meth
  elif kind == 'unbound_method':
    o = obj()
    R.base = U.Obj.meth
    R.posval = lambda i, tok, n: o if i == 0 else tok
  elif kind == 'class_method':
    R.receiver = U.Obj
    R.base = U.Obj.cmeth
  elif kind == 'static_method':
    R.base = U.Obj.smeth
  elif kind == 'callable_object':
    R.base = obj()
  elif kind == 'callable_slots':
    R.base = R.receiver = U.SlotsObj()
  elif kind == 'callable_static':
    R.base = U.StaticCall()
  elif kind == 'callable_classm':
    R.base = U.ClassCall()
    R.receiver = U.ClassCall
  elif kind == 'class_meta':
    R.base = R.receiver = U.WithMeta
  elif kind == 'callable_partialsub':
    R.base = R.receiver = U.PartialSub(dict)
  elif kind == 'method_nt_sub':
    R.receiver = U.NTSub('x')
    R.base = R.receiver.meth
  elif kind == 'method_overridden':
    A = allowlisted_copy()
    sub = type('UserSub', (A.OwnerBase,), {'__module__': U.__name__, 'owner_meth': U.owner_meth})
    R.receiver = sub()
    R.base = R.receiver.owner_meth
  elif kind == 'generator':
    R.base = U.gen
  elif kind == 'callable_gen':
    R.base = R.receiver = U.GenCall()
  elif kind == 'callable_allowcall':
    A = allowlisted_copy()
    klass = type('UserCallable', (object,), {'__module__': U.__name__, '__call__': A.call_func})
    R.base = R.receiver = klass()
  elif kind == 'method_testcase':
    R.receiver = U.TC()
    R.base = R.receiver.meth
  elif kind == 'method_owner':
    A = allowlisted_copy()
    A.OwnerBase.owner_meth = U.owner_meth
    R.receiver = A.OwnerBase()
    R.base = R.receiver.owner_meth
  elif kind == 'method_base':
    A = allowlisted_copy()
    A.OwnerBase.owner_meth = U.owner_meth
    sub = type('UserSub', (A.OwnerBase,), {'__module__': U.__name__})
    R.receiver = sub()
    R.base = R.receiver.owner_meth
  elif kind == 'method_nt_own':
    U.NT2.owner_meth = U.owner_meth
    R.receiver = U.NT2('x')
    R.base = R.receiver.owner_meth
  elif kind == 'method_nt':
    R.base = U.NT('x', 'y')._asdict
  elif kind == 'class':
    R.base = U.Cls
    R.norm = lambda x: ('Cls', x.got) if type(x) is U.Cls else x
  elif kind == 'namedtuple_class':
    R.base = U.NT
    R.norm = lambda x: ('NT', type(x) is U.NT, tuple(x))
  elif kind == 'lru_cached':
    R.base = U.cached
    R.before_call = U.cached.cache_clear
  elif kind == 'wrapt_function':
    if U.wrapted is None:
      raise common.MachineryError('wrapt is not installed: kind wrapt_function cannot be realised')
    R.base = U.wrapted
  elif kind == 'stdlib_function':
    import copy
    import re
    import inspect
    pick = [(copy.copy, lambda: [1, [2]]), (copy.deepcopy, lambda: {'a': [1]}), (re.escape, lambda: 'a.b*'),
            (inspect.isclass, lambda: int)][int(cid) % 4]
    R.base, mk = pick
    R.posval = lambda i, tok, n: mk()
    R.shared = True
  elif kind == 'real_allowlisted':
    import posixpath
    import numpy
    from malt.pyct import parser as malt_parser
    pick = [(posixpath.basename, lambda: '/a/b.c'), (posixpath.normpath, lambda: '/a/../b'),
            (numpy.isscalar, lambda: 4.0), (malt_parser.dedent_block, lambda: '  x = 1\n  y = 2\n'),
            (numpy.iterable, lambda: [1, 2, 3])][int(cid) % 5]
    R.base, mk = pick
    R.posval = lambda i, tok, n: mk()
    R.shared = True
  elif kind == 'artifact_dnc':
    R.base = env.api.do_not_convert(U.target)
  elif kind == 'artifact_converted':
    R.base = env.api.to_graph(U.target)
  elif kind == 'artifact_unspec':
    R.base = env.api.call_with_unspecified_conversion_status(U.target)
  elif kind == 'exec_function':
    R.base = U.execd
  elif kind == 'callable_native':
    R.base = U.NativeCall()
  elif kind == 'c_unbound':
    R.base = str.format

    def posval(i, tok, n, rec=rec):
      if i == 0:
        keys = [kv[0] for kv in _direct_kw(rec)]
        return '|'.join(['{%d}' % j for j in range(n - 1)] + ['{%s}' % key for key in keys]) + '|' + tok
      return 'v' + tok
    R.posval = posval
    R.shared = True
  elif kind == 'fn_nosource':
    R.base = U.nosource
  elif kind == 'fn_forelse':
    R.base = U.forelse
  elif kind == 'async_function':
    R.base = U.acoro
  elif kind == 'bi_eval':
    R.base, R.in_context = eval, 'eval'
    R.posval = lambda i, tok, n: "x + '-evaluated'"
  elif kind == 'bi_super':
    R.base, R.in_context = super, 'super'
  elif kind == 'bi_globals':
    R.base, R.in_context = globals, 'globals'
  elif kind == 'bi_locals':
    R.base, R.in_context = locals, 'locals'
  elif kind == 'bo_sorted':
    R.base = sorted
    R.posval = lambda i, tok, n: [3, -1, 2, -5, 4]
    R.kwname = {'k': 'key', 'z': 'reverse'}
    R.kwval = lambda key, tok: ([abs, _neg, _mod3] if key == 'k' else [True, False, 0])[_rank(tok)]
  elif kind == 'bo_print':
    R.base = print
    R.posval = lambda i, tok, n: 'p-' + tok
    R.kwname = {'k': 'sep', 'z': 'end'}
    R.kwval = lambda key, tok: (['-', '+', '*'] if key == 'k' else ['!\n', '?\n', '.\n'])[_rank(tok)]
  elif kind == 'bo_len':
    R.base = len
    R.posval = lambda i, tok, n: [1, 2, 3]
  elif kind == 'bo_range':
    R.base = range
    R.posval = lambda i, tok, n: ([1, 9, 2][i] if n > 1 else 4)
    R.norm = lambda x: ('range', list(x)) if isinstance(x, range) else x
  elif kind == 'bo_int':
    R.base = int
    R.posval = lambda i, tok, n: '101'
    R.kwname = {'k': 'base'}
    R.kwval = lambda key, tok: [2, 8, 16][_rank(tok)]
  elif kind == 'bx_max':
    R.base = max
    R.posval = lambda i, tok, n: [3, -9, 5, -1][i]
    R.kwname = {'k': 'key'}
    R.kwval = lambda key, tok: [abs, _neg, _mod3][_rank(tok)]
  elif kind == 'bx_dict':
    R.base = dict
  elif kind == 'bx_next':
    R.base = next
    R.posval = lambda i, tok, n: iter(['first', 'second']) if i == 0 else 'default'
  elif kind == 'c_bound':
    keys = [kv[0] for kv in _direct_kw(rec)]
    n = len(_direct_pos(rec))
    fmt = '|'.join(['{%d}' % j for j in range(n)] + ['{%s}' % key for key in keys]) + '|'
    R.base = fmt.format
    R.posval = lambda i, tok, n: 'v' + tok
  else:
    raise common.MachineryError('no realisation for kind %r' % kind)
  return R



# ---------------------------------------------------------------------------------------------------
# call sites that are converted for real (mode "generated"): the call wrapper is then invoked by generated
# code, with the argument tuples / dicts the call_trees converter builds
# ---------------------------------------------------------------------------------------------------
def _call_0(f):
  return f()


def _call_1(f, a):
  return f(a)


def _call_2(f, a, b):
  return f(a, b)


def _call_k(f, a, v):
  return f(a, k=v)


def _call_star(f, args, kw):
  return f(*args, **kw)


def _call_mixed(f, a, rest, kw):
  return f(a, *rest, **kw)


def _pick_caller(rec, args, kwargs, parity):
  """(caller function, its arguments after f) for the call-site shape of the descriptor."""
  if kwargs is None:
    return [_call_0, _call_1, _call_2][len(args)], tuple(args)
  if rec['instr'] and rec['kwsh'] == 'k' and len(args) == 1 and 'k' in kwargs:
    return _call_k, (args[0], kwargs['k'])
  if args and parity:
    return _call_mixed, (args[0], args[1:], kwargs)
  return _call_star, (args, kwargs)


# ---------------------------------------------------------------------------------------------------
# one history
# ---------------------------------------------------------------------------------------------------
class _HostBase(object):
  pass


class Host(_HostBase):
  """The frame all calls of a history are made from: in-context builtins (eval, super, globals, locals)
  are resolved against it, so it owns `x`, the function scope variable `fscope` and a __class__ cell.
  Nothing that must see this frame is wrapped in a lambda."""

  def run(self, env, rec, cid):
    x = 'host-x'                      # pylint:disable=unused-variable
    fscope = None
    __class__                         # pylint:disable=pointless-statement   (no-argument super() needs the cell)
    problems = []
    R = realise(env, rec, cid)
    strict_before = os.environ.get('AUTOGRAPH_STRICT_CONVERSION')
    try:
      names = [rec['opt'], rec['opt2']]
      optobj, scopes = {}, {}
      for nm in sorted(set(names)):
        optobj[nm], scopes[nm] = env.options(nm)
      pos_tokens = _direct_pos(rec)
      kw_tokens = _direct_kw(rec)
      npos = len(pos_tokens)
      index_of = {tok: i for i, tok in enumerate(pos_tokens)}
      if R.in_context == 'super':
        sup_args = (Host, self)

        def pval(tok):
          return sup_args[index_of[tok]]
      else:
        def pval(tok):
          return R.posval(index_of[tok], tok, npos)
      kval = R.kwval

      # ---- the partial chain as written; layer 1 is the outermost object.  Built anew for every call, the
      # way generated code evaluates `obj.meth` / `functools.partial(...)` expressions again: a bound method
      # is a new object each time (the negative cache must remember the function, not that object).
      def build():
        base = R.base
        if inspect.ismethod(base):
          base = getattr(base.__self__, base.__name__)
        g = base
        objs = [base]
        layers = rec['layers']
        for j in range(len(layers), 0, -1):
          L = layers[j - 1]
          sp = [pval('s%d' % j)] if L['np'] else []
          sk = {R.kwname[key]: kval(key, 's%d%s' % (j, key)) for key in L['ks']}
          g = functools.partial(g, *sp, **sk)
          if rec['nest'] == 'kept' and j == 2:
            g.vf_keep = True          # an instance attribute stops functools from flattening
          objs.insert(0, g)
        _check_chain(rec, objs, base, R, pval, kval)     # model validation: CPython built the specified chain
        chain_objs = objs if rec['nl'] + 1 == len(objs) else [objs[0], objs[-1]]
        if len(chain_objs) != rec['nl'] + 1:
          raise common.MachineryError('chain length %d, specification says %d' % (len(chain_objs) - 1, rec['nl']))
        return g, objs, chain_objs, [(o.func, o.args, dict(o.keywords)) for o in objs[:-1]]

      f, objs, chain_objs, snapshot = build()

      def call_args():
        a = tuple(pval(t) for t in ['c1', 'c2'][:rec['npos']])
        if rec['kwsh'] == 'none':
          return a, None
        return a, {R.kwname[key]: kval(key, 'c' + key) for key in {'empty': '', 'k': 'k', 'kz': 'kz'}[rec['kwsh']]}

      if R.shared:
        env.evict(R.base)
      for o in chain_objs:
        for nm in optobj:
          if env.conversion.is_in_allowlist_cache(o, optobj[nm]):
            raise common.MachineryError('allow-list cache not empty before the first call (%r)' % (o,))
      for m in R.modules:
        m.RAISE = bool(rec['raises'])

      def begin():
        for lg in R.logs:
          del lg[:]
        env.reset_observation()
        if R.before_call:
          R.before_call()

      def end(res, exc, out):
        return dict(res=res, exc=exc, log=[r for lg in R.logs for r in lg], out=out.getvalue(), fired=env.fired,
                    warnings=list(env.warnings), attempts=env.attempts)

      # ---- the direct call: what Python itself does
      args, kwargs = call_args()
      begin()
      res = exc = None
      out = io.StringIO()
      with contextlib.redirect_stdout(out):
        try:
          if R.in_context == 'eval':
            res = eval(*args)                        # pylint:disable=eval-used
          elif R.in_context == 'super':
            res = super(*args) if args else super()
          elif R.in_context == 'globals':
            res = globals()
          elif R.in_context == 'locals':
            res = locals()
          elif kwargs is None:
            res = f(*args)
          else:
            res = f(*args, **kwargs)
          res = _ctxview(_norm(res, R)) if R.in_context in ('globals', 'locals') else _norm(res, R)
        except Exception as e:   # pylint:disable=broad-except
          exc = e
      direct = end(res, exc, out)
      _validate_direct(rec, R, direct, pos_tokens, kw_tokens, pval, kval)

      # ---- the two calls through the call wrapper
      status = getattr(env.ag_ctx.Status, rec['ctx'])
      os.environ['AUTOGRAPH_STRICT_CONVERSION'] = '1' if rec['strict'] else '0'
      generated = bool(rec.get('_generated'))
      env.base_depth = 1 if generated else 0
      for callno in (1, 2):
        exp = rec['calls'][callno - 1]
        nm = names[callno - 1]
        fscope = scopes[nm]
        f, objs, chain_objs, snapshot = build()
        args, kwargs = call_args()
        if generated:
          cfn, cargs = _pick_caller(rec, args, kwargs, int(cid) % 2)
          conv_caller = env.caller(cfn, nm == 's_r1')
        point = rec['fault'] if rec['fcall'] == callno else 'none'
        begin()
        res = exc = None
        out = io.StringIO()
        with env.fault(point) as injected, env.ag_ctx.ControlStatusCtx(status=status), \
            contextlib.redirect_stdout(out):
          try:
            if generated:
              res = conv_caller(f, *cargs)
            elif fscope is not None:
              res = env.api.converted_call(f, args, kwargs, fscope)
            else:
              res = env.api.converted_call(f, args, kwargs, options=optobj[nm])
            res = _ctxview(_norm(res, R)) if R.in_context in ('globals', 'locals') else _norm(res, R)
          except Exception as e:   # pylint:disable=broad-except
            exc = e
        got = end(res, exc, out)
        got['cache'] = sorted([i + 1, n2] for i, o in enumerate(chain_objs) for n2 in sorted(optobj)
                              if env.conversion.is_in_allowlist_cache(o, optobj[n2]))
        p = _compare(rec, R, callno, exp, direct, got, injected)
        if p:
          problems.append(p)
        # effects: the wrapper leaves the partial objects as they were
        after = [(o.func, o.args, dict(o.keywords)) for o in objs[:-1]]
        if not problems and not _eq(after, snapshot):
          problems.append(dict(
              signature='c13:transparency:%s:partial-object-changed' % rec['kind'],
              what='[effects] call %d changed the functools.partial object it went through: %r -> %r' % (
                  callno, [x[1:] for x in snapshot], [x[1:] for x in after]),
              witness=dict(descriptor={k: v for k, v in rec.items() if k != 'calls'}, call=callno, expected=exp)))
      return problems
    finally:
      env.base_depth = 0
      if strict_before is None:
        os.environ.pop('AUTOGRAPH_STRICT_CONVERSION', None)
      else:
        os.environ['AUTOGRAPH_STRICT_CONVERSION'] = strict_before
      if R.shared:
        env.evict(R.base)
      for m in R.modules:
        env.unload(m)


def _ctxview(d):
  """What the harness compares of a globals() / locals() dictionary."""
  if not isinstance(d, dict):
    return d
  return ('ctx', d.get('x'), 'fscope' in d, d.get('__name__'))


def _direct_pos(rec):
  """Final positional tokens of a direct call: taken from the first invocation the specification lists
  (every invocation of a history has the same binding - invariant BindingAtCall)."""
  for c in rec['calls']:
    if c['ninv']:
      return list(c['pos'])
  # no invocation at all (strict mode, both calls raise): recompute from the written layers
  pos = ['c1', 'c2'][:rec['npos']]
  for j, L in enumerate(rec['layers'], 1):
    if L['np']:
      pos = ['s%d' % j] + pos
  return pos


def _direct_kw(rec):
  for c in rec['calls']:
    if c['ninv']:
      return [tuple(kv) for kv in c['kw']]
  kw = {}
  for j in range(len(rec['layers']), 0, -1):
    for key in rec['layers'][j - 1]['ks']:
      kw[key] = 's%d%s' % (j, key)
  for key in {'none': '', 'empty': '', 'k': 'k', 'kz': 'kz'}[rec['kwsh']]:
    kw[key] = 'c' + key
  return sorted(kw.items())


def _norm(x, R):
  if isinstance(x, types.GeneratorType):
    try:
      return ('generator', list(x))
    except Exception as e:   # pylint:disable=broad-except
      raise
  if isinstance(x, types.CoroutineType):
    try:
      x.send(None)
    except StopIteration as e:
      return ('coroutine', e.value)
    except Exception as e:   # pylint:disable=broad-except
      raise
    x.close()
    return ('coroutine-suspended',)
  if isinstance(x, super):
    return ('super', x.__thisclass__, x.__self__, x.__self_class__)
  if R.norm is not None:
    return R.norm(x)
  return x


def _check_chain(rec, objs, base, R, pval, kval):
  """functools.partial built the objects the specification's `Chain` describes."""
  if len(objs) == 1:
    return
  outer = objs[0]
  exp = rec['chain'][0]
  want_args = tuple(pval(t) for t in exp['pos']) if rec['instr'] else None
  want_kw = {R.kwname[k]: kval(k, t) for k, t in exp['kw']}
  if rec['nl'] == 1 and outer.func is not base:
    raise common.MachineryError('model/CPython disagreement: partial chain not flattened as specified')
  if rec['nl'] == 2 and outer.func is not objs[1]:
    raise common.MachineryError('model/CPython disagreement: partial chain flattened, specification keeps it')
  if len(outer.args) != len(exp['pos']) or (want_args is not None and outer.args != want_args) \
      or set(outer.keywords) != set(want_kw) or (rec['instr'] and outer.keywords != want_kw):
    raise common.MachineryError('model/CPython disagreement on partial.args/keywords: %r %r vs %r' % (
        outer.args, outer.keywords, exp))


def expected_record(rec, R, pos_tokens, kw_tokens, pval, kval):
  """The record an instrumented target logs for the binding the specification predicts."""
  P = [pval(t) for t in pos_tokens]
  K = {k: kval(k, t) for k, t in kw_tokens}
  bind = rec['bind']
  if bind == 'first':
    recv, P = P[0], P[1:]
  elif bind == 'none':
    recv = None
  else:
    recv = R.receiver
  a = P[0] if P else 'da'
  rest = tuple(P[1:])
  k = K.pop('k', 'dk')
  return (recv, a, rest, k, K)


def _rec_view(r):
  """(receiver, a, rest, k, kw) of a logged record."""
  return (r[2], r[3], r[4], r[5], dict(r[6]))


def _same_view(a, b):
  return (a[0] is b[0] or (isinstance(a[0], str) and a[0] == b[0])) and a[1:] == b[1:]


def _validate_direct(rec, R, direct, pos_tokens, kw_tokens, pval, kval):
  if rec['raises']:
    if direct['exc'] is None or type(direct['exc']).__name__ != 'Boom':
      raise common.MachineryError('direct call did not raise Boom: %r' % (direct,))
  elif direct['exc'] is not None:
    raise common.MachineryError('the direct call fails: %r (%s)' % (direct['exc'], rec['kind']))
  if direct['fired'] and rec['kind'] != 'artifact_converted':
    raise common.MachineryError('control-flow operators fired during the direct call')
  if not rec['instr']:
    return
  if len(direct['log']) != 1:
    raise common.MachineryError('direct call entered the target %d times' % len(direct['log']))
  want = expected_record(rec, R, pos_tokens, kw_tokens, pval, kval)
  got = _rec_view(direct['log'][0])
  if not _same_view(got, want):
    raise common.MachineryError('model/CPython disagreement on the binding of a direct call: '
                                'specification %r, CPython %r (%s)' % (want, got, rec['kind']))


# clause -> the part of the property statement it belongs to
GROUP = {'error': 'transparency', 'exception': 'transparency', 'invoked-once': 'transparency',
         'binding': 'transparency', 'result': 'transparency', 'converted': 'policy', 'attempt': 'policy',
         'warning': 'fallback', 'strict': 'fallback', 'cache': 'memory'}


def _exc_class(e):
  if e is None:
    return ''
  return 'target' if type(e).__name__ == 'Boom' else 'conversion'


def _compare(rec, R, callno, exp, direct, got, injected):
  """First difference between the specification's outcome and the observed one, as a problem dict."""
  def problem(clause, what):
    # signature = <what is demanded>:<kind of callable>:<rule the specification applies>[:<fault point>]
    family = 'builtin_in_context' if rec['kind'] in ('bi_eval', 'bi_super', 'bi_globals', 'bi_locals') else rec['kind']
    rule, group = exp['rule'], GROUP[clause]
    if rec['kind'] == 'callable_partialsub':
      # one root cause whatever rule / clause shows it first: the object is unwrapped like a plain partial,
      # its own __call__ never runs (with a fault armed the symptom is a different exception, a missing
      # warning, ...)
      rule, group = 'any', 'transparency'
    sig = 'c13:%s:%s:%s' % (group, family, rule)
    if rec['fault'] != 'none' and exp['failat'] and rule != 'any':
      sig += ':' + rec['fault']
    w = dict(descriptor={k: v for k, v in rec.items() if k != 'calls'}, call=callno, expected=exp,
             observed=dict(result=repr(got['res'])[:300], exception=repr(got['exc'])[:300],
                           invocations=len(got['log']), fired=got['fired'], warnings=[w[:200] for w in got['warnings']],
                           attempts=got['attempts'], cache=got['cache'], stdout=got['out'][:200]),
             direct=dict(result=repr(direct['res'])[:300], exception=repr(direct['exc'])[:300], stdout=direct['out'][:200]))
    return dict(signature=sig, what='[%s] call %d%s: %s' % (clause, callno, ' (made by a converted call site)' if rec.get('_generated') else '', what), witness=w)

  # 1. errors
  oc = _exc_class(got['exc'])
  if oc != exp['exc']:
    if exp['exc'] == '' and oc == 'conversion':
      return problem('error', 'the call wrapper raised %r, a direct call returns normally' % (got['exc'],))
    return problem('exception', 'exception class %r, expected %r (%r)' % (oc, exp['exc'], got['exc']))
  if exp['exc'] == 'conversion' and injected is not None and rec['nat'] == 'none':
    e = got['exc']
    same = e is injected or (rec['fault'] == 'source' and str(injected) in str(e))
    if not same:
      return problem('strict', 'strict mode: %r propagated instead of the conversion error %r' % (e, injected))
  if exp['exc'] == 'target':
    d = direct['exc']
    if type(got['exc']) is not type(d) or _exc_args(got['exc']) != _exc_args(d):
      return problem('exception', 'the target\'s exception arrives changed: %r vs %r' % (got['exc'], d))
  # 2. invoked exactly once, with the binding of a direct call
  if rec['instr']:
    if len(got['log']) != exp['ninv']:
      return problem('invoked-once', 'target entered %d time(s), expected %d' % (len(got['log']), exp['ninv']))
    if exp['ninv'] == 1:
      a, b = _rec_view(got['log'][0]), _rec_view(direct['log'][0])
      if not _same_view(a, b):
        return problem('binding', 'target received %r, a direct call gives it %r' % (a, b))
  # 3. result / output
  if exp['exc'] == '' and (not _eq(got['res'], direct['res']) or got['out'] != direct['out']):
    return problem('result', 'result %r / output %r differ from the direct call\'s %r / %r' % (
        got['res'], got['out'], direct['res'], direct['out']))
  # 4. converted or not
  conv = got['fired'] > direct['fired']
  if conv != (exp['mode'] == 'converted'):
    return problem('converted', 'converted code %s, the policy says mode=%s (rule %s)' % (
        'ran' if conv else 'did not run', exp['mode'], exp['rule']))
  if got['attempts'] != exp['att']:
    return problem('attempt', '%d conversion attempt(s), expected %d' % (got['attempts'], exp['att']))
  # 5. warnings
  if len(got['warnings']) != exp['warn']:
    return problem('warning', '%d warning(s), expected %d: %r' % (len(got['warnings']), exp['warn'],
                                                                    [w[:80] for w in got['warnings']]))
  # 6. memory
  want_cache = sorted([c[0], c[1]] for c in exp['cache'])
  if got['cache'] != want_cache:
    return problem('cache', 'allow-list cache holds %r, expected %r' % (got['cache'], want_cache))
  return None


def _exc_args(e):
  a = e.args
  if a and isinstance(a[0], tuple) and len(a[0]) == 7:
    return ('record',) + _rec_view(a[0])[1:]
  return a


def _eq(a, b):
  try:
    return bool(a == b)
  except Exception:   # pylint:disable=broad-except
    return False


def run_history(env, rec, cid):
  return Host().run(env, rec, cid)
