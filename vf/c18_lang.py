"""C18 helper: the mini-language of spec/Anf.tla on the Python side.

Only rendering, running and abstracting happens here - no evaluation-order knowledge:
  * build_function(prog)   node table (as printed by Anf.tla)  ->  python ast.FunctionDef
  * execute(src, dec, trips)  run a function source under CPython with logging tokens
  * abstract(fn_ast, source_names)  python ast of the transformer's output -> node table
  * build_config(rules)    rule list of the spec -> anf.ASTEdgePattern configuration
The run-time values are opaque tokens; every operation on a token logs the symbolic term it computes
(the labels of Anf.tla) and returns a new token carrying that term.
"""
import ast
import re

PARAMS = ['x', 'v', 'w', 'a', 'b', 'o']
FIELDS = ('k', 's', 'c', 't', 'b1', 'b2', 'b3')


class Unabstractable(Exception):
    pass


# --------------------------------------------------------------------------- node tables
def expand(n):
    """compact node tuple printed by GenReport -> record with all seven fields"""
    n = list(n)
    while len(n) < 7:
        n.append([])
    return dict(zip(FIELDS, n))


def program(rec):
    return dict(n=[expand(x) for x in rec['n']], body=list(rec['body']))


def node_count(prog):
    return len(prog['n'])


# --------------------------------------------------------------------------- table -> python ast
class _Builder:
    def __init__(self, prog):
        self.n = prog['n']

    def nd(self, i):
        return self.n[i - 1]

    def expr(self, i, ctx=None):
        ctx = ctx or ast.Load()
        d = self.nd(i)
        k, s, c, t = d['k'], d['s'], d['c'], d['t']
        if k == 'Name':
            return ast.Name(id=s, ctx=ctx)
        if k == 'Constant':
            return ast.Constant(value=s if t == ['s'] else int(s))
        if k == 'T':
            return ast.Call(func=ast.Name(id='T', ctx=ast.Load()), args=[ast.Constant(value=int(s))], keywords=[])
        if k == 'Call':
            args, kws = [], []
            for j in range(1, len(c)):
                e = self.expr(c[j])
                m = t[j]
                if m == '':
                    args.append(e)
                elif m == '*':
                    args.append(ast.Starred(value=e, ctx=ast.Load()))
                elif m == '**':
                    kws.append(ast.keyword(arg=None, value=e))
                else:
                    kws.append(ast.keyword(arg=m[:-1], value=e))
            return ast.Call(func=self.expr(c[0]), args=args, keywords=kws)
        if k == 'Attribute':
            return ast.Attribute(value=self.expr(c[0]), attr=s, ctx=ctx)
        if k == 'Subscript':
            return ast.Subscript(value=self.expr(c[0]), slice=self.expr(c[1]), ctx=ctx)
        if k == 'Slice':
            parts = dict(l=None, u=None, s=None)
            for j, role in enumerate(t):
                parts[role] = self.expr(c[j])
            return ast.Slice(lower=parts['l'], upper=parts['u'], step=parts['s'])
        if k == 'BinOp':
            return ast.BinOp(left=self.expr(c[0]), op=ast.Add(), right=self.expr(c[1]))
        if k == 'UnaryOp':
            return ast.UnaryOp(op=ast.USub(), operand=self.expr(c[0]))
        if k == 'Compare':
            return ast.Compare(left=self.expr(c[0]), ops=[ast.Lt() for _ in c[1:]],
                               comparators=[self.expr(x) for x in c[1:]])
        if k in ('Tuple', 'List', 'Set'):
            elts = []
            for j, x in enumerate(c):
                if isinstance(ctx, ast.Load):
                    e = self.expr(x)
                else:
                    e = self.expr(x, type(ctx)())
                if t[j] == '*':
                    e = ast.Starred(value=e, ctx=type(ctx)())
                elts.append(e)
            if k == 'Set':
                return ast.Set(elts=elts)
            return getattr(ast, k)(elts=elts, ctx=ctx)
        if k == 'Dict':
            return ast.Dict(keys=[self.expr(x) for x in c[0::2]], values=[self.expr(x) for x in c[1::2]])
        if k == 'BoolOp':
            return ast.BoolOp(op=ast.And() if s == 'and' else ast.Or(), values=[self.expr(x) for x in c])
        if k == 'IfExp':
            return ast.IfExp(test=self.expr(c[0]), body=self.expr(c[1]), orelse=self.expr(c[2]))
        if k == 'Lambda':
            return ast.Lambda(args=ast.arguments(posonlyargs=[], args=[], vararg=None, kwonlyargs=[],
                                                 kw_defaults=[], kwarg=None, defaults=[]), body=self.expr(c[0]))
        if k == 'ListComp':
            return ast.ListComp(elt=self.expr(c[0]), generators=[ast.comprehension(
                target=ast.Name(id='q_', ctx=ast.Store()), iter=self.expr(c[1]), ifs=[], is_async=0)])
        raise ValueError('cannot render expression kind %r' % k)

    def block(self, ids):
        return [self.stmt(i) for i in ids] or [ast.Pass()]

    def stmt(self, i):
        d = self.nd(i)
        k, s, c, t = d['k'], d['s'], d['c'], d['t']
        if k == 'Assign':
            return ast.Assign(targets=[self.expr(c[0], ast.Store())], value=self.expr(c[1]))
        if k == 'AugAssign':
            return ast.AugAssign(target=self.expr(c[0], ast.Store()), op=ast.Add(), value=self.expr(c[1]))
        if k == 'Expr':
            return ast.Expr(value=self.expr(c[0]))
        if k == 'Return':
            return ast.Return(value=self.expr(c[0]) if c else None)
        if k == 'Raise':
            return ast.Raise(exc=self.expr(c[0]), cause=None)
        if k == 'Delete':
            return ast.Delete(targets=[self.expr(x, ast.Del()) for x in c])
        if k == 'Pass':
            return ast.Pass()
        if k == 'If':
            return ast.If(test=self.expr(c[0]), body=self.block(d['b1']), orelse=[self.stmt(x) for x in d['b2']])
        if k == 'While':
            return ast.While(test=self.expr(c[0]), body=self.block(d['b1']), orelse=[])
        if k == 'For':
            return ast.For(target=self.expr(c[0], ast.Store()), iter=self.expr(c[1]), body=self.block(d['b1']),
                           orelse=[])
        if k == 'With':
            items = [ast.withitem(context_expr=self.expr(x),
                                  optional_vars=ast.Name(id=t[j], ctx=ast.Store()) if t[j] else None)
                     for j, x in enumerate(c)]
            return ast.With(items=items, body=self.block(d['b1']))
        if k == 'Try':
            handlers = []
            if d['b2']:
                handlers = [ast.ExceptHandler(type=ast.Name(id='Exception', ctx=ast.Load()), name=None,
                                              body=self.block(d['b2']))]
            return ast.Try(body=self.block(d['b1']), handlers=handlers, orelse=[],
                           finalbody=[self.stmt(x) for x in d['b3']])
        raise ValueError('cannot render statement kind %r' % k)


def build_function(prog):
    b = _Builder(prog)
    fn = ast.FunctionDef(
        name='f',
        args=ast.arguments(posonlyargs=[], args=[ast.arg(arg=p) for p in PARAMS], vararg=None, kwonlyargs=[],
                           kw_defaults=[], kwarg=None, defaults=[]),
        body=b.block(prog['body']), decorator_list=[], returns=None, type_params=[])
    mod = ast.Module(body=[fn], type_ignores=[])
    ast.fix_missing_locations(mod)
    return mod


def render(prog):
    return ast.unparse(build_function(prog)) + '\n'


# --------------------------------------------------------------------------- run time
class _RT:
    log = []
    dec = []
    trips = 1


def canon(v):
    if isinstance(v, Tok):
        return object.__getattribute__(v, 's')
    if isinstance(v, bool) or v is None:
        return repr(v)
    if isinstance(v, int):
        return str(v)
    if isinstance(v, str):
        return v
    if isinstance(v, tuple):
        return '(' + ','.join(canon(x) for x in v) + ')'
    if isinstance(v, list):
        return '[' + ','.join(canon(x) for x in v) + ']'
    if isinstance(v, (set, frozenset)):
        return '{|' + ';'.join(sorted(canon(x) for x in v)) + '|}'
    if isinstance(v, dict):
        return '{' + ','.join(canon(k) + '=' + canon(x) for k, x in v.items()) + '}'
    if isinstance(v, slice):
        return 'slice(%s:%s:%s)' % tuple('' if p is None else canon(p) for p in (v.start, v.stop, v.step))
    if callable(v):
        return 'lambda'
    return '?' + type(v).__name__


def _emit(lab):
    _RT.log.append(lab)
    return Tok(lab)


class Tok(object):
    """An opaque value; every operation logs the term it computes."""
    __slots__ = ('s',)

    def __init__(self, s):
        object.__setattr__(self, 's', s)

    def __repr__(self):
        return canon(self)

    def __getattr__(self, a):
        if a.startswith('__'):
            raise AttributeError(a)
        return _emit(canon(self) + '.' + a)

    def __setattr__(self, a, v):
        _RT.log.append('set ' + canon(self) + '.' + a + '=' + canon(v))

    def __delattr__(self, a):
        _RT.log.append('del ' + canon(self) + '.' + a)

    def __getitem__(self, k):
        return _emit(canon(self) + '[' + canon(k) + ']')

    def __setitem__(self, k, v):
        _RT.log.append('set ' + canon(self) + '[' + canon(k) + ']=' + canon(v))

    def __delitem__(self, k):
        _RT.log.append('del ' + canon(self) + '[' + canon(k) + ']')

    def __call__(self, *args, **kw):
        parts = [canon(x) for x in args] + [k + '=' + canon(x) for k, x in kw.items()]
        return _emit(canon(self) + '(' + ','.join(parts) + ')')

    def __add__(self, o):
        return _emit('(' + canon(self) + '+' + canon(o) + ')')

    def __radd__(self, o):
        return _emit('(' + canon(o) + '+' + canon(self) + ')')

    def __iadd__(self, o):
        return _emit('(' + canon(self) + '+=' + canon(o) + ')')

    def __neg__(self):
        return _emit('(-' + canon(self) + ')')

    def __lt__(self, o):
        return _emit('(' + canon(self) + '<' + canon(o) + ')')

    def __gt__(self, o):     # reflected form of  o < self
        return _emit('(' + canon(o) + '<' + canon(self) + ')')

    def __bool__(self):
        _RT.log.append('bool(' + canon(self) + ')')
        return _RT.dec.pop(0) if _RT.dec else False

    def __iter__(self):
        _RT.log.append('iter(' + canon(self) + ')')
        return iter([Tok(canon(self) + '#' + str(j)) for j in range(_RT.trips)])

    def __enter__(self):
        _RT.log.append('enter(' + canon(self) + ')')
        return Tok('in(' + canon(self) + ')')

    def __exit__(self, *exc):
        _RT.log.append('exit(' + canon(self) + ')')
        return False


def compile_function(src):
    """compile the source of `def f(...)`; SyntaxError propagates"""
    code = compile(src, '<c18>', 'exec')
    ns = dict(T=Tok('T'), F=Tok('F'))
    exec(code, ns)
    return ns['f']


def call(fn, dec, trips):
    """-> (status, ret, log, exception type name)"""
    _RT.log = []
    _RT.dec = list(dec)
    _RT.trips = trips
    try:
        r = fn(*[Tok(p) for p in PARAMS])
        return 'return', canon(r), _RT.log, ''
    except Exception as e:      # noqa - outcome of the program under test
        return 'raise', '', _RT.log, type(e).__name__


_SET = re.compile(r'\{\|((?:(?!\{\|)(?!\|\}).)*)\|\}')


def norm(label):
    """sets are unordered: sort the members of every printed set (innermost first)"""
    if '{|' not in label:
        return label
    while True:
        m = _SET.search(label)
        if not m:
            return label
        label = label[:m.start()] + '{!' + '&'.join(sorted(set(m.group(1).split(';')))) + '!}' + label[m.end():]


def norm_run(status, ret, log):
    return status, norm(ret), [norm(x) for x in log]


# --------------------------------------------------------------------------- python ast -> table
class _Abstracter:
    def __init__(self, source_names):
        self.nodes = []
        self.source_names = source_names

    def add(self, k, s='', c=(), t=(), b1=(), b2=(), b3=()):
        self.nodes.append(dict(k=k, s=s, c=list(c), t=list(t), b1=list(b1), b2=list(b2), b3=list(b3)))
        return len(self.nodes)

    def patch(self, i, **kw):
        self.nodes[i - 1].update({k: list(v) if isinstance(v, (list, tuple)) else v for k, v in kw.items()})

    def expr(self, e):
        if isinstance(e, ast.Name):
            tmp = re.fullmatch(r'tmp_\d+', e.id) is not None and e.id not in self.source_names
            return self.add('Name', e.id, t=['tmp'] if tmp else [])
        if isinstance(e, ast.Constant):
            if isinstance(e.value, bool) or not isinstance(e.value, (int, str)):
                raise Unabstractable('constant %r' % (e.value,))
            return self.add('Constant', str(e.value), t=['s'] if isinstance(e.value, str) else [])
        if isinstance(e, ast.Call):
            if (isinstance(e.func, ast.Name) and e.func.id == 'T' and len(e.args) == 1 and not e.keywords
                    and isinstance(e.args[0], ast.Constant) and type(e.args[0].value) is int):
                return self.add('T', str(e.args[0].value))
            i = self.add('Call')
            c, t = [self.expr(e.func)], ['']
            for a in e.args:
                if isinstance(a, ast.Starred):
                    c.append(self.expr(a.value)); t.append('*')
                else:
                    c.append(self.expr(a)); t.append('')
            for kw in e.keywords:
                c.append(self.expr(kw.value)); t.append('**' if kw.arg is None else kw.arg + '=')
            self.patch(i, c=c, t=t)
            return i
        if isinstance(e, ast.Attribute):
            i = self.add('Attribute', e.attr, t=[''])
            self.patch(i, c=[self.expr(e.value)])
            return i
        if isinstance(e, ast.Subscript):
            i = self.add('Subscript', t=['', ''])
            self.patch(i, c=[self.expr(e.value), self.expr(e.slice)])
            return i
        if isinstance(e, ast.Slice):
            i = self.add('Slice')
            c, t = [], []
            for role, part in (('l', e.lower), ('u', e.upper), ('s', e.step)):
                if part is not None:
                    c.append(self.expr(part)); t.append(role)
            self.patch(i, c=c, t=t)
            return i
        if isinstance(e, ast.BinOp) and isinstance(e.op, ast.Add):
            i = self.add('BinOp', '+', t=['', ''])
            self.patch(i, c=[self.expr(e.left), self.expr(e.right)])
            return i
        if isinstance(e, ast.UnaryOp) and isinstance(e.op, ast.USub):
            i = self.add('UnaryOp', '-', t=[''])
            self.patch(i, c=[self.expr(e.operand)])
            return i
        if isinstance(e, ast.Compare) and all(isinstance(o, ast.Lt) for o in e.ops):
            i = self.add('Compare', '<')
            c = [self.expr(e.left)] + [self.expr(x) for x in e.comparators]
            self.patch(i, c=c, t=[''] * len(c))
            return i
        if isinstance(e, (ast.Tuple, ast.List, ast.Set)):
            i = self.add(type(e).__name__)
            c, t = [], []
            for a in e.elts:
                if isinstance(a, ast.Starred):
                    c.append(self.expr(a.value)); t.append('*')
                else:
                    c.append(self.expr(a)); t.append('')
            self.patch(i, c=c, t=t)
            return i
        if isinstance(e, ast.Dict):
            if any(k is None for k in e.keys):
                raise Unabstractable('** in a dict display')
            i = self.add('Dict')
            c = []
            for k, v in zip(e.keys, e.values):
                c.append(self.expr(k)); c.append(self.expr(v))
            self.patch(i, c=c, t=[''] * len(c))
            return i
        if isinstance(e, ast.BoolOp) and len(e.values) == 2:
            i = self.add('BoolOp', 'and' if isinstance(e.op, ast.And) else 'or', t=['', ''])
            self.patch(i, c=[self.expr(x) for x in e.values])
            return i
        if isinstance(e, ast.IfExp):
            i = self.add('IfExp', t=['', '', ''])
            self.patch(i, c=[self.expr(e.test), self.expr(e.body), self.expr(e.orelse)])
            return i
        if isinstance(e, ast.Lambda) and not ast.dump(e.args).count('arg('):
            i = self.add('Lambda', t=[''])
            self.patch(i, c=[self.expr(e.body)])
            return i
        raise Unabstractable(type(e).__name__)

    def block(self, stmts):
        return [self.stmt(s) for s in stmts]

    def stmt(self, s):
        if isinstance(s, ast.Assign) and len(s.targets) == 1:
            i = self.add('Assign', t=['', ''])
            tg = self.expr(s.targets[0])
            self.patch(i, c=[tg, self.expr(s.value)])
            return i
        if isinstance(s, ast.AugAssign) and isinstance(s.op, ast.Add):
            i = self.add('AugAssign', '+', t=['', ''])
            tg = self.expr(s.target)
            self.patch(i, c=[tg, self.expr(s.value)])
            return i
        if isinstance(s, ast.Expr):
            i = self.add('Expr', t=[''])
            self.patch(i, c=[self.expr(s.value)])
            return i
        if isinstance(s, ast.Return):
            i = self.add('Return')
            if s.value is not None:
                self.patch(i, c=[self.expr(s.value)], t=[''])
            return i
        if isinstance(s, ast.Raise) and s.exc is not None and s.cause is None:
            i = self.add('Raise', t=[''])
            self.patch(i, c=[self.expr(s.exc)])
            return i
        if isinstance(s, ast.Delete):
            i = self.add('Delete')
            c = [self.expr(x) for x in s.targets]
            self.patch(i, c=c, t=[''] * len(c))
            return i
        if isinstance(s, ast.Pass):
            return self.add('Pass')
        if isinstance(s, ast.If):
            i = self.add('If', t=[''])
            self.patch(i, c=[self.expr(s.test)])
            self.patch(i, b1=self.block(s.body))
            self.patch(i, b2=self.block(s.orelse))
            return i
        if isinstance(s, ast.While) and not s.orelse:
            i = self.add('While', t=[''])
            self.patch(i, c=[self.expr(s.test)])
            self.patch(i, b1=self.block(s.body))
            return i
        if isinstance(s, ast.For) and not s.orelse:
            i = self.add('For', t=['', ''])
            tg = self.expr(s.target)
            self.patch(i, c=[tg, self.expr(s.iter)])
            self.patch(i, b1=self.block(s.body))
            return i
        if isinstance(s, ast.With):
            i = self.add('With')
            c, t = [], []
            for it in s.items:
                if it.optional_vars is not None and not isinstance(it.optional_vars, ast.Name):
                    raise Unabstractable('with target')
                c.append(self.expr(it.context_expr))
                t.append(it.optional_vars.id if it.optional_vars is not None else '')
            self.patch(i, c=c, t=t)
            self.patch(i, b1=self.block(s.body))
            return i
        if isinstance(s, ast.Try) and not s.orelse and len(s.handlers) <= 1:
            i = self.add('Try')
            self.patch(i, b1=self.block(s.body))
            if s.handlers:
                h = s.handlers[0]
                if h.name is not None or not (isinstance(h.type, ast.Name) and h.type.id == 'Exception'):
                    raise Unabstractable('handler')
                self.patch(i, b2=self.block(h.body))
            self.patch(i, b3=self.block(s.finalbody))
            return i
        raise Unabstractable(type(s).__name__)


def abstract(fn, source_names):
    """ast.FunctionDef (output of the transformer) -> node table"""
    a = _Abstracter(source_names)
    body = a.block(fn.body)
    return dict(n=a.nodes, body=body)


def names_of(prog):
    return {d['s'] for d in prog['n'] if d['k'] == 'Name'} | set(PARAMS)


# --------------------------------------------------------------------------- configurations
def build_config(rules, anf):
    """rule list of Anf.tla -> configuration for anf.transform (None = default configuration)"""
    if rules is None:
        return None

    def cls(name):
        if name == 'ANY':
            return anf.ANY
        if name == 'expr':
            return ast.expr
        if name == 'literal':
            return (ast.Constant, ast.Name)
        return getattr(ast, name)

    out = []
    for r in rules:
        pat = anf.ASTEdgePattern(cls(r['p']), anf.ANY if r['f'] == 'ANY' else r['f'], cls(r['c']))
        out.append((pat, anf.REPLACE if r['a'] == 'REPLACE' else anf.LEAVE))
    return out


# --------------------------------------------------------------------------- tree navigation (signatures)
def parent_map(prog):
    """child id -> (parent id, field role, operand position); parent 0 = the function body"""
    pm = {}
    for pos, i in enumerate(prog['body']):
        pm[i] = (0, 'body', pos)
    for i, d in enumerate(prog['n'], 1):
        for pos, c in enumerate(d['c']):
            pm[c] = (i, field_of(d, pos), pos)
        for f in ('b1', 'b2', 'b3'):
            for pos, c in enumerate(d[f]):
                pm[c] = (i, f, 100 * int(f[1]) + pos)
    return pm


def field_of(d, pos):
    k = d['k']
    if k in ('T',):
        return 'args'
    if k == 'Call':
        return 'func' if pos == 0 else ('args' if d['t'][pos] in ('', '*') else 'keywords')
    if k in ('Attribute',):
        return 'value'
    if k == 'Subscript':
        return 'value' if pos == 0 else 'slice'
    if k == 'Slice':
        return {'l': 'lower', 'u': 'upper', 's': 'step'}[d['t'][pos]]
    if k == 'BinOp':
        return 'left' if pos == 0 else 'right'
    if k == 'UnaryOp':
        return 'operand'
    if k == 'Compare':
        return 'left' if pos == 0 else 'comparators'
    if k in ('Tuple', 'List', 'Set'):
        return 'elts'
    if k == 'Dict':
        return 'keys' if pos % 2 == 0 else 'values'
    if k == 'BoolOp':
        return 'values'
    if k == 'IfExp':
        return ('test', 'body', 'orelse')[pos]
    if k in ('Lambda',):
        return 'body'
    if k == 'ListComp':
        return ('elt', 'iter')[pos]
    if k in ('Assign', 'AugAssign'):
        return 'target' if pos == 0 else 'value'
    if k in ('Expr', 'Return'):
        return 'value'
    if k == 'Raise':
        return 'exc'
    if k == 'Delete':
        return 'targets'
    if k in ('If', 'While'):
        return 'test'
    if k == 'For':
        return 'target' if pos == 0 else 'iter'
    if k == 'With':
        return 'items'
    return 'child'
