"""C10: pools of real function objects (shared code objects, distinct globals / closures / defaults,
redefinitions, collectable functions) and the registry that names real objects with the small integers
used by spec/ConvCache.tla (code ids, env ids, option ids).

Nothing here decides anything: the registry only *names* what it sees (identity of code objects and their
addresses, identity of globals, identity of closure cells and - separately - what the cells hold, values of
defaults) so that TLC can compare.  An environment is an identity: two closures over distinct cells are two
environments, whatever the cells hold (spec/ConvCache.tla: cellval); a code object is an identity as well, its
address (id()) is only an attribute that a later code object can inherit (spec/ConvCache.tla: addr).
"""
import os
import sys
import types
import weakref
import threading
import linecache

from . import common

# ---------------------------------------------------------------------------------------------
# sources.  {tag} makes every version of a function observably different; the body mixes a conditional,
# a loop, a global, a closure variable, a positional default and a keyword-only default.
# Every function mentions {tag}: CPython compares code objects by value *without* co_filename, so two
# textually identical functions at the same line of two files are EQUAL code objects and (correctly, by the
# WeakKeyDictionary semantics of the cache) share one entry.  The pools avoid equal-but-distinct code objects.
SRC = '''
class Counter(object):
    def __init__(self):
        self.n = 0

    def bump(self):
        t = {tag}
        self.n = self.n + 1


COUNTER = Counter()


def record(**kw):
    t = {tag}
    COUNTER.bump()


def helper(y):
    t = {tag}
    return y * 2 + G


def make(k, dv):
    def fn(x, d=dv, *, kw=dv):
        if x > k:
            r = x - k + G
        else:
            r = k - x + G + {loops}
        return ({tag}, r, k, G, d, kw)
    return fn


def plain(x, d=7):
    r = G - x
    if x > 0:
        r = x + G
    return ({tag}, r, d, helper(x))


def make_dir(slo):
    def looper(x):
        c0 = COUNTER.n
        n = 0
        while n < 3:
            slo(parallel_iterations=4)
            n = n + 1
        return ({tag}, n, x, slo is None, COUNTER.n - c0)
    return looper
'''

INPUTS = (-1, 0, 3)


class Sources:
    """Writes one source file per version into a scratch directory; compile() gives fresh code objects."""

    def __init__(self, root):
        self.root = root
        os.makedirs(root, exist_ok=True)
        self._files = {}

    def path(self, version):
        p = self._files.get(version)
        if p is None:
            p = os.path.join(self.root, 'c10src_v%d.py' % version)
            with open(p, 'w') as f:
                f.write(SRC.format(tag=1000 + version, loops=1 + version % 3))
            self._files[version] = p
        return p

    def compile(self, version):
        p = self.path(version)
        with open(p) as f:
            return compile(f.read(), p, 'exec')


_SOURCES = {}


def sources_for(root):
    """One Sources per directory and process (a source file is written once and never rewritten)."""
    s = _SOURCES.get(root)
    if s is None:
        s = _SOURCES[root] = Sources(root)
    return s


def new_globals(name, gval):
    return {'__name__': name, '__builtins__': __builtins__, 'G': gval}


# ---------------------------------------------------------------------------------------------
class Registry:
    """real object -> small integer.  Code objects are held weakly (they must be able to die)."""

    def __init__(self):
        self.expected_fail = set()   # code ids of pool functions whose conversion is meant to fail (no source)
        self._codes = {}       # id(code) -> (weakref, cid)
        self._next_code = 1
        self._addrs = {}       # id(code) -> small integer naming that address
        self.superseded = []   # code ids found dead when their address was taken over by a new code object
        self._vals = {}        # repr of the contents of a closure -> small integer
        self._cells = []       # the cells named in env keys stay alive (id stability)
        self._envs = {}        # env key -> eid
        self._next_env = 1
        self._opts = {}        # (recursive, user_requested, internal_convert_user_code, features) -> oid
        self._opt_objs = {}    # oid -> ConversionOptions
        self._keep = []        # globals dicts named in env keys stay alive (id stability)
        self._lock = threading.RLock()

    # -- code objects
    def code_id(self, code, create=True):
        with self._lock:
            return self._code_id(code, create)

    def _code_id(self, code, create):
        ent = self._codes.get(id(code))
        if ent is not None and ent[0]() is code:
            return ent[1]
        if not create or not isinstance(code, types.CodeType):
            return 0
        if ent is not None:
            self.superseded.append(ent[1])      # the previous tenant of this address is dead
        cid = self._next_code
        self._next_code += 1
        self._codes[id(code)] = (weakref.ref(code), cid)
        return cid

    def set_code(self, code, cid):
        self._codes[id(code)] = (weakref.ref(code), cid)
        self._next_code = max(self._next_code, cid + 1)

    def addr_id(self, code):
        """A small integer naming the address of a code object (equal addresses <=> equal names)."""
        with self._lock:
            a = self._addrs.get(id(code))
            if a is None:
                a = self._addrs[id(code)] = len(self._addrs) + 1
            return a

    def n_addrs(self):
        return len(self._addrs)

    def code_alive(self, cid):
        return any(ref() is not None for ref, c in self._codes.values() if c == cid)

    def n_codes(self):
        return self._next_code - 1

    # -- environments: (globals identity, identity of the cells of the requested code's free variables, defaults)
    @staticmethod
    def _cells_of(fn, freevars):
        cells = dict(zip(fn.__code__.co_freevars, fn.__closure__ or ()))
        return [(nm, cells.get(nm)) for nm in freevars]

    @classmethod
    def env_key(cls, fn, freevars):
        cells = tuple((nm, id(c) if c is not None else 0) for nm, c in cls._cells_of(fn, freevars))
        kwd = getattr(fn, '__kwdefaults__', None) or {}
        return (id(fn.__globals__), cells, repr(fn.__defaults__ or ()), repr(sorted(kwd.items())))

    @staticmethod
    def contents(fn, freevars=None):
        """What the cells of fn's free variables hold right now (a tuple of reprs)."""
        out = []
        for nm, c in Registry._cells_of(fn, fn.__code__.co_freevars if freevars is None else freevars):
            try:
                out.append(repr(c.cell_contents) if c is not None else '<missing>')
            except ValueError:
                out.append('<empty>')
        return tuple(out)

    def val_name(self, contents):
        """A small integer naming the contents of a closure (equal contents <=> equal names)."""
        key = tuple(contents)
        with self._lock:
            v = self._vals.get(key)
            if v is None:
                v = self._vals[key] = len(self._vals) + 1
            return v

    def val_id(self, fn):
        return self.val_name(self.contents(fn))

    def n_vals(self):
        return len(self._vals)

    def env_id(self, fn, create=True):
        key = self.env_key(fn, fn.__code__.co_freevars)
        with self._lock:
            return self._env_id(fn, key, create)

    def _env_id(self, fn, key, create):
        eid = self._envs.get(key)
        if eid is None and create:
            eid = self._next_env
            self._next_env += 1
            self._envs[key] = eid
            self._keep.append(fn.__globals__)
            self._cells.append(fn.__closure__)
        return eid or 0

    def set_env(self, fn, eid):
        key = self.env_key(fn, fn.__code__.co_freevars)
        old = self._envs.get(key)
        if old is not None and old != eid:
            raise common.MachineryError('C10 pool: two environment ids for one environment (%r)' % (key,))
        self._envs[key] = eid
        self._keep.append(fn.__globals__)
        self._cells.append(fn.__closure__)
        self._next_env = max(self._next_env, eid + 1)

    def env_of_result(self, result_fn, requested_fn):
        """Which registered environment is the *result* bound to (0 = none of them)?"""
        try:
            key = self.env_key(result_fn, requested_fn.__code__.co_freevars)
        except Exception:
            return 0
        return self._envs.get(key, 0)

    def n_envs(self):
        return self._next_env - 1

    # -- option values: identified by the four documented fields, read directly (not through as_tuple / __eq__ /
    # __hash__, which are part of what is under test)
    @staticmethod
    def opt_key(o):
        try:
            return (bool(o.recursive), bool(o.user_requested), bool(o.internal_convert_user_code),
                    tuple(sorted(str(f) for f in o.optional_features)))
        except Exception:  # noqa: BLE001 - not a ConversionOptions (e.g. a mutated get_caching_key returns a bool)
            return None

    def opt_id(self, subkey, create=True):
        key = self.opt_key(subkey)
        if key is None:
            return 0
        with self._lock:
            return self._opt_id(subkey, key, create)

    def _opt_id(self, subkey, key, create):
        oid = self._opts.get(key)
        if oid is None and create:
            oid = len(self._opts) + 1
            self._opts[key] = oid
            self._opt_objs[oid] = subkey
        return oid or 0

    def set_opt(self, opts, oid):
        self._opts[self.opt_key(opts)] = oid
        self._opt_objs[oid] = opts

    def opt(self, oid):
        return self._opt_objs[oid]

    def n_opts(self):
        return len(self._opts)


# ---------------------------------------------------------------------------------------------
def behaviour(fn, inputs=INPUTS, extra_args=()):
    """Observable behaviour of a function on a few inputs (values or exception classes)."""
    out = []
    for x in inputs:
        try:
            out.append(('ok', repr(fn(*(extra_args + (x,))))))
        except Exception as e:  # noqa: BLE001 - the exception class is the observation
            out.append(('exc', type(e).__name__))
    return out


def forget_factories(g):
    """The factories `make` / `make_dir` reference the code objects of the functions they create: unbind them
    (rebinding, not deleting: the size of the namespace never changes, see notes/C10.md on getfutureimports)."""
    g['make'] = None
    g['make_dir'] = None


NOSRC = 'def nosrc(x):\n    if x > 0:\n        return x + G\n    return G - x\n'


def clone_with_defaults(fn, defaults):
    g = types.FunctionType(fn.__code__, fn.__globals__, fn.__name__, defaults, fn.__closure__)
    g.__kwdefaults__ = fn.__kwdefaults__
    return g


def purge_generated_modules(before):
    """loader.load_source registers every generated module in sys.modules: forget the ones made since."""
    for name in [n for n in sys.modules if n.startswith('__autograph_generated_file') and n not in before]:
        sys.modules.pop(name, None)
    linecache.checkcache()


def generated_module_names():
    return {n for n in sys.modules if n.startswith('__autograph_generated_file')}
