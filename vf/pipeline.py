"""Observation of the real conversion pipeline: a snapshot of the tree at every pass boundary.

The repository's own sequencing (api.PyToPy.transform_ast) stays in charge; the `transform` attribute of each
converter module is wrapped for the duration of one conversion so that the tree leaving each pass is summarised.
"""
import ast
import contextlib

PASSES = ['functions', 'directives', 'break_statements', 'asserts', 'continue_statements', 'return_statements',
          'lists', 'slices', 'call_trees', 'control_flow', 'conditional_expressions', 'logical_expressions', 'variables']
CTX_TYPES = (ast.Name, ast.Attribute, ast.Subscript, ast.Starred, ast.List, ast.Tuple)


def _children(node):
    for name in node._fields:
        if name.startswith('___pyct'):
            continue
        v = getattr(node, name, None)
        if isinstance(v, ast.AST):
            yield name, v
        elif isinstance(v, (list, tuple)):
            for x in v:
                if isinstance(x, ast.AST):
                    yield name, x


def summarize(tree):
    """(ids of every node occurrence in a full traversal, [(actual ctx, required ctx)])."""
    ids, ctxs = [], []
    table = {}
    roots = tree if isinstance(tree, (list, tuple)) else [tree]

    def idof(n):
        k = id(n)
        if k not in table:
            table[k] = len(table) + 1
        return table[k]

    def visit(n, req, depth=0):
        if isinstance(n, (ast.Load, ast.Store, ast.Del, ast.operator, ast.unaryop, ast.cmpop, ast.boolop)):
            return      # context / operator singletons are shared by design
        ids.append(idof(n))
        if depth > 400:
            return
        if isinstance(n, CTX_TYPES):
            ctxs.append([type(getattr(n, 'ctx', None)).__name__, req])
        for field, c in _children(n):
            visit(c, required(n, field, req), depth + 1)

    for r in roots:
        visit(r, 'Load')
    return ids, ctxs


def required(parent, field, parent_req):
    """The context an expression must have, by the position it occupies (Python's grammar)."""
    if isinstance(parent, (ast.Assign,)) and field == 'targets':
        return 'Store'
    if isinstance(parent, (ast.AugAssign, ast.AnnAssign, ast.For, ast.AsyncFor, ast.comprehension, ast.NamedExpr)) and field == 'target':
        return 'Store'
    if isinstance(parent, ast.withitem) and field == 'optional_vars':
        return 'Store'
    if isinstance(parent, ast.Delete) and field == 'targets':
        return 'Del'
    if isinstance(parent, (ast.Tuple, ast.List)) and field == 'elts':
        return parent_req
    if isinstance(parent, ast.Starred) and field == 'value':
        return parent_req
    return 'Load'


@contextlib.contextmanager
def snapshots(sink):
    from malt.impl import api
    mods = {}
    for nm in PASSES:
        m = getattr(api, nm)
        mods[nm] = (m, m.transform)

        def make(nm, orig):
            def wrapped(node, ctx):
                out = orig(node, ctx)
                ids, ctxs = summarize(out)
                sink.append({'pass': nm, 'ids': ids, 'ctx': ctxs})
                return out
            return wrapped
        m.transform = make(nm, m.transform)
    try:
        yield
    finally:
        for nm, (m, orig) in mods.items():
            m.transform = orig


def shape(node):
    """Structural value of a tree: node types and _fields only (annotations and positions ignored)."""
    if isinstance(node, ast.AST):
        return (type(node).__name__,) + tuple((f, shape(getattr(node, f, None))) for f in node._fields
                                             if f not in ('type_comment', 'kind') and not f.startswith('___pyct'))
    if isinstance(node, (list, tuple)):
        return tuple(shape(x) for x in node)
    return repr(node)
