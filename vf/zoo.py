"""A zoo of functions with unusual literals and syntax for C17 (must convert; tree must stay a tree)."""
SOURCES = [
    "def z(a, b):\n    x = -1\n    y = - -a\n    if a:\n        x = -(-2) ** 2\n    return x, y, -0.5e-3, 1_000, 0x1f, 1j\n",
    "def z(a, b):\n    s = f'{a!r:>{b}} {f\"{a}\"} {{x}}'\n    if b:\n        s = f'{s}{a + 1:03d}'\n    return s\n",
    "def z(a, b):\n    d = {(1, 2): a}\n    m = [[1, 2], [3, 4]]\n    if a:\n        v = d[1, 2]\n    else:\n        v = m[0][1]\n    return v, m[0:1], m[::2], m[-1][-1]\n",
    "def z(a, b):\n    first, *rest = [a, b, 3]\n    t = (*rest, first)\n    u = [*t, *rest]\n    if a:\n        first, (p, *q) = b, t\n    return t, u, {**{'k': a}, 'j': b}\n",
    "def z(a, b):\n    if (n := a + 1) > 1:\n        b = n\n    while (m := b - 1) > 100:\n        b = m\n    return b, n\n",
    "def z(a, b):\n    r = 0 < a < b <= 10\n    if a == b != 3:\n        r = a is not b\n    if a in (1, 2) and b not in [3]:\n        r = not r\n    return r\n",
    "def z(a, b, c=lambda q: q + 1, *, d=(lambda: 2)):\n    if a:\n        return c(a) + d()\n    return (lambda w, v=3: w * v)(b)\n",
    "def z(a, b):\n    t = 'a' 'b' \"c\"\n    u = b'bytes\\x00'\n    v = r'raw\\n'\n    w = '''tri\nple'''\n    if a:\n        t = t + w\n    return t, u, v, ..., None, True\n",
    "def z(a, b):\n    out = []\n    for i, (j, k) in enumerate([(1, 2), (3, 4)]):\n        if i:\n            continue\n        out.append(j ** k // 2 % 3 @ 1 if False else j << 1 | k & 3 ^ 1)\n    return out, ~a, +b\n",
    "def z(a, b):\n    x = [i * 2 for i in range(a) if i % 2 if i > 0]\n    y = {k: v for k, v in zip('ab', x)}\n    w = {i for i in x}\n    g = sum(i for i in x)\n    if b:\n        x = [[j for j in range(i)] for i in x]\n    return x, y, w, g\n",
    "def z(a, b):\n    class K:\n        v = 1\n        def m(self, q):\n            if q:\n                return self.v + q\n            return 0\n    o = K()\n    o.v = a\n    o.v += 1\n    return o.m(b)\n",
    "def z(a, b):\n    assert a >= 0, 'neg'\n    x: int = a\n    y: 'str'\n    try:\n        x = x // b\n    except ZeroDivisionError:\n        x = -1\n    else:\n        x += 1\n    finally:\n        a = None\n    return x\n",
    "def z(a, b):\n    global GLOB\n    GLOB = a\n    def inner(q, /, r, *args, s=1, **kw):\n        nonlocal b\n        b = q + r + s + len(args) + len(kw)\n        return b\n    inner(1, 2, 3, s=4, t=5)\n    return b, GLOB\n",
    "def z(a, b):\n    import math as m\n    from os import path as p, sep\n    with open(p.devnull) as f1, open(p.devnull) as f2:\n        if a:\n            b = m.floor(b)\n    del f1, f2\n    return b, sep\n",
    "def z(a, b):\n    x = a if b else (b if a else 0)\n    y = (a or b) and (not a or b)\n    z = [a, b][a > b]\n    return x, y, z, (a, b)[0], 'fmt %s %d' % (a, b)\n",
    "def z(a, b):\n    i = 0\n    while True:\n        i += 1\n        if i > a:\n            break\n        if i % 2:\n            continue\n        b -= 1\n    return i, b\n",
    "def z(a, b):\n    l = []\n    l.append(a)\n    l[0] = b\n    l += [1]\n    x = l.pop()\n    return l, x, l[-1:], len(l)\n",
    "def z(a, b):\n    try:\n        if a:\n            raise ValueError('v')\n    except (ValueError, TypeError):\n        b = 1\n    except Exception:\n        raise\n    return b\n",
    "def z(a, b):\n    return {\n        'k': [a,\n              b],\n        'j': (a,),\n    }, (\n        a\n        + b\n    )\n",
    "def z(a, b):\n    print(a, b, sep='-', end='')\n    r = range(a)\n    return list(r), abs(-a), int('3'), float(b), len('ab'), sorted([b, a]), any([a]), all([b])\n",
]

# the same literal operand used by two generated expressions (chained comparisons, augmented assignments)
SOURCES.append('''def z(a, b):
    r = a < 0 < b
    if a <= 1 <= b > 0:
        r = 1 < a < 2.5 < b
    if 'k' == a == 'k':
        r = None is a is None
    return r, -1 < b < -1
''')
SOURCES.append('''def z(a, b):
    x = [1, 2]
    x[0] += 1
    a += 10
    b -= 10
    if a:
        x[1] *= 2
        a //= 3
    return x, a, b
''')
# doc strings: several paragraphs, also on a nested function and a class
SOURCES.append('''def z(a, b):
    """Summary line.

    Second paragraph after an empty line.


    Third, after two.
    """
    def inner(q):
        \'\'\'Inner doc.

        More inner doc.
        \'\'\'
        if q:
            return 1
        return 0
    class K:
        """Class doc.

        Paragraph."""
    s = \'\'\'text

with empty line\'\'\'
    if a:
        s = inner(b)
    return s, inner.__doc__, K.__doc__
''')
SOURCES.append('''def z(a, b):
    'one line doc'
    t = (a,

         b)
    while a > 0 < b:
        a -= 1
    return t, a
''')

# composite state variables whose key is itself composite or a negative literal (qualified names with
# subscripts: the generated state getter/setter must carry proper contexts and re-parse to the same tree)
SOURCES.append('''def z(a, b):
    class P:
        k = 'k'
    p = P()
    d = {'k': 0, 1: 0}
    perm = [1, 0]
    arr = [0, 0]
    if a:
        d[p.k] = b
        arr[perm[0]] = b
    j = 0
    while j < 2:
        arr[perm[j]] = arr[perm[j]] + a
        j += 1
    return d, arr
''')
SOURCES.append('''def z(a, b):
    stack = [0, 1]
    d = {-1.5: 0}
    if a:
        stack[-1] = b
        d[-1.5] = a
    for i in range(2):
        stack[-1] = stack[-1] + i
    return stack, d, stack[-1], stack[-2]
''')
