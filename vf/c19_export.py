"""C19: run the real malt type inference with a truthful Resolver and export its claims.

The resolver is built from the typing tables dumped by spec/TypeTablesDump.tla (head level: result head of
every (operator, operand heads)); it answers for literals, arguments of the analysed function, external names,
external calls, operators, subscripts/unpacking and list literals, and says None whenever the truthful answer
is "cannot know" (parameters of local functions, names of enclosing functions, elements of a `list`).

Types use the analysis' own vocabulary: Python type objects, and tuples of types for tuple shapes (this is
what StmtInferrer.visit_Tuple produces).
"""
import ast
import types
import typing

from . import c19_lang as L

PYT = {'int': int, 'float': float, 'bool': bool, 'str': str, 'list': list, 'tuple': tuple, 'none': type(None),
       'fn': types.FunctionType}
_BINOP = {ast.Add: '+', ast.Sub: '-', ast.Mult: '*'}
_CMPOP = {ast.Lt: '<', ast.Eq: '=='}
_UNOP = {ast.Not: 'not', ast.USub: 'neg'}


def tag_to_type(tag):
    """['int'] -> int ; ['tuple','int','float'] -> (int, float) ; ['list', ...] -> list"""
    if tag[0] == 'tuple':
        return tuple(PYT[t] for t in tag[1:])
    return PYT[tag[0]]


def head(t):
    """Head of an inferred type, or None when it is not one of the language's types (Any, Callable ...)."""
    if isinstance(t, tuple):
        return 'tuple'
    for k, v in PYT.items():
        if t is v:
            return k
    return None


def enc_type(t):
    """An inferred type -> claimed tag (list of strings) for TLC."""
    if t is typing.Any:
        return ['any']
    if isinstance(t, tuple):
        out = ['tuple']
        for x in t:
            h = head(x)
            out.append('any' if x is typing.Any else h if h in L.PRIMS + ['list', 'tuple', 'none'] else '?')
        return out
    h = head(t)
    if h is not None:
        return [h]
    if getattr(t, '__origin__', None) is not None and 'Callable' in repr(t):
        return ['fn']
    return ['?' + repr(t)[:40]]


class Tables:
    """Head-level typing tables as printed by TLC (TypeTablesDump.tla)."""

    def __init__(self, dump):
        self.bin = {(op, a, b): r for op, a, b, r in dump['bin']}
        self.cmp = {(op, a, b): r for op, a, b, r in dump['cmp']}
        self.un = {(op, a): r for op, a, r in dump['un']}
        self.iter = {a: r for a, r in dump['iter']}


def make_resolver(type_inference, tables, tree_params):
    ptypes = {nm: {tag_to_type(t) for t in ts} for nm, ts in tree_params}

    class Truthful(type_inference.Resolver):
        def res_value(self, ns, value):
            return {type(value)}

        def res_arg(self, ns, types_ns, f_name, name, type_anno, f_is_local):
            if f_is_local:
                return None                      # a local function may be called with anything
            return set(ptypes[str(name)])

        def res_name(self, ns, types_ns, name):
            nm = str(name)
            if nm in L.GVALS:
                return {tag_to_type(L.GVALS[nm])}, None
            if nm in L.EXTS:
                return {types.FunctionType}, None
            return None, None                    # not an external name: cannot know

        def res_call(self, ns, types_ns, node, f_type, args, keywords):
            f = node.func
            if isinstance(f, ast.Name) and f.id in L.EXTS:
                return {tag_to_type(t) for t in L.EXTS[f.id][0]}, None
            return None, None

        def res_binop(self, ns, types_ns, node, left, right):
            op = _BINOP[type(node.op)]
            out = set()
            for l in left:
                for r in right:
                    hl, hr = head(l), head(r)
                    if hl is None or hr is None:
                        return None
                    res = tables.bin[(op, hl, hr)]
                    if res == 'TypeError':
                        continue
                    out.add(PYT[res])         # sequences: the bare constructor (finite lattice)
            return out or None

        def res_compare(self, ns, types_ns, node, left, right):
            op = _CMPOP[type(node.ops[0])]
            out = set()
            for l in left:
                for r in right[0]:
                    hl, hr = head(l), head(r)
                    if hl is None or hr is None:
                        return None
                    res = tables.cmp[(op, hl, hr)]
                    if res != 'TypeError':
                        out.add(PYT[res])
            return out or None

        def res_unop(self, ns, types_ns, node, opnd):
            op = _UNOP[type(node.op)]
            out = set()
            for a in opnd:
                h = head(a)
                if h is None:
                    return None
                res = tables.un[(op, h)]
                if res != 'TypeError':
                    out.add(PYT[res])
            return out or None

        def res_slice(self, ns, types_ns, node_or_slice, value, slice_):
            if isinstance(node_or_slice, int):
                idx = node_or_slice
            else:
                sl = node_or_slice.slice
                idx = sl.value if isinstance(sl, ast.Constant) and isinstance(sl.value, int) else None
            out = set()
            for v in value:
                if isinstance(v, tuple) and idx is not None:
                    if idx < len(v):
                        out.add(v[idx])
                elif isinstance(v, tuple):
                    out.update(v)
                else:
                    return None                  # bare list / tuple / str / anything else: element type unknown
            return out or None

        def res_list_literal(self, ns, elt_types):
            return {list}

    return Truthful()


# ------------------------------------------------------------------------------------------------
# parallel walk: expression-occurrence ids of the tables <-> AST nodes of the rendered source
# ------------------------------------------------------------------------------------------------
def attach(p, fdef):
    m, fmap = {}, {}

    def ex(e, node):
        x = p['exprs'][e - 1]
        k = x['kind']
        m[e] = node
        want = {'lit': ast.Constant, 'name': ast.Name, 'bin': ast.BinOp, 'cmp': ast.Compare, 'un': ast.UnaryOp,
                'list': ast.List, 'tuple': ast.Tuple, 'sub': ast.Subscript, 'ext': ast.Call, 'lcall': ast.Call,
                'store': ast.Name, 'stuple': ast.Tuple, 'param': ast.arg}[k]
        if not isinstance(node, want):
            raise ValueError('shape mismatch at expr %d: %s vs %s' % (e, k, type(node).__name__))
        if k == 'bin':
            ex(x['args'][0], node.left)
            ex(x['args'][1], node.right)
        elif k == 'cmp':
            ex(x['args'][0], node.left)
            ex(x['args'][1], node.comparators[0])
        elif k == 'un':
            ex(x['args'][0], node.operand)
        elif k in ('list', 'tuple', 'stuple'):
            for a, n in zip(x['args'], node.elts, strict=True):
                ex(a, n)
        elif k == 'sub':
            ex(x['args'][0], node.value)
        elif k == 'ext':
            for a, n in zip(x['args'], node.args, strict=True):
                ex(a, n)
        elif k == 'lcall':
            ex(x['args'][0], node.func)
            for a, n in zip(x['args'][1:], node.args, strict=True):
                ex(a, n)

    def block(ids, stmts):
        stmts = [s for s in stmts if not isinstance(s, ast.Nonlocal)]
        for n, s in zip(ids, stmts, strict=True):
            d = p['nodes'][n - 1]
            k = d['kind']
            if k == 'assign':
                ex(d['e'], s.value)
                for t, n2 in zip(d['tgts'], s.targets, strict=True):
                    ex(t, n2)
            elif k == 'aug':
                ex(d['e'], s.value)
                ex(d['tgt'], s.target)
            elif k in ('expr', 'return'):
                ex(d['e'], s.value)
            elif k == 'if':
                ex(d['e'], s.test)
                block(d['body'], s.body)
                block(d['orelse'], s.orelse)
            elif k == 'while':
                ex(d['e'], s.test)
                block(d['body'], s.body)
            elif k == 'for':
                ex(d['e'], s.iter)
                ex(d['tgt'], s.target)
                block(d['body'], s.body)
            elif k == 'def':
                fn(d['f'], s)

    def fn(fid, node):
        fmap[fid] = node
        f = p['fns'][fid - 1]
        for a, n in zip(f['params'], node.args.args, strict=True):
            ex(a, n)
        block(f['body'], node.body)

    fn(1, fdef)
    return m, fmap


class NodeOrder:
    """Pins the iteration order of sets of CFG nodes.

    cfg.Node objects hash by address, so the order in which GraphVisitor walks the successors of a branch - and
    with it which annotations an early, incomplete visit leaves behind - varies from run to run.  Every order is
    a legal behaviour of the real code; the harness fixes two of them (hash = creation number, ascending or
    descending) so that a run is reproducible, and checks the claims of both.
    """
    installed = None

    def __init__(self, cfg):
        self.seq = 0
        self.mode = 0
        order = self
        orig = cfg.Node.__init__

        def init(node, *a, **k):
            order.seq += 1
            node._c19_seq = order.seq
            orig(node, *a, **k)

        def nhash(node):
            return node._c19_seq if order.mode == 0 else 1000000 - node._c19_seq
        cfg.Node.__init__ = init
        cfg.Node.__hash__ = nhash

    @classmethod
    def get(cls, cfg):
        if cls.installed is None or cls.installed[0] is not cfg:
            cls.installed = (cfg, cls(cfg))
        return cls.installed[1]

    def start(self, mode):
        self.seq = 0
        self.mode = mode


def export_claims(malt_mods, tables, tree, p, src, order=0):
    """Run cfg.build, qual_names, activity, reaching_definitions, reaching_fndefs, type_inference on `src`
    and return the claims record of program p: types per expression occurrence, closure types per function."""
    (cfg, qual_names, anno, transformer, naming, activity, reaching_definitions, reaching_fndefs,
     type_inference) = malt_mods
    NodeOrder.get(cfg).start(order)
    node = ast.parse(src).body[0]
    info = transformer.EntityInfo(name='f', source_code=src, source_file=None, future_features=(), namespace={})
    ctx = transformer.Context(info, naming.Namer({}), None)
    node = qual_names.resolve(node)
    node = activity.resolve(node, ctx, None)
    graphs = cfg.build(node)
    node = reaching_definitions.resolve(node, ctx, graphs)
    node = reaching_fndefs.resolve(node, ctx, graphs)
    node = type_inference.resolve(node, ctx, graphs, make_resolver(type_inference, tables, tree['params']))
    m, fmap = attach(p, node)
    tys = []
    for e in range(1, len(p['exprs']) + 1):
        t = anno.getanno(m[e], anno.Static.TYPES, None)
        if t is None:
            tys.append(dict(has=0, ts=[]))
        else:
            tys.append(dict(has=1, ts=sorted(enc_type(x) for x in t)))
    clo = []
    for f in range(1, len(p['fns']) + 1):
        ct = anno.getanno(fmap[f], anno.Static.CLOSURE_TYPES, None) or {}
        clo.append([dict(name=str(k), ts=sorted(enc_type(x) for x in v)) for k, v in sorted(ct.items(), key=lambda kv: str(kv[0]))])
    return dict(types=tys, closure=clo)


def malt_modules():
    from malt.pyct import cfg, qual_names, anno, transformer, naming
    from malt.pyct.static_analysis import activity, reaching_definitions, reaching_fndefs, type_inference
    return (cfg, qual_names, anno, transformer, naming, activity, reaching_definitions, reaching_fndefs,
            type_inference)
