"""C10, spec -> code: deterministic replay of TLC-generated interleavings (spec/SchedConvCache.tla).

A schedule is the history of one behaviour of ConvCache: a list of [a: action, t: thread, x: args, s: abstract
state after the step].  The worker threads run the real PyToPy.transform on a fresh traced transpiler; every
proxy operation is a yield point (vf/c10_probe.py) and the controller releases exactly one worker for exactly
one action, in schedule order.  After every action the abstract state of the implementation

    cache keys present (code, options, factory)   - read from the real WeakKeyDictionary
    lock owner / re-entrancy depth                - read from the real RLock
    successful transform_ast calls per key        - counted by the transform_ast override
    results returned so far (code, env, options, factory, env the result is bound to - the identity of the cells)
    live function objects
    contents of the closure cells of every environment
    addresses of the live code objects (up to renaming: equal in the specification <=> equal id() here)

is compared with the state TLC printed.  Environment actions (Redefine, Collect, Rebind) are performed by the
controller itself on the pool: function objects of one environment share their cells (Rebind assigns to them),
a redefinition's code object is placed where the specification says - at a new address or at the address of a
dead code object (the allocator is asked until it hands that block out again; a schedule for which it does not
is counted as unrealised, never as a difference).  At the end every returned function is compared with a fresh
conversion.
"""
import gc
import os
import sys
import tempfile
import threading
import types

from . import common
from . import c10_pool as poolmod
from . import c10_probe as probemod

# env id -> (globals index, default value dv); every environment has cells of its own, what they hold comes from
# the specification (cellval).  Three layouts so that the pair (1, 2), which shares a code object in the model's
# initial state, differs in globals and cells / in the cells only / in defaults and cells
LAYOUTS = [
    {1: (0, 10), 2: (1, 10), 3: (0, 10), 4: (0, 20), 5: (1, 20), 6: (1, 30)},
    {1: (0, 10), 2: (0, 10), 3: (1, 10), 4: (0, 20), 5: (1, 20), 6: (1, 30)},
    {1: (0, 10), 2: (0, 20), 3: (1, 10), 4: (0, 10), 5: (1, 20), 6: (1, 30)},
]


class Unrealised(Exception):
    """The allocator did not place a code object where the schedule wants it."""


def options_for(oid, layout=0):
    """Option value `oid` of the model.  The two values used by the schedules (1, 2) differ in exactly one field;
    which one depends on the layout: optional_features / internal_convert_user_code / user_requested / recursive."""
    from malt.core import converter as conv
    F = conv.Feature
    base = conv.ConversionOptions(recursive=True, user_requested=True, optional_features=None)
    second = [
        conv.ConversionOptions(recursive=True, user_requested=True, optional_features=F.EQUALITY_OPERATORS),
        conv.ConversionOptions(recursive=True, user_requested=True, internal_convert_user_code=False, optional_features=None),
        conv.ConversionOptions(recursive=True, user_requested=False, optional_features=None),
        conv.ConversionOptions(recursive=False, user_requested=True, optional_features=None),
    ][layout % 4]
    table = {
        1: base,
        2: second,
        3: conv.ConversionOptions(recursive=False, user_requested=False, optional_features=None),
        4: conv.ConversionOptions(recursive=True, user_requested=True, optional_features=(F.EQUALITY_OPERATORS, F.LISTS)),
    }
    return table[oid]


class ReplayPool:
    """Real function objects for the specification's [code, env] records."""

    def __init__(self, sources, reg, layout, base_version):
        self.sources = sources
        self.reg = reg
        self.layout = LAYOUTS[layout % len(LAYOUTS)]
        self.base = base_version
        self.globs = [poolmod.new_globals('c10replay_g0', 100), poolmod.new_globals('c10replay_g1', 200)]
        self.fns = {}
        self.cells = {}         # env -> (cell,): the function objects of one environment share them
        self.codes = {}         # code id -> the live code object
        self.templates = {}     # code id -> its compiled code object (the template: never a key of the cache)
        self.real_addr = {}     # address in the specification -> id() here
        self.reused = 0

    def precompile(self, codes):
        """All compilations happen before the first code object dies (a compilation allocates code objects of its own,
        which would take the block of a dead one)."""
        for c in codes:
            ns = poolmod.new_globals('c10replay_t%d' % c, 0)
            exec(self.sources.compile(self.base + c), ns)
            self.templates[c] = ns['make'](0, 0).__code__

    def set_cells(self, pairs):
        for e, v in pairs:
            if e not in self.cells:
                self.cells[e] = (types.CellType(v),)
            else:
                self.cells[e][0].cell_contents = v

    def _new_code(self, c, a):
        """A new code object for code id c at the specification's address a: what executing the def gives is a new
        code object - here a copy of the compiled template, so that exactly one block of the allocator is involved."""
        tcode = self.templates[c]
        want = self.real_addr.get(a)
        taken = set(self.real_addr.values())
        parked = []
        while True:
            code = tcode.replace(co_name=tcode.co_name)
            if (id(code) == want) if want is not None else (id(code) not in taken):
                break
            parked.append(code)
            if len(parked) > 1000:
                raise Unrealised('no code object at the address of the dead one after %d allocations' % len(parked))
        if want is not None:
            self.reused += 1
        self.real_addr[a] = id(code)
        self.codes[c] = code
        self.reg.set_code(code, c)
        return code

    def define(self, pairs, addr):
        """Creates the function objects for [(code, env)]; addr: code id -> address in the specification."""
        for c, e in pairs:
            code = self.codes.get(c)
            if code is None:
                code = self._new_code(c, addr[c])
            gi, dv = self.layout[e]
            fn = types.FunctionType(code, self.globs[gi], 'fn', (dv,), self.cells[e])
            fn.__kwdefaults__ = {'kw': dv}
            self.reg.set_env(fn, e)
            self.fns[(c, e)] = fn
            del fn, code

    def fn(self, c, e):
        return self.fns[(c, e)]

    def collect(self, c):
        for key in [k for k in self.fns if k[0] == c]:
            del self.fns[key]
        self.codes.pop(c, None)
        gc.collect()
        if self.reg.code_alive(c):
            raise common.MachineryError('C10 replay: code object %d is still alive after the pool dropped it' % c)

    def keys(self):
        return sorted(self.fns)

    def abs_cells(self):
        return sorted((e, cs[0].cell_contents) for e, cs in self.cells.items())

    def abs_addr(self):
        back = {r: a for a, r in self.real_addr.items()}
        return sorted((c, back.get(id(code), 0)) for c, code in self.codes.items())


def _norm_spec_state(s):
    return dict(cache=sorted((c, o, tuple(f)) for c, o, f in s['cache']),
                owner=s['owner'], depth=s['depth'],
                ntr=sorted(tuple(x) for x in s['ntr']),
                ret=sorted((c, e, o, tuple(f), r) for c, e, o, f, r in s['ret']),
                fns=sorted(tuple(x) for x in s['fns']),
                cells=sorted(tuple(x) for x in s['cells']), addr=sorted(tuple(x) for x in s['addr']))


def replay_schedule(job):
    """job: dict(id, hist, init_fns, layout, scratch).  Returns dict(id, ok, steps, divergence, diffs)."""
    from malt.core import converter as conv
    from malt.impl import api

    hist = job['hist']
    root = os.path.join(job['scratch'], 'p%d' % os.getpid())
    os.makedirs(os.path.join(root, 'tmp'), exist_ok=True)
    old_tmp = tempfile.tempdir
    tempfile.tempdir = os.path.join(root, 'tmp')
    mods_before = poolmod.generated_module_names()
    reg = poolmod.Registry()
    for oid in (1, 2, 3, 4):
        reg.set_opt(options_for(oid, job.get('layout', 0)), oid)
    probe = probemod.Probe(reg)
    T = probemod.traced_transpiler(probe)
    sources = poolmod.sources_for(os.path.join(root, 'src'))
    pool = ReplayPool(sources, reg, job.get('layout', 0), 5000)
    if not hist or hist[0]['a'] != 'Init':
        raise common.MachineryError('C10 replay: a schedule starts with the record of the initial state')
    pool.precompile(sorted({x[0] for h in hist for x in h['s']['fns']}))
    pool.set_cells([tuple(x) for x in hist[0]['s']['cells']])
    pool.define([tuple(p) for p in job['init_fns']], dict(tuple(x) for x in hist[0]['s']['addr']))
    for p in job['init_fns']:
        probe.known_fns.add(tuple(p))
    tids = sorted({h['t'] for h in hist if h['t'] != 0})
    ctl = probemod.Controller(tids, timeout=job.get('timeout', 20.0))
    probe.ctl = ctl
    probe.resolve_nested = lambda c, e, o: (pool.fn(c, e), reg.opt(o))
    checks = []          # (cid, eid, oid, fn, g) awaiting the comparison with a fresh conversion
    unexpected = []

    def worker(tid):
        probe.register_thread(tid)
        try:
            while True:
                item = probe.sync(('Start', 'Exit'))
                if item is None or item['a'] == 'Exit':
                    return
                c, e, o = item['x']
                fn = pool.fn(c, e)
                try:
                    g = T.transform(fn, conv.ProgramContext(options=reg.opt(o)))[0]
                    checks.append((c, e, o, fn, g))
                    del g
                except probemod.InjectedFault:
                    pass
                except probemod.Diverged as d:
                    unexpected.append(('diverged', str(d)))
                except Exception as ex:  # noqa: BLE001
                    unexpected.append((type(ex).__name__, repr(ex)))
                del fn
                probe.tls.last = None
                probe.park_deferred()
        finally:
            ctl.worker_finished(tid)

    threads = {t: threading.Thread(target=worker, args=(t,), daemon=True) for t in tids}
    for th in threads.values():
        th.start()

    diffs = []

    def compare_results(only_code=None):
        keep = []
        for (c, e, o, fn, g) in checks:
            if only_code is not None and c != only_code:
                keep.append((c, e, o, fn, g))
                continue
            ref = api.PyToPy().transform(fn, conv.ProgramContext(options=reg.opt(o)))[0]
            b_ref, b_org, b_g = poolmod.behaviour(ref), poolmod.behaviour(fn), poolmod.behaviour(g)
            if b_ref != b_org:
                raise common.MachineryError('C10 replay pool: fresh conversion and original disagree')
            if b_g != b_ref:
                diffs.append(dict(signature='c10:fresh-diff:value:replay',
                                  what='the function returned for a request behaves differently from a fresh conversion of that function object',
                                  witness=dict(code=c, env=e, options=o, returned=b_g, fresh=b_ref)))
        checks[:] = keep

    def impl_state():
        owner, depth = probe.abs_lock()
        return dict(cache=sorted(probe.abs_cache()), owner=owner, depth=depth,
                    ntr=sorted((c, o, n) for (c, o), n in probe.ntr.items() if n),
                    ret=sorted(probe.returned), fns=pool.keys(), cells=pool.abs_cells(), addr=pool.abs_addr())

    divergence = None
    unrealised = None
    steps = 0
    try:
        for i, h in enumerate(hist):
            a, t = h['a'], h['t']
            if a == 'Init':
                pass
            elif a == 'Redefine':
                c, e, newc = h['x']
                try:
                    pool.define([(newc, e)], dict(tuple(x) for x in h['s']['addr']))
                except Unrealised as u:
                    unrealised = str(u)
                    break
                probe.known_fns.add((newc, e))
            elif a == 'Rebind':
                pool.set_cells([(h['x'][0], h['x'][1])])
            elif a == 'Collect':
                compare_results(only_code=h['x'][0])
                pool.collect(h['x'][0])
            else:
                try:
                    ctl.step(t, a, h)
                except probemod.Diverged as d:
                    kind = 'blocked' if 'did not' in str(d) else 'order'
                    w = ctl.w[t]
                    divergence = dict(step=i, action=a, thread=t, kind=kind, detail=str(d),
                                      offered=list(w['labels']), exceptions=list(unexpected))
                    break
            steps += 1
            got, want = impl_state(), _norm_spec_state(h['s'])
            if got != want:
                bad = sorted(k for k in want if got[k] != want[k])
                divergence = dict(step=i, action=a, thread=t, kind='state', fields=bad,
                                  detail='after %s of thread %d the implementation state differs from the specification in %s' % (
                                      a, t, ', '.join(bad)),
                                  impl={k: got[k] for k in bad}, spec={k: want[k] for k in bad},
                                  exceptions=list(unexpected))
                break
        if divergence is None and unrealised is None:
            for t in tids:
                try:
                    ctl.step(t, 'Exit', dict(a='Exit', t=t, x=[0, 0, 0]))
                except probemod.Diverged as d:
                    if ctl.w[t]['state'] != 'finished':
                        divergence = dict(step=len(hist), action='Exit', thread=t, kind='order', detail=str(d),
                                          offered=list(ctl.w[t]['labels']), exceptions=list(unexpected))
                        break
    finally:
        ctl.abort()
        probe.ctl = None
        for th in threads.values():
            th.join(30)
        hung = [t for t, th in threads.items() if th.is_alive()]
    if unrealised is not None:
        unexpected, hung = [], []
    if divergence is None and unexpected:
        divergence = dict(step=len(hist), action='-', thread=0, kind='exception', detail=repr(unexpected[0]),
                          exceptions=list(unexpected))
    if divergence is None and hung:
        divergence = dict(step=len(hist), action='-', thread=hung[0], kind='blocked', detail='worker threads did not finish')
    if divergence is None:
        compare_results()
    checks[:] = []
    poolmod.purge_generated_modules(mods_before)
    common.rmtree(os.path.join(root, 'tmp'))
    tempfile.tempdir = old_tmp
    return dict(id=job['id'], ok=divergence is None and not diffs, steps=steps, divergence=divergence, diffs=diffs,
                requests=len(probe.returned), unrealised=unrealised, reused=pool.reused)


def signature(div):
    """A stable name for a divergence class."""
    k = div['kind']
    if k == 'state':
        return 'c10:replay:state:%s:after-%s' % ('+'.join(div['fields']), div['action'])
    if k == 'order':
        return 'c10:replay:order:expected-%s:offered-%s' % (div['action'], '+'.join(div.get('offered') or ['none']))
    if k == 'exception':
        return 'c10:replay:exception'
    return 'c10:replay:blocked:%s' % div['action']


def replay_safe(job):
    try:
        return replay_schedule(job)
    except common.MachineryError as e:
        return dict(id=job['id'], machinery=str(e))
    except Exception as e:  # noqa: BLE001
        import traceback
        return dict(id=job['id'], machinery='replay crashed: %r\n%s' % (e, traceback.format_exc()))
