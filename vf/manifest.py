"""Regenerates /verif/MANIFEST.json from the table below:  /venv/bin/python -m vf.manifest"""
import os
import json

from . import common

BASELINE_OFF = ('cd /repo && env -u DIASTATIC_MALT_VERIF /venv/bin/python -m pytest -ra -q -p no:cacheprovider '
                '--timeout=900 --continue-on-collection-errors')

MC = 'model_checking'

# id -> dict(text, note, technique, design_ref, engine)
CHECKS = {
    'C20': dict(
        text='Exhaustive: spec/Options.tla enumerates the complete space (8 flag combinations x 128 feature subsets x '
             'every spelling = 4160 written arguments, 1024 values); TLC checks round-trip/call-options/uses laws on the '
             'model and prints the expected observations; every enumerated state is replayed into the real '
             'ConversionOptions class (embedding text evaluated with the real ag__ module), all value pairs are compared '
             'for ==/hash, and 128 real conversions check that the embedded options reach the generated function scopes.',
        note='Trusts CPython eval of the embedded text and TLC; the TLA+ Evaluate operator models tuple/parenthesis '
             'semantics of Python for the three shapes the code can emit.',
        technique='TLA+ input-space model (Options.tla), TLC exhaustive enumeration, every state replayed into the implementation',
        design_ref='DESIGN.md section 5 (C20), 3.5',
        engine='tlc-options'),
}

CHECKS['C05'] = dict(
    text='spec/MiniPy.tla gives the operational semantics of the converted Python subset (one TLC step = one CFG-granularity '
         'node); spec/CfgSound.tla monitors it against the graph exported from the real cfg.build. TLC explores ALL executions '
         '(all branch-decision vectors, loop trips 0..2) of the control-flow skeletons that spec/MiniPyGen.tla derives (thorough: '
         'every skeleton of <=4 statements and family enumerations up to 7; quick: a seeded sample of them) plus seeded random '
         'programs (general, exception-, lambda- and closure-focused), and '
         'checks every executed transfer to be an edge, termination at exit/raise nodes, mirror links, single entry and the '
         'per-statement entry/exit sets against lexical ownership. Every explored execution is also replayed on CPython '
         '(model validation) in the same run.',
    note='Assumes the rendered program (one statement per line) identifies CFG nodes by line; nonlocal/global declaration nodes '
         'are contracted; exempt as the property states: steps while an exception propagates through finally, transfers caused '
         'by implicit or callee-raised exceptions. Bounded: MaxTrip=2, <=10/12 decisions, <=60/80 steps per execution.',
    technique='TLA+ operational semantics + monitor invariant, TLC over all executions, claims exported from the real cfg.build',
    design_ref='DESIGN.md sections 3.1-3.3, 5 (C05)', engine='tlc-minipy')

_MP_NOTE = ('Claims are exported by running the real analyses exactly as control_flow.transform does (cfg.build, qual_names, '
            'activity, reaching_definitions, reaching_fndefs, liveness) on the rendered program; analyzer objects are only '
            'observed (visit_forward/visit_reverse wrapped). Outside the class, never judged: everything after an implicit '
            'exception or an exception crossing an activation boundary, steps while an exception propagates through finally. '
            'Bounded: loop trips <=2, <=10/12 decisions, <=60/80 steps per execution; names are simple identifiers.')
_MP_TEXT = ('TLC explores ALL executions (every branch-decision vector, loop trips 0..2) of the control-flow skeletons derived by '
            'spec/MiniPyGen.tla (thorough: every skeleton of <=4 statements, production families up to 7 statements, nested '
            'functions; quick: a seeded sample) and of seeded random programs (general, exception-, lambda- and closure-focused; '
            'lambdas called in place or stored, comprehensions, default values, decorators), under the operational semantics '
            'spec/MiniPy.tla, which is validated against CPython on every explored execution in the same run. A monitor keeps '
            'the first four distinct reports of an execution, so a known finding never hides another violation. ')
CHECKS['C06'] = dict(
    text=_MP_TEXT + 'spec/ReachDef.tla carries a last-writer monitor: at every read the binding that produced the value must be '
         'among the DEFINITIONS the real analysis attached to that name occurrence, at every entry of if/for/while/try the '
         'bound locals must be in DEFINED_VARS_IN, and the exported in/out/gen/kill tables must satisfy the transfer equations.',
    note=_MP_NOTE, technique='TLA+ operational semantics + last-writer monitor, TLC over all executions, claims from the real analysis',
    design_ref='DESIGN.md sections 3.3, 5 (C06)', engine='tlc-minipy')
CHECKS['C07'] = dict(
    text=_MP_TEXT + 'spec/Liveness.tla remembers per variable the most recent statement (node in/out, statement LIVE_VARS_IN/OUT) '
         'that failed to report it live since its last write; a later read (also by a called closure) of that value is a '
         'violation. Zero-trip loops, closures and nonlocal writes are ordinary behaviours. The exported in/out sets must solve '
         'the liveness equations including the closure term.',
    note=_MP_NOTE, technique='TLA+ operational semantics + awaiting-read monitor, TLC over all executions, claims from the real analysis',
    design_ref='DESIGN.md sections 3.3, 5 (C07)', engine='tlc-minipy')
CHECKS['C08'] = dict(
    text='Static clause: spec/Scoping.tla enumerates every chain of up to three nested scopes (function, lambda, class, '
         'comprehension) with every menu of occurrences of a name (parameter, assignment kinds, import, def, del, use, global and '
         'nonlocal declarations), decides legality and classifies the name per function by the language-reference rules; every '
         'state is rendered to source and compared three ways: specification = symtable.symtable (model validation, exit 2) = '
         'bound/globals/nonlocals/params/free sets of the real activity analysis. Dynamic clause: ' + _MP_TEXT +
         'spec/Activity.tla checks: the cells read / rebound / unbound by each executed node are within '
         'the read / modified / deleted sets of the scope the real activity analysis attached to that node.',
    note=_MP_NOTE + ' Static clause: one name over chains of <=3 nested scopes and a fixed menu of occurrence sets (16k chains, '
         'exhaustive for the menu); for the free-variable class the comparison is two-sided: a CPython closure variable must be '
         'reported, and a name may additionally be reported as needed-from-outside only if the function subtree refers to it as '
         'a module global; comprehension targets and except names are excepted as the property states.',
    technique='TLA+ input-space model of Python scoping (validated against symtable) compared with activity; TLA+ semantics + per-step read/write monitor over all executions',
    design_ref='DESIGN.md sections 3.3, 5 (C08)', engine='tlc-minipy')

CHECKS['C01'] = dict(
    text=_MP_TEXT + 'For every execution TLC prints the predicted observation (return value, ordered effect log of tracer calls and '
         'context-manager enter/exit, escaping exception type, log length at the raise); each is replayed with the same decision '
         'vector into the function converted by the real malt (to_graph and the convert decorator, plus the LISTS feature for programs with list state; thorough: three option sets on every program, two more on every fourth '
         'incl. recursive=False and BUILTIN_FUNCTIONS/EQUALITY_OPERATORS) and must agree. The exploration runs under the '
         'Liveness monitor so that a divergence is attributed by the specification to an analysis defect already listed as a '
         'known finding, or reported.',
    note=_MP_NOTE + ' Language covered: assignments (plain, augmented, tuple), expression statements, del, if/else, while, for '
         'over tracer lists (also lists of pairs with a tuple target) and range, break/continue/return, try/except(as)/finally with explicit raise, with, nested defs with '
         'closures/nonlocal, default values and decorators, calls of local and of module-level functions (recursive conversion or '
         'unconverted callee), lambdas (called in place / stored), comprehensions, and/or/not, conditional expressions, loop '
         'directives, attribute state, list state (also under the LISTS feature), module-level variables (global declarations; their '
         'final values are observed), the integer profile on all inputs. Not generated: builtins, methods of user classes, partials, subscripts other than list[int], generators. '
         'Executions in which a callee-raised exception is caught by the caller, or a finally block raises while an exception '
         'propagates, are outside the class (flag oc) and skipped; when a finally block ran during propagation only "an '
         'exception escapes" and the effects up to the raise are compared (flag finx). Every converted run is under a 5 s alarm.',
    technique='TLA+ operational semantics as oracle, TLC enumerates all executions, each replayed into the converted function',
    design_ref='DESIGN.md sections 3.1, 4, 5 (C01)', engine='tlc-minipy')

CHECKS['C03'] = dict(
    text='spec/OpContract.tla models the operator calling contract as a store of the calling frame with actions Eval (symbol '
         'names evaluated in the frame), Get (get_state) and Set (set_state). During the replay of every MiniPy execution into '
         'the converted function, every dynamic if_stmt/while_stmt/for_stmt invocation is intercepted and an 11-step probe '
         'sequence is performed on the LIVE frame (read, write back, write sentinels, read, restore); TLC validates every '
         'recorded probe trace against the contract (total verdict naming the violated law) together with the static clauses '
         '(tuple lengths, callback arities, nouts bounds, iterate_names).',
    note='Probes run before the real operator and restore the state they found; traces are de-duplicated by content. The '
         'directive clause compares the opts of every loop invocation with the set_loop_options directive the program places in '
         'that loop (identified by the first tracer of its test / iterable). The "outputs first" clause is behavioural: the '
         'functional backend of C02 keeps only the first nouts entries of a branch, so a misplaced output changes a result '
         'there. Program class and bounds as C01.',
    technique='TLA+ contract state machine, trace validation by TLC of probe traces recorded from real generated code',
    design_ref='DESIGN.md sections 3.5 (OpContract), 5 (C03)', engine='tlc-opcontract')

CHECKS['C04'] = dict(
    text='spec/Routing.tla (a monitor over MiniPy.tla) predicts for every execution of every generated program the ordered '
         'user-level operator events - each if, loop entry, lazy and/or operand evaluation, not, conditional expression and '
         'call, stamped with the effect-log length at invocation. While the converted function runs on the same decision '
         'vector, instrumented operators record the actual (operator, log length) events; the predicted list must embed in '
         'order in the recorded one. Statically, the generated code of every conversion (several option sets) is parsed and '
         'must contain no native if/while/for/break/continue/and/or/not/conditional expression and no native call outside '
         'ag__ scaffolding and with-item expressions.',
    note='Contexts generated: loop/branch/try/except/finally/with bodies, nested defs, operands of other overloaded '
         'expressions (including a conditional expression inside a conditional expression), bodies of lambdas called in place '
         'and of lambdas stored and called later, comprehension elements and conditions, decorators and default values of '
         'nested defs. Comprehension targets that shadow a function variable keep lambda-free elements (CPython 3.12.1 '
         'miscompiles the generated, correct, code otherwise; DESIGN section 14). Executions on which C01 already diverges '
         'are judged by C01 only. Method calls on lists are expected as calls only when the LISTS feature is off; events inside '
         'module-level callees only under recursive conversion.',
    technique='TLA+ semantics predicts operator-event sequences; embedding checked against events recorded from the converted code; AST scan of generated code',
    design_ref='DESIGN.md section 5 (C04)', engine='tlc-minipy')
CHECKS['C17'] = dict(
    text='spec/Pipeline.tla is the conversion pipeline as a state machine (pass order as a function of the options; AstShape at '
         'every pass boundary; compile / reparse / to_code facts at the end). Every conversion of a slice of the C01 program '
         'class and of a zoo of unusual literals (negative numbers, nested f-strings, tuple subscripts, starred, walrus, chained '
         'comparisons, lambdas in defaults, classes, try/else, with, imports, comprehensions) under up to five option sets is '
         'recorded by wrapping the transform entry point of each converter module (13 boundaries) and the trace - the identity '
         'of every node occurrence and the (actual, required) context of every context-carrying expression - is validated by TLC.',
    note='Required contexts come from syntactic position (vf/pipeline.py:required). Shared Load/Store/operator singletons are not '
         'node objects in the sense of the property. to_code is compared with the module file actually loaded for to_graph and '
         'structurally with the tree returned by transform_ast of a fresh transpiler.',
    technique='TLA+ pipeline state machine, trace validation by TLC of per-pass tree snapshots recorded from the real transpiler',
    design_ref='DESIGN.md sections 3.4, 5 (C17)', engine='tlc-pipeline')

CHECKS['C02'] = dict(
    text='spec/MiniPy.tla in its pure profile (ints, + - *, comparisons, and/or/not tests, counted while loops, for over '
         'range, break/continue/return, closures with nonlocal) is the oracle: TLC enumerates every generated program on every '
         'input tuple over IntDom^2 (all branch/iteration patterns within the bounds) and predicts the return value. The '
         'function converted by the real malt is run with a tracing-style backend (vf/tracing.py: both branches from the same '
         'state keeping the first nouts entries of the selected one; loop test+body once out of band; carried state '
         're-injected before every iteration) installed on the ag__ module of a fresh transpiler, and must return the same '
         'value. The class predicate "definitely assigned before every read" is decided by the specification (no execution '
         'of the program raises within the bounds).',
    note='The backend is an instance of the backend family the property describes, not a proof for all backends. Attribute '
         'state (o.v on objects, aliases, objects shared with nested functions) and constant-key state (o[\'v\'] on a dict whose '
         'keys exist before the statement), augmented and tuple assignment are generated; the in-TLC StateTuples invariant on '
         'the pre-control_flow tree (the "equivalently" clause) is not built. Speculative loop runs are capped (40 iterations) and such runs are '
         'not judged. Bounds: loop trips <=3/4, inputs 0..2/0..3.',
    technique='TLA+ operational semantics as oracle over all inputs; converted function executed under a functional operator backend',
    design_ref='DESIGN.md section 5 (C02)', engine='tlc-minipy')

CHECKS['C11'] = dict(
    text='(1) spec/Namer.tla models new_symbol together with the callers\' reservation policy; TLC shows on the model that '
         'reserving only names that are read violates FreshVisible and that reserving every identifier satisfies it. (2) '
         'Programs of the C01 class (exhaustive skeletons + random) are renamed so that their variables, parameters, nested '
         'function names and loop targets are the converter\'s own vocabulary (do_return, retval_, break_, continue_, fscope, '
         'lscope, get_state, set_state, if_body, else_body, loop_body, loop_test, extra_test, itr, vars_, numbered variants) '
         'and go through the C01 differential replay with spec/MiniPy.tla as oracle; a divergence the neutrally named twin does '
         'not show is attributed by delta debugging over the renaming to the colliding identifier and role. (3) Every call of '
         'the real Namer.new_symbol made during those conversions is recorded with the function it was made for and validated '
         'by TLC against spec/TraceNamer.tla: the result is fresh w.r.t. every identifier visible to user code in that function.',
    note='Globals and builtins as roles are not generated yet (tracer names T/D/I/CM/E1/E2 are kept). Identifier visibility '
         'is per function subtree. Bounds as C01.',
    technique='TLA+ Namer model (design-level invariant) + trace validation of recorded new_symbol calls + spec-driven differential replay',
    design_ref='DESIGN.md section 5 (C11)', engine='tlc-minipy')

CHECKS['C15'] = dict(
    text='Input-space specifications spec/SourceLayout.tla (a function definition as a sequence of physical lines: indentation '
         'units, nesting contexts to depth 3, decorators, one-line / parenthesised / backslash headers, comments incl. trailing '
         'backslash, blanks, continuation lines, plain/raw/bytes/f/rb strings over several lines with odd interior lines) and '
         'spec/LambdaSelect.tla (1-3 lambdas: nesting, line breaks, spans, 9 parameter lists) are enumerated exhaustively by '
         'TLC up to the stated bounds (all layouts with <=3 (quick) / 4 (thorough) deviations from the plain layout and <=5 '
         'body lines). The specification itself produces the text, the logical statements with their physical spans, string '
         'values and the reference dedent; every state is rendered into a really imported module and '
         'parser.parse_entity(f) is compared with the node at co_firstlineno of ast.parse(module). For lambdas the recovered '
         'expression must be the one that created the object, or an explicit unsupported error - never another lambda. '
         'Failing cases are minimised inside the enumerated state space to name the failing layout feature. Since the fourth seeding wave: lambdas wrapped with functools.wraps (own vs reported parameter names).'
,
    note='Trusted: CPython ast.parse/compile as the reference for what the interpreter compiled (the spec\'s logical lines, '
         'string values and reference dedent are validated against it in the same run, exit 2 on disagreement). Found(i) is '
         'required only where line span or parameter names identify the lambda. Fixed text inside lines; the infinite token '
         'space is sampled by line kinds.',
    technique='TLC-enumerated input space (physical-line layouts, lambda placements), every state replayed into parse_entity, model validated against CPython ast',
    design_ref='DESIGN.md sections 3.6, 5 (C15); notes/C15.md', engine='tlc-sourcelayout')

CHECKS['C12'] = dict(
    text='spec/ErrorMap.tla models call chains (depth 1-4 over converted / do_not_convert / allow-listed links), the failing '
         'statement (7 nesting constructs at depth 0-3, 8 failure kinds plus a failing if header), the traceback as abstract '
         'frames, the source map, and the rewriting rules transcribed one action per decision step (scan for the innermost '
         'mapped frame, daisy-chaining of metadata, exception re-creation with the three-valued type rule). TLC checks the '
         'clauses of the statement on the model for every enumerated scenario; every scenario is rendered to real modules and '
         'replayed through malt.convert, with the unconverted function\'s own CPython traceback as in-run model validation; every '
         'scan state (and all 1365 frame sequences of length <=5) is replayed into the real _stack_trace_inside_mapped_code; every '
         'entry of every ag_source_map is checked against the renderer\'s statement table. Since the fourth seeding wave: nested defs as conversion units, preludes with lambdas / local defs, OriginResolver.visit transcribed action by action (function names of the source map).'
,
    note='Trusted: renderer templates (cross-checked by def lines and CPython tracebacks), the token convention for provenance '
         'of generated lines, CPython traceback line attribution. Bounded: chain <=4, nesting <=3, one statement per line, no '
         'nested defs. Allow-listing exercised by extending config.CONVERSION_RULES in-process.',
    technique='explicit TLA+ state machine of the error-rewriting rules + exhaustive/simulated scenario replay + differential test of the transcription',
    design_ref='DESIGN.md sections 3.5, 5 (C12); notes/C12.md', engine='tlc-errormap')
CHECKS['C14'] = dict(
    text='TLC enumerates the complete bounded input space of spec/Builtins.tla (13 substituted builtins x every call shape '
         'Python accepts x tagged small values; map/filter/zip/enumerate as lazy iterator state machines with pull traces; '
         'acceptance, values, exception types and print output predicted by the model) and of spec/BuiltinFrames.tla (eval / '
         'locals / globals / zero-argument super at nesting depth 0-3 inside functionalised bodies). Every terminal state is '
         'replayed into the real builtin (model validation, exit 2 on disagreement), into py_builtins.overload_of(b), through '
         'converted_call, and for the frame builtins through really converted functions. Since the fourth seeding wave: eval namespace arguments as kinds (absent / None / full / empty / other) with the law NamespacesHonoured and the placement of the __builtins__ key.'
,
    note='Trusted: CPython 3.12 as validator of the model in the same run; rendering of tagged values and programs. Value '
         'domains are small (ints -3..4, floats in halves, 22 strings, sequences <=5 elements, <=3 sources, nesting <=3); '
         'call shapes Python itself rejects are outside the property (counted only); locals() only has to contain the user\'s '
         'variables with the right values.',
    technique='input-space TLA+ model enumerated exhaustively by TLC, every state replayed into the implementation; lazy-iterator state machines with pull traces; frame-stack model',
    design_ref='DESIGN.md sections 3.6, 5 (C14); notes/C14.md', engine='tlc-builtins')

CHECKS['C09'] = dict(
    text='spec/FnEnv.tla models function objects (code, globals dict id, closure cells by name, default / keyword-only default '
         'object ids, parameter list) over a heap of cells, default objects and one module dictionary, Instantiate transcribed '
         'from _PythonFnFactory.instantiate, CPython argument binding, and the actions Convert / Call(side, binding) / Rebind / '
         'ReadBack / MutateDefault / RebindGlobal on f, g = to_graph(f), the convert() wrapper and a sibling closure. TLC checks '
         'Agree, AgreeCalls, NoCrossTalk and SideEffectsOnce on the model and enumerates every signature shape of the bounded '
         'universe x every call binding, every closure shape x entity kind x action sequences, plus seeded random behaviours '
         '(TLC -generate); each behaviour is rendered to real source, converted by the real malt and stepped on the real objects, '
         'comparing after every step outcome, inspect.signature, identity of defaults / globals / cells by name, heap contents '
         'and a probe call with what TLC printed. Since the fourth seeding wave: side r (f reached as a callee of a converted caller, user_requested=False), decorators that wrap, decorator applications counted on every converting step.'
,
    note='Trusted: the renderer (checked indirectly: every behaviour is first replayed on the unconverted function and must match '
         'the specification, else exit 2); CPython 3.12. Bounds: <=2+2+2 parameters, <=3 free variables, <=3 keywords per call, '
         'two instances per code object, depth <=5. Excluded: annotations, __class__ cells, generators.',
    technique='TLA+ state machine of function environments; TLC BFS and -generate behaviours replayed on the real (f, to_graph(f), convert()(f)) with a CPython twin run as model validation',
    design_ref='DESIGN.md sections 3.5 (FnEnv), 5 (C09); notes/C09.md', engine='tlc-fnenv')
CHECKS['C13'] = dict(
    text='spec/CallPolicy.tla: converted_call as an ordered decision chain (19 actions) with the negative cache and the conversion '
         'cache as state; a behaviour is a two-call history. TLC checks 13 property invariants on the model exhaustively for 52 '
         'callable kinds x partial chains (depth <=2) x 12 argument shapes x 6 option values x 3 contexts x strict mode x 20 '
         'fault points within tier bounds; every terminal state is replayed through the real converted_call with fresh callables '
         '(9.9k / 91k histories, 1.3k / 9.4k of them through really converted call sites), observing result, exactly-once '
         'invocation, receiver identity, operators firing in the callee, conversion attempts, warnings, allow-list cache and '
         'unchanged partial objects. The direct call is checked against the spec\'s predicted binding first (exit 2).',
    note='Trusted: the table Kinds (what the chain can observe of each kind) and its realisation in vf/c13_callables.py; faults '
         'are exceptions raised by wrapped pipeline functions; arguments are symbolic tokens; un-weakref-able callables are '
         'excluded from "remembered".',
    technique='TLA+ decision-chain state machine, exhaustive enumeration, one implementation test per state, fault injection, CPython model validation',
    design_ref='DESIGN.md sections 3.5 (CallPolicy), 5 (C13); notes/C13.md', engine='tlc-callpolicy')
CHECKS['C16'] = dict(
    text='spec/CtxStack.tla model-checked exhaustively (2 threads interleaved; 28 wrapper kinds; call trees to depth 4 with a raise '
         'at any node and a catch at any ancestor; invariants StackShape, Restored, RegionStatus, Quiescent and the action '
         'property Isolation); every enumerated single-thread behaviour and seeded deeper samples are replayed into the real '
         'wrappers (convert, do_not_convert, internal convert with each status, call_with_unspecified_conversion_status, '
         'recursive and user-requested conversions) with probe-by-probe comparison of context identity and status; logs of '
         '1-16 real threads (deterministically scheduled and free-running) are validated by TLC against spec/TraceCtxStack.tla. Since the fourth seeding wave: contexts captured by an enclosing body and handed down (the same context object twice on a stack).'
,
    note='Trusted: Python with-statement semantics, the probe body vf/c16_body.py, atomicity of next(itertools.count()). '
         'Bounded: depth <=4 exhaustive / <=6 sampled, <=16 threads; schedules are sampled on the implementation side.',
    technique='TLA+ state machine + TLC BFS/simulate replay into the real wrappers + TLC trace validation of multi-threaded runs',
    design_ref='DESIGN.md sections 3.5 (CtxStack), 5 (C16); notes/C16.md', engine='tlc-ctxstack')

CHECKS['C10'] = dict(
    text='spec/ConvCache.tla (threads, re-entrant lock with owner/depth, weak-key table code -> (options -> factory), '
         'double-checked locking with one action per shared-memory step, failing transforms, Redefine/Collect) is model-checked '
         'by TLC: AtMostOnce, Coherent, NoAlias, NoStale, CacheCoherent, LockDiscipline, FastGetSafe for 3 threads / 3 function '
         'objects over 2 code objects / 2 option values / re-entrancy depth 2 (3.5 M states thorough; two 3-thread '
         'configurations, 433 k states, quick), liveness Returns under weak fairness for 2 threads, random behaviours for 6 '
         'threads. Bound to the code both ways: recorded multi-threaded runs (1-32 threads; to_graph / convert / converted_call '
         '/ transform; shared code objects, redefined and collected functions; ~100 / ~1100 traces) must be accepted by '
         'spec/TraceConvCache.tla, and TLC-generated interleavings (120 / 3600, spec/SchedConvCache.tla) are replayed '
         'deterministically into the real cache with the abstract state compared after every action; every returned function '
         'is compared with a cache-less fresh conversion. Since the fourth seeding wave: environments are identities with cell contents (twins with equal captured values), Rebind actions and the Follows invariant, code-object addresses and address reuse after collection.'
,
    note='Trusts TLC, CPython GIL-level atomicity of dict operations, and the logging proxies for PyToPy._cache_lock/_cache '
         '(installed on a fresh PyToPy subclass instance, also as api._TRANSPILER for the duration of a job). The 3-thread '
         'exhaustive run uses a commuting-local-steps reduction (argued in the module, cross-checked unreduced on smaller '
         'instances) and thread symmetry (never for liveness). Free-running traces sample schedules; deterministic replay '
         'covers 2-6 threads. Behavioural equivalence is observed on 3 inputs + options reaching FunctionScope.',
    technique='TLA+ state machine + TLC (BFS, liveness, simulate); trace validation of recorded runs; deterministic schedule replay',
    design_ref='DESIGN.md sections 3.5 (ConvCache), 5 (C10); notes/C10.md', engine='tlc-convcache')
CHECKS['C18'] = dict(
    text='spec/Anf.tla: TLA+ semantics of Python evaluation order for an expression/statement mini-language + the ANF shape, '
         'temporaries and rejection predicates. A grammar machine in the spec enumerates all programs up to the tier budget '
         '(tracer calls in every operand position) and predicts the effect log for every input; the output of the real '
         'anf.transform is executed against the prediction AND abstracted back into the mini-language so that TLC decides '
         'Run(out) = Run(src) on all inputs, IsAnf for the active configuration (default and seeded random edge-pattern '
         'configurations), temporaries discipline and reject/accept expectations (translation validation per program). The '
         'semantics is validated against CPython on every program in every run. Since the fourth seeding wave: lazy constructs with composite operands (also as later call arguments); order signatures distinguish an operand\'s own effect from effects nested in it.'
,
    note='Trusted: vf/c18_lang render/abstract (cross-checked: CPython execution of the unparsed output and TLC\'s verdict on '
         'the abstracted output must agree, else exit 2), token run-time, TLC. Assumptions: operations on values never raise; '
         'starred-operand iteration and display construction effect-free; bounded program size (2 nested composites); Python '
         '3.12 evaluation order. 24 open known-finding signatures from 8 root causes (nested operand hoisting etc.).',
    technique='grammar-machine enumeration in TLA+ + translation validation decided by TLC + CPython model validation',
    design_ref='DESIGN.md sections 3.4 (Anf), 5 (C18); notes/C18.md', engine='tlc-anf')

CHECKS['C19'] = dict(
    text='spec/TypeSem.tla: operational semantics of a typed Python subset over run-time type tags (assignment, unpacking, '
         'aug-assign, if/while/for, closures with nonlocal, local and typed external calls) with the typing tables of '
         'spec/TypeTables.tla; TLC explores all paths of every program (quick: 3.1 k programs incl. every <=2-statement block '
         'over 2 variables x 3 types, ~79 k states; thorough: 62.7 k programs incl. every <=3-statement block and all 11945 '
         'closure combinations, 2.65 M states) and checks in every step that each anno.Static.TYPES claim of the real '
         'type_inference (driven by a truthful Resolver built from the spec\'s typing tables) contains the run-time tag and that '
         'CLOSURE_TYPES cover the captured variables at every call of a local function. An absent claim is never a violation. Since the fourth seeding wave: chained assignments; parameter facts (never rebound, hides an enclosing variable) refine the signatures.'
,
    note='Trusts TLC, CPython and the exporter\'s occurrence mapping. The model is validated on every run: each complete '
         'execution is replayed on CPython; all 344 typing-table entries are checked against CPython. Bounded: <=2 while '
         'iterations per loop instance, <=60/80 steps, <=8/10 decisions per execution; value-dependent operations are cut. CFG '
         'successor order pinned to two fixed orders. 7 open known-finding signatures.',
    technique='TLA+ semantics + claim monitor, TLC all-paths exploration, CPython replay of every execution, signature-preserving witness shrinking',
    design_ref='DESIGN.md sections 3.3 (TypeSem), 5 (C19); notes/C19.md', engine='tlc-typesem')

NOT_CLAIMED = {}


def build():
    checks = []
    for pid in sorted(CHECKS):
        c = CHECKS[pid]
        checks.append(dict(
            property_id=pid,
            quick_cmd='./check %s --tier quick' % pid,
            thorough_cmd='./check %s --tier thorough' % pid,
            evidence_file='/verif/evidence/%s.json' % pid,
            replay_cmd_template='./check %s --replay {path}' % pid,
            engine=c.get('engine', 'tlc'),
            level_claimed=dict(category=c.get('category', MC), text=c['text'], design_ref=c.get('design_ref', 'DESIGN.md section 5')),
            level_note=c['note'],
            technique=c['technique']))
    props = [json.loads(l)['id'] for l in open(os.path.join(common.VERIF, 'properties.jsonl'))]
    na = []
    for pid in props:
        if pid not in CHECKS:
            na.append(dict(property_id=pid, reason=NOT_CLAIMED.get(
                pid, 'not claimed yet: the specification and conformance harness for this property are still being built '
                     '(DESIGN.md section 12); nothing is asserted about it')))
    m = dict(
        version=1,
        setup_cmd='./setup.sh',
        hooks=dict(guard=common.GUARD,
                   enable='checks import malt from /repo (VERIF_REPO overrides) with %s=1 in the environment; no build step' % common.GUARD,
                   baseline_off_cmd=BASELINE_OFF, source_commits=HOOK_COMMITS, add_only=True),
        engines=[dict(name='tlc', path='/verif/vf/tlc.py', serves_properties=sorted(CHECKS),
                      kind_free_text='TLC 1.8 model checker on the TLA+ modules in /verif/spec; Python conformance harness in /verif/vf')],
        checks=checks,
        notes='All checks: ./check <ID> --tier quick|thorough. Exit 0 held / 1 VIOLATION / 2 machinery failure. '
              'Specifications in /verif/spec, harness in /verif/vf, known findings in /verif/known_findings/<ID>.json (open entries with repro, fixed lines).',
        not_applicable=na)
    return m


HOOK_COMMITS = []

if __name__ == '__main__':
    m = build()
    with open(os.path.join(common.VERIF, 'MANIFEST.json'), 'w') as f:
        json.dump(m, f, indent=1)
    print('MANIFEST.json: %d checks, %d not claimed' % (len(m['checks']), len(m['not_applicable'])))
