"""C15 helper: binds spec/SourceLayout.tla to malt.pyct.parser.parse_entity.

TLC prints one JSON record per terminal state (a complete function definition as physical lines, the
specification's logical program, string values and reference dedent).  This module
  * writes the records into real module files (many functions per file), imports them and fetches the
    function objects through the REG.append(...) line the specification puts after every definition;
  * validates the model against CPython (ast.parse of the very same file): line of the definition, logical
    statements and their physical line spans, string values, and that the reference dedent parses to the same
    tree - any disagreement is a MachineryError;
  * observes malt: ast.dump(parse_entity(f, ())[0]) against the dump of the node the interpreter compiled;
  * classifies failing layouts by walking the *enumerated state space* downwards (every reduction of a layout
    vector is itself an enumerated layout with a recorded verdict) to a minimal failing layout, whose
    non-default features form the signature.
"""
import ast
import importlib.util
import linecache
import os
import sys

from . import common

PRELUDE = '''import functools
REG = []
def deco(f):
    return f
def deco_args(n):
    def d(f):
        return f
    return d
def wrapping(f):
    @functools.wraps(f)
    def wrapper(*a, **k):
        return f(*a, **k)
    return wrapper
class CM:
    def __enter__(self):
        return self
    def __exit__(self, *a):
        return False
'''
PRELUDE_LINES = PRELUDE.count('\n')
PER_FILE = 200

_counter = [0]


def key_of(rec):
    return (rec['unit'], tuple((l['k'], l['a'], l['b'], l['c'], l['d'], l['l']) for l in rec['lines']))


def case_lines(rec, name):
    return [l['txt'].replace('FNAME', name) for l in rec['lines']] + [p.replace('FNAME', name) for p in rec['post']]


def build_module(recs):
    """-> (source text, [first physical line (1-based) of case i's line 1])"""
    out = [PRELUDE]
    offs = []
    line = PRELUDE_LINES + 1
    for i, rec in enumerate(recs):
        ls = case_lines(rec, 'f%d' % i)
        offs.append(line)
        out.append('\n'.join(ls) + '\n\n')
        line += len(ls) + 1
    return ''.join(out), offs


def load_module(src, scratch, tag='m'):
    _counter[0] += 1
    name = 'c15_%s_%d_%d' % (tag, os.getpid(), _counter[0])
    path = os.path.join(scratch, name + '.py')
    with open(path, 'w', newline='') as f:
        f.write(src)
    spec = importlib.util.spec_from_file_location(name, path)
    mod = importlib.util.module_from_spec(spec)
    sys.modules[name] = mod
    try:
        spec.loader.exec_module(mod)
    except BaseException:
        sys.modules.pop(name, None)
        raise
    return mod, path


def unload_module(mod, path):
    sys.modules.pop(mod.__name__, None)
    linecache.cache.pop(path, None)
    try:
        os.unlink(path)
    except OSError:
        pass


def def_index(tree):
    """first physical line of a definition (first decorator line, as co_firstlineno reports it) -> FunctionDef"""
    idx = {}
    for n in ast.walk(tree):
        if isinstance(n, (ast.FunctionDef, ast.AsyncFunctionDef)):
            first = min([d.lineno for d in n.decorator_list] + [n.lineno])
            idx[first] = n
    return idx


def _str_value(node):
    """value of a string literal node as text ('{expr}' for f-string fields)"""
    if isinstance(node, ast.Constant):
        v = node.value
        return v.decode('latin-1') if isinstance(v, bytes) else v
    if isinstance(node, ast.JoinedStr):
        out = []
        for p in node.values:
            if isinstance(p, ast.Constant):
                out.append(p.value)
            else:
                out.append('{' + ast.unparse(p.value) + '}')
        return ''.join(out)
    raise common.MachineryError('not a string literal node: %s' % ast.dump(node))


def validate_model(rec, node, off):
    """The specification's logical program must be what CPython's parser sees in the rendered file."""
    def bad(msg):
        raise common.MachineryError('SourceLayout.tla disagrees with CPython: %s\n%s' % (
            msg, '\n'.join(l['txt'] for l in rec['lines'])))
    flat = []
    for st in node.body:
        flat.append((0, st))
        if isinstance(st, ast.If):
            for s2 in st.body:
                flat.append((1, s2))
            if st.orelse:
                bad('unexpected else')
    if len(flat) != len(rec['logical']):
        bad('logical statements: spec %d, ast %d' % (len(rec['logical']), len(flat)))
    strs = []
    for (lv, st), lg in zip(flat, rec['logical']):
        if lv != lg['l']:
            bad('block level of statement at line %d' % lg['s'])
        want_kind = 'if' if isinstance(st, ast.If) else None
        if (lg['k'] == 'if') != (want_kind == 'if'):
            bad('statement kind at line %d' % lg['s'])
        if st.lineno - off + 1 != lg['s']:
            bad('start line of statement: spec %d, ast %d' % (lg['s'], st.lineno - off + 1))
        if lg['k'] != 'if' and st.end_lineno - off + 1 != lg['e']:
            bad('end line of statement: spec %d, ast %d' % (lg['e'], st.end_lineno - off + 1))
        if lg['k'] == 'str':
            strs.append(_str_value(st.value))
    if strs != list(rec['strs']):
        bad('string values: spec %r, ast %r' % (list(rec['strs']), strs))
    # (c) the reference dedent is a correct dedent
    fn_lines = rec['lines'][rec['first'] - 1:]
    ded = '\n'.join(l['ded'] for l in fn_lines) + '\n'
    try:
        dn = ast.parse(ded).body[0]
    except SyntaxError as e:
        bad('reference dedent does not parse: %s' % e)
    if ast.dump(dn).replace("'FNAME'", repr(node.name)) != ast.dump(node):
        bad('reference dedent parses to a different tree')


class Outcome:
    __slots__ = ('kind', 'detail')

    def __init__(self, kind, detail=''):
        self.kind = kind        # 'ok' | 'mismatch' | 'error:<ExcType>'
        self.detail = detail


def observe(parser, fn, node):
    try:
        got, _src = parser.parse_entity(fn, ())
    except Exception as e:   # noqa - any exception on a legal layout is a verdict, not a harness failure
        return Outcome('error:' + type(e).__name__, '%s: %s' % (type(e).__name__, str(e)[:300]))
    try:
        same = ast.dump(got) == ast.dump(node)
    except Exception as e:
        return Outcome('mismatch', 'result is not a dumpable tree: %r' % (e,))
    if same:
        return Outcome('ok')
    try:
        txt = ast.unparse(got)
    except Exception:
        txt = ast.dump(got)
    return Outcome('mismatch', 'recovered:\n%s\n--- compiled by the interpreter:\n%s' % (txt, ast.unparse(node)))


def unwrap_chain(f):
    chain = [f]
    while hasattr(chain[-1], '__wrapped__'):
        chain.append(chain[-1].__wrapped__)
    return chain


def run_batch(parser, recs, scratch, stats):
    """-> list of Outcome (one per record); wrapper objects are checked on the way."""
    src, offs = build_module(recs)
    try:
        mod, path = load_module(src, scratch)
    except Exception as e:
        raise common.MachineryError('rendered module does not import (%r): the specification admitted an '
                                    'ill-formed layout' % (e,))
    try:
        tree = ast.parse(src)
        idx = def_index(tree)
        reg = mod.REG
        if len(reg) != len(recs):
            raise common.MachineryError('expected %d registered functions, got %d' % (len(recs), len(reg)))
        outs = []
        for rec, off, obj in zip(recs, offs, reg):
            chain = unwrap_chain(obj)
            nwrap = sum(1 for l in rec['lines'] if l['k'] == 'deco' and l['a'] == 'wrap')
            if len(chain) != nwrap + 1:
                raise common.MachineryError('wrapper chain length %d, expected %d' % (len(chain), nwrap + 1))
            fn = chain[-1]
            want_line = off + rec['first'] - 1
            if fn.__code__.co_firstlineno != want_line:
                raise common.MachineryError('SourceLayout.tla: definition expected at line %d, interpreter says %d' % (
                    want_line, fn.__code__.co_firstlineno))
            node = idx.get(want_line)
            if node is None:
                raise common.MachineryError('no definition at line %d of the module AST' % want_line)
            validate_model(rec, node, off)
            out = observe(parser, fn, node)
            # the wrapper objects themselves: their source is the wrapper definition, not the wrapped function
            for w in chain[:-1]:
                wn = idx.get(w.__code__.co_firstlineno)
                if wn is None or wn.name != 'wrapper':
                    raise common.MachineryError('wrapper definition not found in the module AST')
                wo = observe(parser, w, wn)
                stats['wrappers'] = stats.get('wrappers', 0) + 1
                if wo.kind != 'ok' and out.kind == 'ok':
                    out = Outcome('wrapper-' + wo.kind, wo.detail)
            outs.append(out)
        return outs
    finally:
        unload_module(mod, path)


# ---------------------------------------------------------------------------------------------------------
# classification: minimal failing layout inside the enumerated space
# ---------------------------------------------------------------------------------------------------------
def _groups(lines):
    """indices of multi-line statements: (start, end) inclusive"""
    out = []
    i = 0
    while i < len(lines):
        k = lines[i][0]
        if k == 'codebs':
            j = i + 1
            while j < len(lines) and lines[j][0] == 'contline':
                j += 1
            out.append((i, j - 1))
            i = j
        elif k == 'stropen':
            j = i + 1
            while j < len(lines) and lines[j][0] == 'strmid':
                j += 1
            out.append((i, j))   # j is strclose
            i = j + 1
        else:
            i += 1
    return out


def reductions(key):
    """candidate simpler layout vectors, in a fixed order (each removes or neutralises one feature)"""
    unit, lines = key
    lines = list(lines)
    if unit != 's4':
        yield ('s4', tuple(lines))

    def rep(i, j, new):
        return (unit, tuple(lines[:i] + list(new) + lines[j + 1:]))
    groups = _groups(lines)
    for (s, e) in groups:                       # a multi-line statement becomes a plain one / disappears
        lv = lines[s][5]
        yield rep(s, e, [('code', '', '', '', '', lv)])
        yield rep(s, e, [])
    for i, ln in enumerate(lines):
        k, a, b, c, d, l = ln
        if k in ('ctx', 'deco', 'code', 'comment', 'blank', 'strmid'):
            yield rep(i, i, [])
        if k == 'contline' and b == 'bs':
            yield rep(i, i, [])
        if k == 'deco' and a != 'id':
            yield rep(i, i, [(k, 'id', b, c, d, l)])
        if k == 'decoopen':
            yield rep(i, i + 1, [])
            yield rep(i, i + 1, [('deco', 'call', '', '', '', 0)])
        if k == 'defone':
            yield rep(i, i, [('def1', '', '', '', '', 0), ('code', '', '', '', '', 0)])
        if k == 'defopen':
            yield rep(i, i + 2, [('def1', '', '', '', '', 0)])
        if k == 'defbs':
            yield rep(i, i + 1, [('def1', '', '', '', '', 0)])
        if k in ('sigmid', 'sigbsend', 'contline', 'decoarg') and a != 'deep':
            yield rep(i, i, [(k, 'deep', b, c, d, l)])
        if k == 'open':
            j = i + 1
            new = []
            while j < len(lines) and lines[j][5] == 1:
                new.append(lines[j][:5] + (0,))
                j += 1
            yield rep(i, j - 1, new)
            yield rep(i, j - 1, [])
        if k == 'comment':
            if a != 'in':
                yield rep(i, i, [(k, 'in', b, c, d, l)])
            if b != '':
                yield rep(i, i, [(k, a, '', c, d, l)])
        if k == 'blank' and a != 'empty':
            yield rep(i, i, [(k, 'empty', b, c, d, l)])
        if k == 'stropen':
            if a != 'plain':
                yield rep(i, i, [(k, 'plain', b, c, d, l)])
            if b == 'q1':       # -> triple quoted, the backslashes may stay
                yield rep(i, i, [(k, a, 'q3', c, d, l)])
            if c != '' and b == 'q3':
                yield rep(i, i, [(k, a, b, '', d, l)])
            if d != 'asg':
                yield rep(i, i, [(k, a, b, c, 'asg', l)])
        if k == 'strmid':
            if a != 'in':
                yield rep(i, i, [(k, 'in', b, c, d, l)])
            if b != '':
                yield rep(i, i, [(k, a, '', c, d, l)])
        if k == 'strclose' and a != 'in':
            yield rep(i, i, [(k, 'in', b, c, d, l)])


_KIND_NAME = {'plain': 'string', 'raw': 'raw-string', 'bytes': 'bytes-string', 'f': 'f-string', 'rb': 'raw-bytes-string',
              'rf': 'raw-f-string'}
_END_NAME = {'bs': 'backslash-newline', 'bsws': 'backslash-blank-newline', 'bs2': 'escaped-backslash-newline'}
_IND_NAME = {'zero': 'col0', 'deep': 'overindented', 'in': 'at-body-indent', 'same': 'at-def-indent',
             'alt': 'other-whitespace-char'}


def features(key):
    """names of the non-default features of a layout vector"""
    unit, lines = key
    fs = set()
    if unit != 's4':
        fs.add({'t1': 'indent-tab', 't2': 'indent-2tabs', 's2': 'indent-2sp', 's1': 'indent-1sp'}[unit])
    strkind = None
    ndeco = 0
    for (k, a, b, c, d, l) in lines:
        if k == 'ctx':
            fs.add('in-' + a)
        elif k == 'deco':
            ndeco += 1
            fs.add({'id': 'decorator', 'call': 'decorator-call', 'wrap': 'decorator-wraps'}[a])
            if ndeco > 1:
                fs.add('two-decorators')
        elif k == 'decoopen':
            ndeco += 1
            fs.add('multiline-decorator')
            if ndeco > 1:
                fs.add('two-decorators')
        elif k == 'decoarg' and a != 'deep':
            fs.add('decorator-continuation-' + _IND_NAME[a])
        elif k == 'defone':
            fs.add('one-line-def')
        elif k == 'defopen':
            fs.add('multiline-signature')
        elif k == 'defbs':
            fs.add('backslash-signature')
        elif k in ('sigmid', 'sigbsend') and a != 'deep':
            fs.add('signature-continuation-' + _IND_NAME[a])
        elif k == 'open':
            fs.add('nested-block')
        elif k == 'comment':
            name = 'comment'
            if b == 'bs':
                name += '-trailing-backslash'
            if b == 'bsws':
                name += '-trailing-backslash-blank'
            if b == 'bs2':
                name += '-trailing-two-backslashes'
            if a != 'in':
                name += '-' + _IND_NAME[a]
            fs.add(name)
        elif k == 'blank':
            fs.add('blank-line' if a == 'empty' else 'whitespace-only-line')
        elif k == 'codebs':
            fs.add('backslash-continuation')
        elif k == 'contline':
            if a != 'deep':
                fs.add('continuation-line-' + _IND_NAME[a])
            if b == 'bs':
                fs.add('double-continuation')
        elif k == 'stropen':
            strkind = _KIND_NAME[a]
            name = 'multiline-' + strkind
            if b == 'q1':
                name += '-single-quoted'
            fs.add(name)
            if c and b == 'q3':
                fs.add(strkind + '-' + _END_NAME[c])
            if d == 'expr':
                fs.add('string-expression-statement')
        elif k == 'strmid':
            if a != 'in':
                fs.add('string-line-' + _IND_NAME[a])
            else:
                fs.add('string-interior-line')
            if b:
                fs.add(strkind + '-' + _END_NAME[b])
        elif k == 'strclose' and a != 'in':
            fs.add('string-close-' + _IND_NAME[a])
    # a multi-line string is implied by the more specific backslash-newline feature
    for nm in _KIND_NAME.values():
        if any(nm + '-' + e in fs for e in _END_NAME.values()):
            fs.discard('multiline-' + nm)
            fs.discard('string-interior-line')
    return sorted(fs)


class Classifier:
    """Greedy descent through the enumerated layouts; memoised, deterministic."""

    def __init__(self, verdicts):
        self.verdicts = verdicts          # key -> Outcome
        self.memo = {}
        self.lookups = 0
        self.misses = 0

    def minimal(self, key):
        path = []
        cur = key
        while True:
            if cur in self.memo:
                res = self.memo[cur]
                break
            path.append(cur)
            nxt = None
            for cand in reductions(cur):
                self.lookups += 1
                o = self.verdicts.get(cand)
                if o is None:
                    self.misses += 1
                    continue
                if o.kind != 'ok':
                    nxt = cand
                    break
            if nxt is None:
                res = cur
                break
            cur = nxt
        for p in path:
            self.memo[p] = res
        return res

    def signature(self, key):
        """root cause = non-default features of the minimal failing layout below `key`;
        class = how `key` itself fails (silently different tree / exception / wrapper object)"""
        m = self.minimal(key)
        o = self.verdicts[key]
        fs = features(m)
        body = '+'.join(fs) if fs else 'plain-layout'
        if o.kind == 'mismatch':
            return 'c15:layout:' + body, m
        if o.kind.startswith('error:'):
            return 'c15:layout-error:' + body, m
        return 'c15:layout-%s:%s' % (o.kind.split(':')[0], body), m
