"""Renderer for the scenarios of spec/ErrorMap.tla (property C12).

A scenario's program is (chain, nest, pre, tail).  The renderer is purely mechanical: one template per
abstract line kind, one statement per source line.  Every original statement carries a token
`L<n>` (n = its own line number in the file) inside an attribute name of the input object `p`,
so that the generated line(s) produced from that statement can be recognised in the generated
source without knowing anything about the converters.  The line arithmetic itself lives in the
specification (Before/After/HdrOff/FLen/Start); this module does not compute expected lines - it
only reports where it put things, and the harness cross-checks that against the specification
(deflines) and against CPython (tracebacks).
"""
import re

PRE_U = [
    'import malt',
    'class UE(Exception):',
    '    pass',
    'class CE(Exception):',
    '    def __init__(self, a, b):',
    "        super().__init__('%s-%s' % (a, b))",
    '        self.a = a',
    'class VE0(ValueError):',
    '    pass',
    'class VE2(ValueError):',
    '    def __init__(self, a, b):',
    "        super().__init__('%s-%s' % (a, b))",
    'class RE1(RuntimeError):',
    '    def __init__(self, a):',
    "        super().__init__('<%s>' % a)",
    'class CM:',
    '    def __init__(self, t):',
    '        self.t = t',
    '    def __enter__(self):',
    '        return self',
    '    def __exit__(self, *a):',
    '        return False',
    'dnc = malt.experimental.do_not_convert',
]
PRE_A = ['# allow-listed helper module: UE, CE, CM, dnc and callees are injected by the harness']

TOKEN = re.compile(r'\bL(\d+)\b|_L(\d+)\b')

FAIL_STMTS = [
    'v = p.d[p.ka_L%d]',
    'v = 1 // p.kz_L%d',
    'v = len(p.kt_L%d)',
    'v = p.lst[p.ki_L%d]',
    'v = p.ko_L%d.attr',
    'v = int(p.ks_L%d)',
]


RAISES = {'CE': 'raise CE(1, 2)', 'VE0': "raise VE0('boom')", 'VE2': 'raise VE2(1, 2)', 'RE1': "raise RE1('x')"}
EXC_NAMES = ['UE', 'CE', 'VE0', 'VE2', 'RE1']


class P(object):
    """Input object: attribute `<base>_L<n>` is the input `<base>`; any other `L<n>` attribute is 1."""

    def __init__(self, **kw):
        self.__dict__['_in'] = kw

    def __getattr__(self, name):
        base = name.split('_L')[0]
        d = self.__dict__['_in']
        if base in d:
            return d[base]
        if re.match(r'^(m\d+_)?L\d+$', name):
            return 1
        raise AttributeError(name)


class _NoAttr(object):
    pass


class _HasAttr(object):
    attr = 1


def inputs(k, tail):
    """The input that makes statement k of the innermost block the (only) failing statement."""
    d = dict(d={'present': 1}, ka='present', kz=1, kt=[], lst=[0], ki=0, ko=_HasAttr(), ks='7', kh=1)
    bad = {1: ('ka', 'missing'), 2: ('kz', 0), 3: ('kt', 5), 4: ('ki', 3), 5: ('ko', _NoAttr()), 6: ('ks', 'x')}
    if k in bad:
        d[bad[k][0]] = bad[k][1]
    elif tail == 'hdr':
        d['kh'] = 0
    return P(**d)


class _File(object):
    def __init__(self, pre):
        self.lines = list(pre)
        self.stmts = {}      # line -> (function index, role)

    def emit(self, indent, text, fn=None, role=None):
        n = len(self.lines) + 1
        if '%d' in text:
            text = text % ((n,) * text.count('%d'))
        self.lines.append('    ' * indent + text)
        if fn is not None:
            self.stmts[n] = (fn, role)
        return n


PRE_LINES = {
    # kind -> [(relative indent, text, role)]; {j} = position of the item in the prelude
    'lam': [(0, 'g{j} = lambda z: z + p.L%d', 'prelam'),
            (0, 'r = r + g{j}(p.L%d)', 'pre')],
    'def': [(0, 'def h{j}(z):', 'predef'),
            (1, 'return z + p.L%d', 'pre'),
            (0, 'r = r + h{j}(p.L%d)', 'pre')],
    'deflam': [(0, 'def h{j}(z):', 'predef'),
               (1, 'w = lambda y: y + p.L%d', 'prelam'),
               (1, 'return w(z)', 'pre'),
               (0, 'r = r + h{j}(p.L%d)', 'pre')],
}


def render(chain, nest, tail, modid=0, pre=None):
    """Returns dict(U=text, A=text or None, fns=[per function: file, def line, nested], X_stmts=line->(function, role))."""
    files = {'U': _File(PRE_U), 'A': _File(PRE_A)}
    n = len(chain)
    pre = pre or [[] for _ in chain]
    fns = [None] * n

    def emit_fn(i, base, fkey):
        f = files[fkey]
        if chain[i - 1] == 'dnc':
            f.emit(base, '@dnc')
        dl = f.emit(base, 'def f%d(p, t):' % i, i, 'def')
        fns[i - 1] = dict(file=fkey, defline=dl, nested=chain[i - 1] == 'nested')
        # the module id makes the code object of every function unique to its file (malt's conversion cache
        # is keyed by code objects, and CPython code equality ignores co_filename)
        f.emit(base + 1, 'r = p.m%d_L%%d' % modid, i, 'filler')
        for j, kd in enumerate(pre[i - 1], 1):
            for rel, text, role in PRE_LINES[kd]:
                f.emit(base + 1 + rel, text.replace('{j}', str(j)), i, role)
        if i < n and chain[i] == 'nested':
            emit_fn(i + 1, base + 1, fkey)
        ind = base + 1
        closers = []
        for depth, c in enumerate(nest[i - 1]):
            w = 'w%d' % depth
            if c == 'if':
                f.emit(ind, 'if p.L%d > 0:', i, 'if')
            elif c == 'else':
                f.emit(ind, 'if p.L%d < 0:', i, 'if')
                f.emit(ind + 1, 'r = r + p.L%d', i, 'filler')
                f.emit(ind, 'else:')
            elif c == 'for':
                f.emit(ind, 'for i%d in range(p.L%%d):' % depth, i, 'for')
            elif c == 'while':
                f.emit(ind, w + ' = p.L%d - 1', i, 'filler')
                f.emit(ind, 'while ' + w + ' < p.L%d:', i, 'while')
                f.emit(ind + 1, w + ' = ' + w + ' + p.L%d', i, 'filler')
            elif c == 'with':
                f.emit(ind, 'with CM(p.L%d):', i, 'with')
            elif c == 'try':
                f.emit(ind, 'try:', i, 'try')
                closers.append(ind)
            elif c == 'fin':
                f.emit(ind, 'try:', i, 'try')
                f.emit(ind + 1, 'r = r + p.L%d', i, 'filler')
                f.emit(ind, 'finally:')
            else:
                raise ValueError(c)
            if c != 'try':
                closers.append(None)
            ind += 1
        if i < n:
            f.emit(ind, 'r = f%d(p, p.L%%d)' % (i + 1), i, 'call')
        else:
            for q, s in enumerate(FAIL_STMTS):
                f.emit(ind, s, i, 'fail%d' % (q + 1))
            if tail == 'UE':
                f.emit(ind, "raise UE('boom')", i, 'fail7')
            elif tail in RAISES:
                f.emit(ind, RAISES[tail], i, 'fail7')
            else:
                f.emit(ind, 'v = v + p.L%d', i, 'filler')
        for cl in reversed(closers):
            if cl is not None:
                f.emit(cl, 'finally:')
                f.emit(cl + 1, 'r = r + p.L%d', i, 'filler')
        if i == n and tail == 'hdr':
            f.emit(base + 1, 'if 1 // p.kh_L%d:', i, 'fail7')
            f.emit(base + 2, 'r = r + p.L%d', i, 'filler')
        f.emit(base + 1, 'return r + p.L%d', i, 'return')

    for i in range(1, n + 1):
        if chain[i - 1] != 'nested':
            emit_fn(i, 0, 'A' if chain[i - 1] == 'allow' else 'U')
    out = dict(fns=fns)
    for key in ('U', 'A'):
        out[key] = '\n'.join(files[key].lines) + '\n'
        out[key + '_stmts'] = files[key].stmts
    return out


def tokens(line):
    """Set of statement tokens (original line numbers) occurring in a line of generated source."""
    return {int(a or b) for a, b in TOKEN.findall(line)}
