"""Instrumented control-flow operators.

`install(ag, recorder)` replaces if_stmt / while_stmt / for_stmt / if_exp / and_ / or_ / not_ on the `ag__`
module object of a transpiler (the generated code is the repository's, only the operator entry points are
wrapped) with wrappers that
  * perform the contract probes of C03 on the LIVE calling frame before delegating to the real operator,
    recording one event per probe,
  * count invocations (C04),
and restore the originals with `uninstall`.
"""
import sys
import inspect

SENTINEL_BASE = 10 ** 6


class Recorder:
    def __init__(self, probe=True):
        self.calls = []
        self.counts = {}
        self.probe = probe
        self.events = []        # (operator, length of the effect log at invocation)
        self.run = None         # the current tracer world (vf.minipy.Run), set by the replay harness

    def count(self, op):
        self.counts[op] = self.counts.get(op, 0) + 1
        self.events.append([OPNAME.get(op, op), len(self.run.log) if self.run is not None else -1])


OPNAME = {'converted_call': 'call'}


class _Sentinel:
    pass


def _nparams(f):
    if f is None:
        return -1
    try:
        return len(inspect.signature(f).parameters)
    except (TypeError, ValueError):
        return -2


def _eval_names(frame, names, ids):
    out = []
    loc = frame.f_locals
    for nm in names:
        if nm in loc:
            out.append(ids(loc[nm]))
        else:
            try:
                out.append(ids(eval(nm, frame.f_globals, loc)))
            except Exception:
                out.append(0)
    return out


def _probe(op, frame, get_state, set_state, symbol_names, rec):
    """The probe sequence on the live frame. Leaves the frame exactly as it found it."""
    table = {}

    def ids(v):
        k = id(v)
        if k not in table:
            table[k] = (len(table) + 1, v)      # keep v alive so ids stay unique
        return table[k][0]
    names = list(symbol_names)
    ev = []
    ev.append(['eval', _eval_names(frame, names, ids), 'init'])
    s0 = get_state()
    ev.append(['get', [ids(v) for v in s0], 'getter-and-names-denote-the-same-variables'])
    ev.append(['eval', _eval_names(frame, names, ids), 'reading-state-has-no-effect'])
    set_state(s0)
    ev.append(['set', [ids(v) for v in s0], ''])
    ev.append(['eval', _eval_names(frame, names, ids), 'writing-back-what-was-read-changes-nothing'])
    ev.append(['get', [ids(v) for v in get_state()], 'writing-back-what-was-read-changes-nothing'])
    sent = tuple(_Sentinel() for _ in s0)
    set_state(sent)
    ev.append(['set', [ids(v) for v in sent], ''])
    ev.append(['get', [ids(v) for v in get_state()], 'a-write-followed-by-a-read-returns-what-was-written'])
    ev.append(['eval', _eval_names(frame, names, ids), 'setter-and-names-denote-the-same-variables'])
    set_state(s0)
    ev.append(['set', [ids(v) for v in s0], ''])
    ev.append(['eval', _eval_names(frame, names, ids), 'restore'])
    rec['events'] = ev
    rec['ngetter'] = len(s0)


def install(ag, recorder):
    saved = {}
    for nm in ('if_stmt', 'while_stmt', 'for_stmt', 'if_exp', 'and_', 'or_', 'not_', 'converted_call', 'ld'):
        saved[nm] = getattr(ag, nm)
    R = recorder

    def base(op, n, nouts, get_state, set_state, body, test, orelse, opts):
        return dict(op=op, n=n, nouts=nouts, ngetter=-1, events=[],
                    ngetter_params=_nparams(get_state), nsetter_params=_nparams(set_state),
                    nbody=_nparams(body), ntest=_nparams(test), norelse=_nparams(orelse),
                    na=0, nb=0, nc=0,
                    has_iterate_names=1 if (isinstance(opts, dict) and 'iterate_names' in opts) else 0,
                    opts_ok=1, opts={k: v for k, v in (opts or {}).items()} if isinstance(opts, dict) else {}, key=0)

    def if_stmt(cond, body, orelse, get_state, set_state, symbol_names, nouts):
        R.count('if_stmt')
        if R.probe:
            rec = base('if_stmt', len(symbol_names), nouts, get_state, set_state, body, None, orelse, None)
            rec['ntest'] = 0
            _probe('if_stmt', sys._getframe(1), get_state, set_state, symbol_names, rec)
            R.calls.append(rec)
        return saved['if_stmt'](cond, body, orelse, get_state, set_state, symbol_names, nouts)

    def while_stmt(test, body, get_state, set_state, symbol_names, opts):
        R.count('while_stmt')
        if R.probe:
            rec = base('while_stmt', len(symbol_names), 0, get_state, set_state, body, test, None, opts)
            rec['norelse'] = 0
            _probe('while_stmt', sys._getframe(1), get_state, set_state, symbol_names, rec)
            R.calls.append(rec)
            inner_test = test

            def test():     # identifies the loop: the first tracer its test evaluates
                n0 = len(R.run.log) if R.run is not None else 0
                r = inner_test()
                if rec['key'] == 0 and R.run is not None and len(R.run.log) > n0:
                    rec['key'] = R.run.log[n0][1]
                elif rec['key'] == 0:
                    rec['key'] = -1
                return r
        return saved['while_stmt'](test, body, get_state, set_state, symbol_names, opts)

    def for_stmt(iter_, extra_test, body, get_state, set_state, symbol_names, opts):
        R.count('for_stmt')
        if R.probe:
            rec = base('for_stmt', len(symbol_names), 0, get_state, set_state, body, extra_test, None, opts)
            rec['norelse'] = 0
            ser = getattr(iter_, 'serial', 0)
            rec['key'] = R.run.log[ser - 1][1] if (ser and R.run is not None) else -1
            _probe('for_stmt', sys._getframe(1), get_state, set_state, symbol_names, rec)
            R.calls.append(rec)
        return saved['for_stmt'](iter_, extra_test, body, get_state, set_state, symbol_names, opts)

    def lazy(op, a, b, c=None):
        """The operands of the lazy operators are zero-argument thunks (the operator decides what is evaluated)."""
        rec = base(op, 0, 0, None, None, None, None, None, None)
        rec.update(ngetter=0, ngetter_params=0, nsetter_params=1, nbody=0, ntest=0, norelse=0,
                   na=_nparams(a) if callable(a) else -2, nb=_nparams(b) if callable(b) else -2,
                   nc=0 if c is None else (_nparams(c) if callable(c) else -2))
        R.calls.append(rec)

    def if_exp(cond, if_true, if_false, expr_repr):
        R.count('if_exp')
        if R.probe:
            lazy('if_exp', if_true, if_false)
        return saved['if_exp'](cond, if_true, if_false, expr_repr)

    def and_(a, b):
        R.count('and_')
        if R.probe:
            lazy('and_', a, b)
        return saved['and_'](a, b)

    def or_(a, b):
        R.count('or_')
        if R.probe:
            lazy('or_', a, b)
        return saved['or_'](a, b)

    def not_(a):
        R.count('not_')
        return saved['not_'](a)

    def converted_call(f, args, kwargs, caller_fn_scope=None, options=None):
        R.count('converted_call')
        return saved['converted_call'](f, args, kwargs, caller_fn_scope, options)

    for nm, fn in (('if_stmt', if_stmt), ('while_stmt', while_stmt), ('for_stmt', for_stmt), ('if_exp', if_exp),
                   ('and_', and_), ('or_', or_), ('not_', not_), ('converted_call', converted_call)):
        setattr(ag, nm, fn)
    return saved


def uninstall(ag, saved):
    for nm, fn in saved.items():
        setattr(ag, nm, fn)
