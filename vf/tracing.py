"""A functional ("tracing-style") operator backend for C02.

The control-flow operators touch the enclosing function's variables ONLY through get_state / set_state:
  * if_stmt runs BOTH branches from the same initial state and keeps the state of the one selected by cond
    (only the first `nouts` entries - the declared outputs - are taken from the branch);
  * while_stmt / for_stmt run test+body once out of band (as a tracer would, even for zero iterations),
    discard that, and then iterate, re-injecting the carried state before every iteration.
Installed on the ag__ module of a FRESH transpiler instance (api.PyToPy subclass): the generated code is the
repository's, only the operator implementations differ.
"""
ITER_CAP = 40          # iterations of one loop instance
TOTAL_CAP = 4000       # loop iterations of one run of the converted function (speculative runs nest multiplicatively)
_budget = [0]


def reset_budget():
    _budget[0] = 0


def _tick():
    _budget[0] += 1
    if _budget[0] > TOTAL_CAP:
        raise BackendDiverged()


class BackendDiverged(Exception):
    """A loop run out of band (or in an untaken branch) did not terminate within the cap: not judged."""


def make_transpiler():
    from malt.impl import api

    class TracingPyToPy(api.PyToPy):
        def get_extra_locals(self):
            if self._extra_locals is None:
                super().get_extra_locals()
                ag = self._extra_locals['ag__']
                ag.if_stmt = if_stmt
                ag.while_stmt = while_stmt
                ag.for_stmt = for_stmt
            return self._extra_locals
    return TracingPyToPy()


def _quiet(thunk):
    """Out-of-band run: exceptions of a speculative run are not the program's."""
    try:
        thunk()
    except BackendDiverged:
        raise
    except Exception:
        pass


def if_stmt(cond, body, orelse, get_state, set_state, symbol_names, nouts):
    s0 = get_state()
    taken = bool(cond)
    sb = so = None
    if taken:
        set_state(s0)
        _quiet(orelse)             # the branch not selected is still traced, from the same initial state
        set_state(s0)
        body()
        sb = get_state()
        chosen = sb
    else:
        set_state(s0)
        _quiet(body)
        set_state(s0)
        orelse()
        so = get_state()
        chosen = so
    set_state(tuple(chosen[:nouts]) + tuple(s0[nouts:]))


def while_stmt(test, body, get_state, set_state, symbol_names, opts):
    s = get_state()
    _quiet(lambda: (test(), body()))      # traced once out of band, even for zero iterations
    n = 0
    while True:
        set_state(s)
        if not test():
            break
        body()
        s = get_state()
        n += 1
        _tick()
        if n > ITER_CAP:
            raise BackendDiverged()
    set_state(s)


def _bounded(iter_):
    """The items of a (speculatively huge) iterable, capped: a range(10**12) met in an untaken branch must not be materialised."""
    items = []
    for it in iter_:
        items.append(it)
        if len(items) > ITER_CAP:
            raise BackendDiverged()
    return items


def for_stmt(iter_, extra_test, body, get_state, set_state, symbol_names, opts):
    s = get_state()
    items = _bounded(iter_)
    _quiet(lambda: body(items[0] if items else 0))
    set_state(s)
    if extra_test is not None:
        _quiet(extra_test)
    for it in items:
        set_state(s)
        if extra_test is not None and not extra_test():
            break
        body(it)
        s = get_state()
        _tick()
    set_state(s)
