"""C19: the small typed language of spec/TypeSem.tla on the Python side.

A program exists in two forms:
  * tree form (nested tuples; what the generators and the shrinker work on)
      prog  = {'params': [(name, [tag, ...]), ...], 'body': [stmt, ...]}
      stmt  = ('assign', target, expr) | ('aug', name, op, expr) | ('expr', expr) | ('return', expr)
            | ('if', test, body, orelse) | ('while', test, body) | ('for', name, expr, body)
            | ('def', name, [param names], [nonlocal names], body) | ('pass',) | ('break',) | ('continue',)
      target = name | (name, name, ...) | [target, target, ...]   (a list: the targets of a chained assignment
               t1 = t2 = ... = expr, every target a name or a tuple of names, all names distinct)
      expr  = ('lit', t) | ('name', x) | ('bin', op, l, r) | ('cmp', op, l, r) | ('un', op, a)
            | ('list', [e..]) | ('tuple', [e..]) | ('sub', e, k) | ('ext', fname, [e..]) | ('lcall', g, [e..])
      test  = 'cb' | 'cn' | 'ct'      rendered  cb() | not cn() | ct() < 1   (outcome chosen by the environment)
    ('lcall' - a call of a local function - only as the whole right-hand side of assign / expr / return.)
  * flat tables (what TLC loads): {names, fns, nodes, exprs, exts, gvals}, ids 1-based, every record of a
    table has the same fields.  Every expression *occurrence* (incl. store targets and parameters) has its own
    row in `exprs`; its id is the key of the exported claims and of the replay events.

A tag is a list of strings: ['int'], ['list', 'int', 'float'], ['tuple', 'int', 'str'] ...
"""
import itertools
import random

PRIMS = ['int', 'float', 'bool', 'str']
LIT = {'int': '1', 'float': '1.5', 'bool': 'True', 'str': "'s'"}

# external functions (typed by declaration): name -> (possible result tags, number of arguments)
EXTS = {
    'cb': ([['bool']], 0), 'cn': ([['bool']], 0), 'ct': ([['int']], 0),      # decision externals (tests only)
    'ei': ([['int']], 0), 'ef': ([['float']], 0), 'es': ([['str']], 0), 'eb': ([['bool']], 0),
    'enum': ([['int'], ['float']], 0), 'eis': ([['int'], ['str']], 0),
    'el': ([['list'], ['list', 'int'], ['list', 'int', 'float']], 0),
    'elf': ([['list', 'float', 'float']], 0),
    'ep': ([['tuple', 'int', 'float']], 0),
    'epp': ([['tuple', 'int', 'float'], ['tuple', 'str', 'int']], 0),
    'et3': ([['tuple', 'int', 'int', 'int']], 0),
    'eid': ([['int']], 1), 'efl': ([['float']], 1),
}
DEC_EXTS = ('cb', 'cn', 'ct')
GVALS = {'GI': ['int'], 'GF': ['float'], 'GS': ['str']}
TESTS = {'cb': ('ext', 'cb', []), 'cn': ('un', 'not', ('ext', 'cn', [])), 'ct': ('cmp', '<', ('ext', 'ct', []), ('lit', 'int'))}
PTYPES = [[['int']], [['float']], [['str']], [['bool']], [['int'], ['float']], [['int'], ['str']],
          [['list', 'int']], [['list', 'int', 'float']], [['tuple', 'int', 'float']], [['float'], ['bool'], ['str']]]


# ------------------------------------------------------------------------------------------------
# tree -> tables
# ------------------------------------------------------------------------------------------------
class _Flat:
    def __init__(self):
        self.nodes, self.exprs, self.fns, self.names = [], [], [], []

    def name(self, nm):
        if nm not in self.names:
            self.names.append(nm)

    def expr(self, fn, **kw):
        d = dict(kind='', fn=fn, name='', t='', op='', args=[], k=0)
        d.update(kw)
        if d['name']:
            self.name(d['name'])
        self.exprs.append(d)
        return len(self.exprs)

    def node(self, fn, **kw):
        d = dict(kind='', fn=fn, e=0, tgt=0, tgts=[], op='', body=[], orelse=[], f=0, ch=[])
        d.update(kw)
        self.nodes.append(d)
        return len(self.nodes)

    def ex(self, fn, e):
        k = e[0]
        if k == 'lit':
            return self.expr(fn, kind='lit', t=e[1])
        if k == 'name':
            return self.expr(fn, kind='name', name=e[1])
        if k in ('bin', 'cmp'):
            a = self.ex(fn, e[2])
            b = self.ex(fn, e[3])
            return self.expr(fn, kind=k, op=e[1], args=[a, b])
        if k == 'un':
            a = self.ex(fn, e[2])
            return self.expr(fn, kind='un', op=e[1], args=[a])
        if k in ('list', 'tuple'):
            return self.expr(fn, kind=k, args=[self.ex(fn, x) for x in e[1]])
        if k == 'sub':
            a = self.ex(fn, e[1])
            return self.expr(fn, kind='sub', args=[a], k=e[2])
        if k == 'ext':
            args = [self.ex(fn, x) for x in e[2]]
            i = self.expr(fn, kind='ext', args=args)
            self.exprs[i - 1]['name'] = e[1]          # external names are not variables: keep them out of `names`
            return i
        if k == 'lcall':
            f = self.expr(fn, kind='name', name=e[1])
            args = [self.ex(fn, x) for x in e[2]]
            return self.expr(fn, kind='lcall', args=[f] + args)
        raise ValueError(e)

    def target(self, fn, t):
        if isinstance(t, str):
            return self.expr(fn, kind='store', name=t)
        return self.expr(fn, kind='stuple', args=[self.expr(fn, kind='store', name=x) for x in t])

    def block(self, fn, body):
        return [self.stmt(fn, s) for s in body]

    def stmt(self, fn, s):
        k = s[0]
        if k == 'assign':
            e = self.ex(fn, s[2])             # value first: evaluation order = id order
            return self.node(fn, kind='assign', tgts=[self.target(fn, t) for t in chain_targets(s[1])], e=e)
        if k == 'aug':
            e = self.ex(fn, s[3])
            return self.node(fn, kind='aug', tgt=self.expr(fn, kind='store', name=s[1]), op=s[2], e=e)
        if k in ('expr', 'return'):
            return self.node(fn, kind=k, e=self.ex(fn, s[1]))
        if k == 'if':
            n = self.node(fn, kind='if', e=self.ex(fn, TESTS[s[1]]))
            self.nodes[n - 1]['body'] = self.block(fn, s[2])
            self.nodes[n - 1]['orelse'] = self.block(fn, s[3])
            return n
        if k == 'while':
            n = self.node(fn, kind='while', e=self.ex(fn, TESTS[s[1]]))
            self.nodes[n - 1]['body'] = self.block(fn, s[2])
            return n
        if k == 'for':
            e = self.ex(fn, s[2])
            n = self.node(fn, kind='for', e=e, tgt=self.expr(fn, kind='store', name=s[1]))
            self.nodes[n - 1]['body'] = self.block(fn, s[3])
            return n
        if k == 'def':
            fid = self.function(s[1], [(p, []) for p in s[2]], s[3], s[4], fn)
            return self.node(fn, kind='def', f=fid)
        if k in ('pass', 'break', 'continue'):
            return self.node(fn, kind=k)
        raise ValueError(s)

    def function(self, name, params, nonlocals, body, parent):
        self.fns.append(dict(name=name, params=[], body=[], parent=parent, nonlocals=list(nonlocals), ptypes=[]))
        fid = len(self.fns)
        self.name(name)
        f = self.fns[fid - 1]
        f['params'] = [self.expr(fid, kind='param', name=p) for p, _ in params]
        f['ptypes'] = [ts for _, ts in params]
        for nm in nonlocals:
            self.name(nm)
        f['body'] = self.block(fid, body)
        return fid


def chain_targets(t):
    """The targets of an assignment statement, left to right (a list in the tree form = chained assignment)."""
    return list(t) if isinstance(t, list) else [t]


def target_names(t):
    out = []
    for x in chain_targets(t):
        out += [x] if isinstance(x, str) else list(x)
    return out


def _arity(p, e, out):
    x = p['exprs'][e - 1]
    for a in x['args']:
        _arity(p, a, out)
    if x['kind'] == 'ext' and len(EXTS[x['name']][0]) > 1:
        out.append(len(EXTS[x['name']][0]))


def batch(progs):
    """The JSON document TypeSem.tla loads: the programs plus the declarations of the external world."""
    return dict(progs=progs, exts=[dict(name=k, res=v[0]) for k, v in sorted(EXTS.items())],
                gvals=[dict(name=k, t=v) for k, v in sorted(GVALS.items())])


def flatten(tree):
    fl = _Flat()
    fl.function('f', tree['params'], [], tree['body'], 0)
    p = dict(names=fl.names, fns=fl.fns, nodes=fl.nodes, exprs=fl.exprs)
    for nm in GVALS:
        if nm not in p['names']:
            p['names'].append(nm)
    for d in p['nodes']:
        if d['e'] and d['kind'] not in ('if', 'while'):
            out = []
            _arity(p, d['e'], out)
            d['ch'] = out
    return p


# ------------------------------------------------------------------------------------------------
# tables -> Python source (plain: what malt analyses; instrumented: what CPython replays)
# ------------------------------------------------------------------------------------------------
_OPS = {'+': '+', '-': '-', '*': '*', '<': '<', '==': '==', 'not': 'not ', 'neg': '-'}


def r_expr(p, e, instr):
    x = p['exprs'][e - 1]
    k = x['kind']
    A = [r_expr(p, a, instr) for a in x['args']] if k != 'lcall' else None
    if k == 'lit':
        s = LIT[x['t']]
    elif k == 'name':
        s = x['name']
    elif k in ('bin', 'cmp'):
        s = '(%s %s %s)' % (A[0], _OPS[x['op']], A[1])
    elif k == 'un':
        s = '(%s%s)' % (_OPS[x['op']], A[0])
    elif k == 'list':
        s = '[%s]' % ', '.join(A)
    elif k == 'tuple':
        s = '(%s%s)' % (', '.join(A), ',' if len(A) == 1 else '')
    elif k == 'sub':
        s = '%s[%d]' % (A[0], x['k'])
    elif k == 'ext':
        s = '%s(%s)' % (x['name'], ', '.join(A))
    elif k == 'lcall':
        f = r_expr(p, x['args'][0], instr)
        s = '%s(%s)' % (f, ', '.join(r_expr(p, a, instr) for a in x['args'][1:]))
    else:
        raise ValueError(k)
    return '__o(%d, %s)' % (e, s) if instr else s


def _r_target(p, t):
    x = p['exprs'][t - 1]
    if x['kind'] == 'store':
        return x['name']
    return ', '.join(p['exprs'][a - 1]['name'] for a in x['args'])


def r_block(p, blk, ind, out, instr, pre=()):
    for line in pre:
        out.append('    ' * ind + line)
    for n in blk:
        r_stmt(p, n, ind, out, instr)


def r_stmt(p, n, ind, out, instr):
    d = p['nodes'][n - 1]
    s = '    ' * ind
    k = d['kind']
    E = lambda: r_expr(p, d['e'], instr)
    if k == 'assign':
        ts = [p['exprs'][t - 1] for t in d['tgts']]
        lhs = ' = '.join(_r_target(p, t) for t in d['tgts'])
        if not instr:
            out.append('%s%s = %s' % (s, lhs, E()))
        else:
            unpack = any(t['kind'] != 'store' for t in ts)
            out.append('%s%s = %s' % (s, lhs, '__h(%s)' % E() if unpack else E()))
            for tid, t in zip(d['tgts'], ts):                # the bindings happen left to right
                if t['kind'] == 'store':
                    out.append('%s__s(%d, %s)' % (s, tid, t['name']))
                else:
                    out.append('%s__sh(%d)' % (s, tid))
                    for a in t['args']:
                        out.append('%s__s(%d, %s)' % (s, a, p['exprs'][a - 1]['name']))
    elif k == 'aug':
        nm = p['exprs'][d['tgt'] - 1]['name']
        out.append('%s%s %s= %s' % (s, nm, d['op'], E()))
        if instr:
            out.append('%s__s(%d, %s)' % (s, d['tgt'], nm))
    elif k == 'expr':
        out.append(s + E())
    elif k == 'return':
        out.append('%sreturn %s' % (s, E()))
    elif k == 'if':
        out.append('%sif %s:' % (s, E()))
        r_block(p, d['body'], ind + 1, out, instr)
        if d['orelse']:
            out.append(s + 'else:')
            r_block(p, d['orelse'], ind + 1, out, instr)
    elif k == 'while':
        out.append('%swhile %s:' % (s, E()))
        r_block(p, d['body'], ind + 1, out, instr)
    elif k == 'for':
        nm = p['exprs'][d['tgt'] - 1]['name']
        out.append('%sfor %s in %s:' % (s, nm, E()))
        r_block(p, d['body'], ind + 1, out, instr, pre=['__s(%d, %s)' % (d['tgt'], nm)] if instr else ())
    elif k == 'def':
        r_function(p, d['f'], ind, out, instr)
    elif k in ('pass', 'break', 'continue'):
        out.append(s + k)
    else:
        raise ValueError(k)


def r_function(p, fid, ind, out, instr):
    f = p['fns'][fid - 1]
    s = '    ' * ind
    pn = [p['exprs'][a - 1]['name'] for a in f['params']]
    out.append('%sdef %s(%s):' % (s, f['name'], ', '.join(pn)))
    pre = []
    if f['nonlocals']:
        pre.append('nonlocal ' + ', '.join(f['nonlocals']))
    if instr:
        pre += ['__s(%d, %s)' % (a, nm) for a, nm in zip(f['params'], pn)]
    r_block(p, f['body'], ind + 1, out, instr, pre=pre)


def render(p, instr=False):
    out = []
    r_function(p, 1, 0, out, instr)
    return '\n'.join(out) + '\n'


# ------------------------------------------------------------------------------------------------
# the exhaustive small family: every block of <= n statements over 2 variables and 3 types
# ------------------------------------------------------------------------------------------------
FAM_VARS = ('x', 'y')
FAM_TYPES = ('int', 'float', 'str')


def _fam_atoms():
    out = []
    for v in FAM_VARS:
        for t in FAM_TYPES:
            out.append(('assign', v, ('lit', t)))
            out.append(('aug', v, '+', ('lit', t)))
    out.append(('assign', 'x', ('name', 'y')))
    out.append(('assign', 'y', ('name', 'x')))
    return out


def _fam_stmts(size, memo):
    """All statements that consist of exactly `size` statements (a compound counts itself plus its blocks)."""
    key = ('s', size)
    if key in memo:
        return memo[key]
    out = []
    if size == 1:
        out = _fam_atoms()
    else:
        for body in _fam_blocks(size - 1, memo):
            out.append(('if', 'cb', body, []))
            out.append(('while', 'cb', body))
            for v in FAM_VARS:
                for t in FAM_TYPES:
                    out.append(('for', v, ('list', [('lit', t)]), body))
        for nb in range(1, size - 1):
            for body in _fam_blocks(nb, memo):
                for orelse in _fam_blocks(size - 1 - nb, memo):
                    out.append(('if', 'cb', body, orelse))
    memo[key] = out
    return out


def _fam_blocks(size, memo):
    key = ('b', size)
    if key in memo:
        return memo[key]
    out = []
    for first in range(1, size + 1):
        for s in _fam_stmts(first, memo):
            if first == size:
                out.append([s])
            else:
                for rest in _fam_blocks(size - first, memo):
                    out.append([s] + rest)
    memo[key] = out
    return out


def family(n):
    """All programs  def f(x: int, y: float): <block of exactly n statements>; return (x, y)."""
    memo = {}
    for body in _fam_blocks(n, memo):
        yield dict(params=[('x', [['int']]), ('y', [['float']])],
                   body=list(body) + [('return', ('tuple', [('name', 'x'), ('name', 'y')]))])


def family_count(n):
    return len(_fam_blocks(n, {}))


# ------------------------------------------------------------------------------------------------
# the closure family: local functions reading / rebinding one captured variable, called directly and through
# a sibling, with type-changing statements between definition and calls - every combination
# ------------------------------------------------------------------------------------------------
def _L(t):
    return ('lit', t)


CLO_G1 = [
    [('return', ('name', 'x'))],
    [('assign', 'y', ('name', 'x')), ('return', ('name', 'y'))],
    ('x', [('assign', 'x', _L('float'))]),
    ('x', [('assign', 'y', ('name', 'x')), ('assign', 'x', _L('str')), ('return', ('name', 'y'))]),
    ('x', [('aug', 'x', '+', _L('float'))]),
]
CLO_G2 = [
    None,
    [('return', ('lcall', 'g1', []))],
    ('x', [('assign', 'x', _L('float')), ('return', ('lcall', 'g1', []))]),
    [('assign', 'y', ('lcall', 'g1', [])), ('return', ('name', 'x'))],
    ('x', [('return', ('lcall', 'g1', []))]),                                  # declares x nonlocal, only calls
    [('assign', 'x', _L('str')), ('return', ('lcall', 'g1', []))],            # a local x shadows the captured one
]
CLO_MAIN = [
    ('expr', ('lcall', 'g1', [])), ('assign', 'y', ('lcall', 'g1', [])), ('expr', ('lcall', 'g2', [])),
    ('assign', 'x', _L('float')), ('assign', 'x', _L('str')), ('aug', 'x', '+', _L('float')),
    ('for', 'x', ('list', [_L('float')]), [('pass',)]), ('if', 'cb', [('assign', 'x', _L('float'))], []),
]


def closure_family(maxlen=3):
    def fdef(name, spec):
        nl, body = (['x'], spec[1]) if isinstance(spec, tuple) else ([], spec)
        return ('def', name, [], nl, body)
    for g1 in CLO_G1:
        for g2 in CLO_G2:
            main = [m for m in CLO_MAIN if g2 is not None or m != ('expr', ('lcall', 'g2', []))]
            for n in range(1, maxlen + 1):
                for seq in itertools.product(main, repeat=n):
                    if not any(m[0] in ('expr', 'assign') and m[-1][0] == 'lcall' for m in seq):
                        continue                      # no call at all: covered by the plain family
                    body = [('assign', 'x', _L('int')), fdef('g1', g1)]
                    if g2 is not None:
                        body.append(fdef('g2', g2))
                    yield dict(params=[('a', [['int']])], body=body + list(seq) + [('return', ('name', 'x'))])


# ------------------------------------------------------------------------------------------------
# the branch family: a local function defined or REdefined inside a branch / loop body of varying length, called
# inside the branch and again after the join, the captured variable having another type at the second call
# ------------------------------------------------------------------------------------------------
def branch_family():
    g = lambda: ('def', 'g1', [], [], [('return', ('name', 'x'))])
    call = ('expr', ('lcall', 'g1', []))
    fill = [('assign', 'y', _L('int')), ('assign', 'z', _L('bool'))]
    for predef in (True, False):
        for kind in ('ifelse', 'if', 'while', 'for'):
            for before in range(3):
                for after in range(3):
                    for other in (range(3) if kind == 'ifelse' else (0,)):
                        for inside in (True, False):
                            for rebind in (('assign', 'x', _L('float')), ('assign', 'x', _L('str'))):
                                for last in (call, ('assign', 'y', ('lcall', 'g1', []))):
                                    blk = fill[:before] + [g()] + ([call] if inside else []) + fill[:after]
                                    if kind == 'ifelse':
                                        st = ('if', 'cb', fill[:other] or [('pass',)], blk)
                                    elif kind == 'if':
                                        st = ('if', 'cb', blk, [])
                                    elif kind == 'while':
                                        st = ('while', 'cb', blk)
                                    else:
                                        st = ('for', 'z', ('list', [_L('int'), _L('int')]), blk)
                                    body = [('assign', 'x', _L('int'))] + ([g()] if predef else []) + [st, rebind, last,
                                                                                                      ('return', ('name', 'x'))]
                                    yield dict(params=[('a', [['int']])], body=body)


# ------------------------------------------------------------------------------------------------
# the chained-assignment family: t1 = t2 = .. = value with every arrangement of name / tuple targets, values whose
# type is exact, a join, a tuple shape, polymorphic or unknown (bare list), straight / in a branch / in a loop,
# with and without typed previous bindings of the targets; every target is read afterwards
# ------------------------------------------------------------------------------------------------
CHN_VALUES = [
    ('tuple', [('name', 'a'), _L('str')]),            # a: int | float - a product of types
    ('tuple', [_L('int'), _L('float')]),
    ('ext', 'ep', []), ('ext', 'epp', []), ('ext', 'elf', []),
    ('tuple', [('name', 'x'), ('name', 'y')]),
]
CHN_TARGETS = [
    't', ('x', 'y'),
    ['t', ('x', 'y')], [('x', 'y'), 't'], ['t', 'u'], [('x', 'y'), ('z', 'u')], ['t', ('x', 'y'), 'u'],
    [('x', 'y'), 't', 'u'], [('x', 'y'), 't', ('z', 'u')], ['t', 'u', ('x', 'y')],
]
CHN_PRE = [
    [('assign', 'x', _L('int')), ('assign', 'y', _L('float')), ('assign', 'z', _L('int')), ('assign', 'u', _L('str')),
     ('assign', 't', _L('str'))],
    [('assign', 'x', _L('str')), ('assign', 'y', _L('int'))],
]


def chain_family():
    for pre in CHN_PRE:
        for value in CHN_VALUES:
            for tg in CHN_TARGETS:
                names = target_names(tg)
                st = ('assign', tg, value)
                tail = [('assign', 'v', ('name', 't'))] if 't' in names else []
                tail.append(('return', ('tuple', [('name', n) for n in names])))
                for kind in ('seq', 'if', 'while', 'for'):
                    if kind == 'seq':
                        body = [st]
                    elif kind == 'if':
                        body = [('if', 'cb', [st], [('assign', names[0], _L('bool'))])]
                    elif kind == 'while':
                        body = [('while', 'cb', [st, ('assign', 'w', ('name', names[-1]))])]
                    else:
                        body = [('for', 'w', ('list', [_L('int'), _L('int')]), [st])]
                    yield dict(params=[('a', [['int'], ['float']])], body=list(pre) + body + tail)


# ------------------------------------------------------------------------------------------------
# the parameter family: a local function whose parameters have the names of variables of the enclosing function
# (or not), read / copied / rebound / joined / captured by a function nested in it, called with arguments of the
# same and of other types than the hidden variables have, which are rebound between the calls
# ------------------------------------------------------------------------------------------------
PAR_PARAMS = [['x'], ['p'], ['y'], ['x', 'y'], ['p', 'x']]
PAR_ARGS = {1: [[_L('str')], [_L('float')], [('name', 'x')], [('name', 'y')]],
            2: [[_L('str'), _L('float')], [('name', 'x'), ('name', 'y')], [('name', 'y'), ('name', 'x')],
                [_L('float'), ('name', 'x')]]}


def _par_bodies(ps):
    q = ps[0]
    allp = ('name', q) if len(ps) == 1 else ('tuple', [('name', n) for n in ps])
    return [
        [('return', allp)],
        [('assign', 'v', ('name', q)), ('return', ('name', 'v'))],
        [('return', ('tuple', [('name', ps[-1]), ('name', 'z')]))],
        [('assign', q, _L('float')), ('return', allp)],
        [('if', 'cb', [('assign', q, _L('str'))], []), ('return', ('name', q))],
        [('def', 'h', [], [], [('return', ('name', q))]), ('return', ('lcall', 'h', []))],
    ]


def param_family(maxlen=2):
    for ps in PAR_PARAMS:
        calls = [('expr', ('lcall', 'g1', a)) for a in PAR_ARGS[len(ps)]]
        calls.append(('assign', 'w', ('lcall', 'g1', PAR_ARGS[len(ps)][0])))
        calls.append(('assign', 'w', ('lcall', 'g1', PAR_ARGS[len(ps)][2])))
        main = calls + [('assign', 'x', _L('str')), ('if', 'cb', [('assign', 'x', _L('float'))], [])]
        for gbody in _par_bodies(ps):
            for n in range(1, maxlen + 1):
                for seq in itertools.product(main, repeat=n):
                    if not any(m in calls for m in seq):
                        continue
                    body = [('assign', 'x', _L('int')), ('assign', 'y', _L('float')), ('assign', 'z', _L('bool')),
                            ('def', 'g1', list(ps), [], gbody)]
                    yield dict(params=[('a', [['int']])],
                               body=body + list(seq) + [('return', ('tuple', [('name', 'x'), ('name', 'y')]))])


# ------------------------------------------------------------------------------------------------
# random programs of the full class (closures, nonlocal, unpacking, external calls ...)
# ------------------------------------------------------------------------------------------------
class Gen:
    """Random programs, loosely type-directed (flow-insensitive guess of each variable's kind: num / str / seq /
    any) so that most executions run deep instead of stopping at the first TypeError; error paths are still
    generated on purpose with a small probability."""
    VARS = ['x', 'y', 'z']

    def __init__(self, rnd, size=10, rnd2=None):
        self.r = rnd
        self.r2 = rnd2 or random.Random(0)      # chained targets / parameter names: a stream of their own
        self.budget = size
        self.nfn = 0
        self.kinds = {}

    # ---- kinds -----------------------------------------------------------------------------
    def note(self, v, kind):
        self.kinds.setdefault(v, set()).add(kind)

    def vars_of(self, ctx, kind):
        return [v for v in ctx['vis'] if self.kinds.get(v) == {kind}]

    # ---- expressions ---------------------------------------------------------------------
    def num_atom(self, ctx):
        r = self.r.random()
        nv = self.vars_of(ctx, 'num')
        if r < 0.5 and nv:
            return ('name', self.r.choice(nv))
        if r < 0.75:
            return ('lit', self.r.choice(['int', 'float', 'int', 'float', 'bool']))
        if r < 0.9:
            return ('ext', self.r.choice(['ei', 'ef', 'eb', 'enum']), [])
        return ('name', self.r.choice(['GI', 'GF']))

    def num_expr(self, ctx, depth=0):
        r = self.r.random()
        if depth >= 2 or r < 0.5:
            return self.num_atom(ctx)
        if r < 0.85:
            return ('bin', self.r.choice(['+', '+', '-', '*']), self.num_expr(ctx, depth + 1), self.num_expr(ctx, depth + 1))
        if r < 0.92:
            return ('un', 'neg', self.num_expr(ctx, depth + 1))
        return ('ext', self.r.choice(['eid', 'efl']), [self.num_expr(ctx, depth + 1)])

    def str_expr(self, ctx, depth=0):
        r = self.r.random()
        sv = self.vars_of(ctx, 'str')
        if r < 0.35 and sv:
            return ('name', self.r.choice(sv))
        if r < 0.6 or depth >= 1:
            return self.r.choice([('lit', 'str'), ('ext', 'es', []), ('name', 'GS')])
        if r < 0.85:
            return ('bin', '+', self.str_expr(ctx, depth + 1), self.str_expr(ctx, depth + 1))
        return ('bin', '*', self.str_expr(ctx, depth + 1), ('lit', 'int'))

    def bool_expr(self, ctx):
        r = self.r.random()
        if r < 0.5:
            return ('cmp', self.r.choice(['<', '==']), self.num_expr(ctx, 1), self.num_expr(ctx, 1))
        if r < 0.7:
            return ('cmp', '==', self.any_atom(ctx), self.any_atom(ctx))
        if r < 0.85:
            return ('un', 'not', self.any_atom(ctx))
        return ('cmp', '<', self.str_expr(ctx, 1), self.str_expr(ctx, 1))

    def any_atom(self, ctx):
        r = self.r.random()
        if r < 0.6 and ctx['vis']:
            return ('name', self.r.choice(ctx['vis']))
        if r < 0.8:
            return ('lit', self.r.choice(PRIMS))
        return ('ext', self.r.choice(['eis', 'enum', 'es', 'ei']), [])

    def seq_expr(self, ctx):
        """(expr, number of elements or None, kind of the elements or 'any')"""
        r = self.r.random()
        sv = self.vars_of(ctx, 'seq')
        if r < 0.15 and sv:
            return ('name', self.r.choice(sv)), None, 'any'
        if r < 0.55:
            n = self.r.choice([0, 1, 1, 2, 2, 3])
            k = self.r.choice(['list', 'tuple'])
            if n == 0 and k == 'tuple':
                n = 1
            if self.r.random() < 0.6:
                return (k, [self.num_atom(ctx) for _ in range(n)]), n, 'num'
            return (k, [self.any_atom(ctx) for _ in range(n)]), n, 'any'
        name = self.r.choice(['el', 'elf', 'ep', 'epp', 'et3'])
        n = {'el': None, 'elf': 2, 'ep': 2, 'epp': 2, 'et3': 3}[name]
        return ('ext', name, []), n, ('num' if name in ('elf', 'et3') else 'any')

    def any_expr(self, ctx):
        """(expr, kind)"""
        r = self.r.random()
        if r < 0.40:
            return self.num_expr(ctx), 'num'
        if r < 0.55:
            return self.str_expr(ctx), 'str'
        if r < 0.65:
            return self.seq_expr(ctx)[0], 'seq'
        if r < 0.75:
            return self.bool_expr(ctx), 'num'
        if r < 0.90 and ctx['vis']:
            v = self.r.choice(ctx['vis'])
            ks = self.kinds.get(v, {'any'})
            return ('name', v), (next(iter(ks)) if len(ks) == 1 else 'any')
        if r < 0.94:
            e, n, _ = self.seq_expr(ctx)
            return ('sub', e, self.r.randint(0, 1)), 'any'
        if r < 0.97:
            a, _, _ = self.seq_expr(ctx)
            b, _, _ = self.seq_expr(ctx)
            return ('bin', '+', a, b), 'seq'
        return ('bin', self.r.choice(['+', '-', '*']), self.any_atom(ctx), self.any_atom(ctx)), 'any'   # error paths

    # ---- statements ---------------------------------------------------------------------
    def block(self, ctx, lo=1, hi=3):
        out = []
        for _ in range(self.r.randint(lo, hi)):
            if self.budget <= 0 and out:
                break
            for s in self.stmts(ctx):
                out.append(s)
            if out[-1][0] in ('return', 'break', 'continue'):
                break
        return out or [('pass',)]

    def _bind(self, ctx, v, kind):
        self.note(v, kind)
        if v not in ctx['vis']:
            ctx['vis'].append(v)
        if v not in ctx['mine'] and v not in ctx['nonlocals']:
            ctx['mine'].append(v)

    def call_stmt(self, ctx, g, ar):
        call = ('lcall', g, [self.any_expr(ctx)[0] for _ in range(ar)])
        q = self.r.random()
        if q < 0.5:
            return ('expr', call)
        if q < 0.92:
            v = self.r.choice(self.VARS)
            self._bind(ctx, v, 'any')
            return ('assign', v, call)
        return ('return', call)

    def stmts(self, ctx):
        """One statement (a def may bring its call along)."""
        self.budget -= 1
        r = self.r.random()
        deep = ctx['depth'] >= 2
        tgt = lambda: self.r.choice(self.VARS)
        if r < 0.28 or (deep and r < 0.6):
            v = tgt()
            e, k = self.any_expr(ctx)
            s = ('assign', v, e)
            self._bind(ctx, v, k)
            if self.r2.random() < 0.12:                 # v = v2 = e / v2 = v = e
                v2 = self.r2.choice([n for n in self.VARS + ['w'] if n != v])
                self._bind(ctx, v2, k)
                s = ('assign', [v, v2] if self.r2.random() < 0.5 else [v2, v], e)
            return [s]
        if r < 0.38:
            nv, sv = self.vars_of(ctx, 'num'), self.vars_of(ctx, 'str')
            q = self.r.random()
            if q < 0.7 and nv:
                return [('aug', self.r.choice(nv), self.r.choice(['+', '+', '-', '*']), self.num_expr(ctx, 1))]
            if q < 0.85 and sv:
                return [('aug', self.r.choice(sv), '+', self.str_expr(ctx, 1))]
            if ctx['vis']:
                return [('aug', self.r.choice(ctx['vis']), '+', self.any_expr(ctx)[0])]
            return [('pass',)]
        if r < 0.45:
            e, n, ek = self.seq_expr(ctx)
            cnt = n if (n in (2, 3) and self.r.random() < 0.9) else self.r.randint(2, 3)
            vs = tuple(self.r.sample(self.VARS, cnt))
            for v in vs:
                self._bind(ctx, v, ek)
            if self.r2.random() < 0.35:                 # a, b = t = e / t = a, b = e
                v2 = self.r2.choice([n for n in self.VARS + ['w'] if n not in vs])
                self._bind(ctx, v2, 'seq')
                return [('assign', [vs, v2] if self.r2.random() < 0.6 else [v2, vs], e)]
            return [('assign', vs, e)]
        if r < 0.55 and not deep:
            sub = dict(ctx, depth=ctx['depth'] + 1)
            body = self.block(sub)
            orelse = self.block(sub) if self.r.random() < 0.5 else []
            return [('if', self.r.choice(['cb', 'cb', 'cn', 'ct']), body, orelse)]
        if ctx['inloop'] and r < 0.72 and self.r.random() < 0.85:
            return self.stmts_again(ctx)                    # (mostly) no loops inside loops: paths explode
        if r < 0.62 and not deep:
            return [('while', self.r.choice(['cb', 'cb', 'cn', 'ct']),
                     self.block(dict(ctx, depth=ctx['depth'] + 1, inloop=True)))]
        if r < 0.72 and not deep:
            v = tgt()
            it, _, ek = self.seq_expr(ctx)
            self._bind(ctx, v, ek)
            return [('for', v, it, self.block(dict(ctx, depth=ctx['depth'] + 1, inloop=True)))]
        if r < 0.82 and ctx['fdepth'] < 2 and self.nfn < 3:
            d = self.fdef(ctx)
            out = [d]
            if self.r.random() < 0.65:
                if self.r.random() < 0.4:          # something happens between definition and call
                    v = tgt()
                    e, k = self.any_expr(ctx)
                    out.append(('assign', v, e))
                    self._bind(ctx, v, k)
                out.append(self.call_stmt(ctx, d[1], len(d[2])))
            return out
        if r < 0.92 and ctx['fns']:
            g, ar = self.r.choice(ctx['fns'])
            return [self.call_stmt(ctx, g, ar)]
        if r < 0.95 and ctx['inloop']:
            return [(self.r.choice(['break', 'continue']),)]
        if r < 0.97:
            return [('return', self.any_expr(ctx)[0])]
        if r < 0.985:
            return [('expr', ('ext', 'eid', [self.num_expr(ctx, 1)]))]
        return [('pass',)]

    def stmts_again(self, ctx):
        self.budget += 1
        return self.stmts(ctx)

    def fdef(self, ctx):
        self.nfn += 1
        name = 'g%d' % self.nfn
        params = ['p'] if self.r.random() < 0.3 else []
        hide = sorted({v for v in ctx['mine'] + ctx['outer'] if v in self.VARS + ['a', 'b', 'w']})
        if params and hide and self.r2.random() < 0.5:      # the parameter hides a variable of an enclosing function
            params = [self.r2.choice(hide)]
        mine = [(g, ar) for g, ar in ctx['fns'] if g in ctx['mine']]
        redefine = bool(mine) and ctx['depth'] > 0 and self.r.random() < 0.4
        if redefine:                                  # a second definition of the same name on some path
            name, ar = self.r.choice(mine)
            params = ['p'] * ar
        cand = sorted({v for v in ctx['mine'] + ctx['outer'] if v in self.VARS or v in ('a', 'b')} - set(params))
        nl = []
        if cand and self.r.random() < 0.6:
            nl = self.r.sample(cand, self.r.randint(1, min(2, len(cand))))
        sub = dict(vis=list(ctx['vis']) + params, fns=list(ctx['fns']), inloop=False, depth=ctx['depth'] + 1,
                   fdepth=ctx['fdepth'] + 1, mine=list(params), outer=sorted(set(ctx['mine'] + ctx['outer'])),
                   nonlocals=nl)
        for q in params:
            self.note(q, 'any')
        body = []
        for v in nl:                                 # a nonlocal declaration is there to rebind
            if self.r.random() < 0.8:
                e, k = self.any_expr(sub)
                body.append(('assign', v, e))
                self._bind(sub, v, k)
        body += self.block(sub, 1, 2)
        if body[-1][0] not in ('return', 'break', 'continue') and self.r.random() < 0.5:
            body.append(('return', self.any_expr(sub)[0]))
        if not redefine:
            ctx['fns'].append((name, len(params)))
        if name not in ctx['mine']:
            ctx['mine'].append(name)
        return ('def', name, params, nl, body)


def random_program(seed, size=10):
    rnd = random.Random(seed)
    g = Gen(rnd, size, random.Random(seed * 31 + 7))
    np_ = rnd.randint(1, 2)
    params = [(nm, rnd.choice(PTYPES)) for nm in ['a', 'b'][:np_]]
    ctx = dict(vis=[nm for nm, _ in params], fns=[], inloop=False, depth=0, fdepth=0,
               mine=[nm for nm, _ in params], outer=[], nonlocals=[])
    for nm, ts in params:
        heads = {t[0] for t in ts}
        g.note(nm, 'num' if heads <= {'int', 'float', 'bool'} else 'str' if heads == {'str'}
               else 'seq' if heads <= {'list', 'tuple'} else 'any')
    body = []
    for v in rnd.sample(Gen.VARS, rnd.randint(1, 2)):       # start with typed initialisations
        e, k = g.any_expr(ctx)
        body.append(('assign', v, e))
        g._bind(ctx, v, k)
    while g.budget > 0:
        ss = g.stmts(ctx)
        body += ss
        if ss[-1][0] == 'return':
            break
    if body[-1][0] != 'return':
        vs = list(ctx['vis'])
        rnd.shuffle(vs)
        body.append(('return', ('tuple', [('name', v) for v in vs[:3]]) if len(vs) > 1 else ('name', vs[0])))
    return dict(params=params, body=body)


# ------------------------------------------------------------------------------------------------
# shrinking: all one-step reductions of a tree
# ------------------------------------------------------------------------------------------------
def _expr_reductions(e):
    k = e[0]
    if k in ('bin', 'cmp'):
        yield e[2]
        yield e[3]
        for x in _expr_reductions(e[2]):
            yield (k, e[1], x, e[3])
        for x in _expr_reductions(e[3]):
            yield (k, e[1], e[2], x)
    elif k == 'un':
        yield e[2]
        for x in _expr_reductions(e[2]):
            yield (k, e[1], x)
    elif k in ('list', 'tuple'):
        for i in range(len(e[1])):
            if len(e[1]) > 1 or k == 'list':
                yield (k, e[1][:i] + e[1][i + 1:])
            for x in _expr_reductions(e[1][i]):
                yield (k, e[1][:i] + [x] + e[1][i + 1:])
    elif k == 'sub':
        for x in _expr_reductions(e[1]):
            yield ('sub', x, e[2])
    elif k in ('ext', 'lcall'):
        if k == 'ext' and e[2]:
            yield e[2][0]
        for i in range(len(e[2])):
            for x in _expr_reductions(e[2][i]):
                yield (k, e[1], e[2][:i] + [x] + e[2][i + 1:])


def _stmt_reductions(s):
    """Replacement *lists* for one statement."""
    k = s[0]
    yield []
    if k == 'assign':
        for x in _expr_reductions(s[2]):
            yield [('assign', s[1], x)]
        if s[2][0] == 'lcall':
            yield [('expr', s[2])]
        if isinstance(s[1], list) and len(s[1]) > 1:          # a chained assignment loses one target
            for i in range(len(s[1])):
                rest = s[1][:i] + s[1][i + 1:]
                yield [('assign', rest if len(rest) > 1 else rest[0], s[2])]
    elif k == 'aug':
        for x in _expr_reductions(s[3]):
            yield [('aug', s[1], s[2], x)]
    elif k in ('expr', 'return'):
        for x in _expr_reductions(s[1]):
            yield [(k, x)]
    elif k == 'if':
        yield list(s[2])
        if s[3]:
            yield list(s[3])
            yield [('if', s[1], s[2], [])]
        for b in _block_reductions(s[2]):
            if b:
                yield [('if', s[1], b, s[3])]
        for b in _block_reductions(s[3]):
            yield [('if', s[1], s[2], b)]
    elif k == 'while':
        yield list(s[2])
        yield [('if', s[1], s[2], [])]
        for b in _block_reductions(s[2]):
            if b:
                yield [('while', s[1], b)]
    elif k == 'for':
        yield list(s[3])
        for x in _expr_reductions(s[2]):
            yield [('for', s[1], x, s[3])]
        for b in _block_reductions(s[3]):
            yield [('for', s[1], s[2], b or [('pass',)])]
    elif k == 'def':
        for i in range(len(s[3])):
            yield [('def', s[1], s[2], s[3][:i] + s[3][i + 1:], s[4])]
        for b in _block_reductions(s[4]):
            yield [('def', s[1], s[2], s[3], b or [('pass',)])]


def _block_reductions(blk):
    for i, s in enumerate(blk):
        for rep in _stmt_reductions(s):
            yield blk[:i] + rep + blk[i + 1:]


def _valid(tree):
    """Reject reductions that leave the language: break/continue outside a loop, nonlocal without a binding,
    calls of functions whose arity changed are fine (TypeError is part of the semantics)."""
    def binds(body, acc):
        for s in body:
            if s[0] == 'assign':
                acc.update(target_names(s[1]))
            elif s[0] in ('aug', 'for', 'def'):
                acc.add(s[1])
            if s[0] == 'if':
                binds(s[2], acc)
                binds(s[3], acc)
            elif s[0] == 'while':
                binds(s[2], acc)
            elif s[0] == 'for':
                binds(s[3], acc)
        return acc

    def ok(body, inloop, enclosing):
        for s in body:
            if s[0] in ('break', 'continue') and not inloop:
                return False
            if s[0] == 'assign' and len(set(target_names(s[1]))) != len(target_names(s[1])):
                return False
            if s[0] == 'if' and not (ok(s[2], inloop, enclosing) and ok(s[3], inloop, enclosing)):
                return False
            if s[0] == 'while' and not ok(s[2], True, enclosing):
                return False
            if s[0] == 'for' and not ok(s[3], True, enclosing):
                return False
            if s[0] == 'def':
                if any(nm not in enclosing for nm in s[3]) or any(nm in s[2] for nm in s[3]):
                    return False
                mine = (binds(s[4], set(s[2])) - set(s[3])) | enclosing
                if not ok(s[4], False, mine):
                    return False
        return True
    top = binds(tree['body'], {nm for nm, _ in tree['params']})
    return bool(tree['body']) and ok(tree['body'], False, top)


def reductions(tree):
    seen = set()
    for b in _block_reductions(tree['body']):
        t = dict(params=tree['params'], body=b)
        if _valid(t):
            key = repr(t)
            if key not in seen:
                seen.add(key)
                yield t
    for i, (nm, ts) in enumerate(tree['params']):
        if len(ts) > 1:
            for t1 in ts:
                yield dict(params=tree['params'][:i] + [(nm, [t1])] + tree['params'][i + 1:], body=tree['body'])


def size(tree):
    def sz(body):
        n = 0
        for s in body:
            n += 1 + len(repr(s)) / 1000.0
            if s[0] == 'if':
                n += sz(s[2]) + sz(s[3])
            elif s[0] == 'while':
                n += sz(s[2])
            elif s[0] == 'for':
                n += sz(s[3])
            elif s[0] == 'def':
                n += sz(s[4])
        return n
    return sz(tree['body'])
