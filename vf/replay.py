"""Replay of specification executions into functions converted by the real malt (C01, C03, C04, C11, C17).

Each program is rendered to a module file under /verif/build, imported, converted (malt.to_graph or the
malt.convert decorator, with the option set under test) and then every execution TLC produced for it is
replayed: same decision vector, fresh tracer world, outcome and effect log compared with the prediction.
"""
import os
import sys
import importlib.util
import multiprocessing

from . import common, minipy as mp

OPTION_SETS = [
    dict(name='to_graph', entry='to_graph', recursive=True, features=()),
    dict(name='to_graph:nonrecursive', entry='to_graph', recursive=False, features=()),
    dict(name='to_graph:builtins+eq', entry='to_graph', recursive=True, features=('BUILTIN_FUNCTIONS', 'EQUALITY_OPERATORS')),
    dict(name='convert', entry='convert', recursive=True, features=()),
    dict(name='convert:nonrecursive+eq', entry='convert', recursive=False, features=('EQUALITY_OPERATORS',)),
]
# the LISTS feature is claimed only "for list operations on local variables and parameters": programs that keep a list
LISTS_OPTION = dict(name='to_graph:lists', entry='to_graph', recursive=True, features=('LISTS',), only_lists=True)


def load_module(p, pid, wd, src=None):
    src = src if src is not None else mp.render(p)[0]
    name = 'vfprog_%d_%d' % (os.getpid(), pid)
    path = os.path.join(wd, name + '.py')
    with open(path, 'w') as f:
        f.write(src)
    spec = importlib.util.spec_from_file_location(name, path)
    m = importlib.util.module_from_spec(spec)
    spec.loader.exec_module(m)
    from malt.lang import directives
    m.set_loop_options = directives.set_loop_options      # resolved statically by the directives converter
    return m


def convert_fn(fn, opt):
    import malt
    from malt.core import converter
    feats = tuple(converter.Feature[x] for x in opt['features']) or None
    if opt['entry'] == 'to_graph':
        return malt.to_graph(fn, recursive=opt['recursive'], experimental_optional_features=feats)
    return malt.convert(recursive=opt['recursive'], optional_features=feats)(fn)


_marked = False


def world(decisions, module):
    """Fresh tracer world bound into the module's globals; tracers are autograph artifacts (never converted)."""
    global _marked
    from malt.impl import api
    run = mp.Run(decisions)
    if not _marked:
        for nm in ('T', 'D', 'I', 'I2', 'CM', 'O', 'KV', 'DEC'):
            api.autograph_artifact(getattr(run, nm))     # marks the underlying function objects once
        _marked = True
    for k, v in run.ns().items():
        if k != 'set_loop_options':
            setattr(module, k, v)
    return run


def reset_globals(module, p):
    """The module-level variables start every run with their own tokens (or unbound if the run before deleted them)."""
    for k, v in mp.global_tokens(p).items():
        setattr(module, k, v)


class RunTimeout(BaseException):
    """A converted function (or a conversion) that does not come back: reported, never waited for."""


_ARMED = [False]


def _on_alarm(*a):
    # a signal that was already on its way when the timer was cancelled must not hit whatever runs next
    if _ARMED[0]:
        _ARMED[0] = False
        raise RunTimeout()


RUN_SECONDS = 5.0          # CPU seconds of the worker (ITIMER_PROF: a loaded machine cannot cause a timeout); every
                           # specification execution is a few dozen steps, the original runs in microseconds
CONVERT_SECONDS = 60.0


def observe(module, fn, p, decisions, recorder=None, inp=None):
    """One run of fn in a fresh tracer world.  A run that exceeds its CPU budget is repeated once with a budget twelve times
    as large before it is reported as not terminating: the first call of a module-level callee converts it on the spot, and
    on a cold machine that conversion has been seen to take more than the budget of a run (a check run in a fresh sandbox
    reported a timeout that no other run of the same execution reproduced)."""
    import signal
    signal.signal(signal.SIGPROF, _on_alarm)
    for budget in (RUN_SECONDS, 12 * RUN_SECONDS):
        run = world(decisions, module)
        reset_globals(module, p)
        if recorder is not None:
            recorder.run = run
            del recorder.calls[:]
            del recorder.events[:]
            recorder.counts = {}
        signal.setitimer(signal.ITIMER_PROF, budget)
        _ARMED[0] = True
        try:
            try:
                out = mp.outcome(fn, mp.main_args(p, inp))
            finally:
                _ARMED[0] = False
                signal.setitimer(signal.ITIMER_PROF, 0)
            break
        except RunTimeout:
            out = ['timeout', 'no result after %g s of CPU time (and none after %g s before)' % (budget, RUN_SECONDS)]
    return dict(log=run.log, out=out, used=run.di, gl=mp.globals_now(p, module))


def embeds(expected, observed):
    """expected (list of [op, loglen]) is a subsequence of observed."""
    i = 0
    for e in observed:
        if i < len(expected) and list(e) == list(expected[i]):
            i += 1
    return i == len(expected)


def code_of(conv):
    import inspect
    out = {}
    for name, g in conv.items():
        if g is None or hasattr(g, '__wrapped__'):
            # the malt.convert decorator returns a wrapper that converts when it is called: inspect.getsource would
            # follow __wrapped__ to the user's own source, which is not generated code
            continue
        try:
            out[name] = inspect.getsource(g)
        except Exception as e:
            out[name] = None
    return out


def agree(rec, res):
    """The C01 observation rule. Returns None if the converted run matches the prediction, else a short reason."""
    exp = mp.spec_outcome(rec)
    if exp[0] == 'ret':
        if res['out'] != exp:
            return 'outcome'
        if res['log'] != rec['log']:
            return 'effects'
        if res['used'] != len(rec['dec']):
            return 'decisions'
        if res.get('gl', []) != rec.get('gl', []):
            return 'globals'      # what the module-level variables hold when the function has returned
        return None
    # an exception escapes: its type, and the effects up to the raise.  When a finally block ran while the exception was
    # propagating, what that block does is outside the guarantee - in the converted function it may raise an exception of
    # its own - so only "some exception escapes" is required then.
    if res['out'] != exp and not (rec.get('finx') and res['out'][0] == 'exc'):
        return 'outcome'
    k = rec['xlog']
    if res['log'][:k] != rec['log'][:k]:
        return 'effects-before-raise'
    return None


_SHARED = {}


def _replay_chunk(args):
    if len(args) == 2:      # (worker index, work directory): programs and options reach the worker through the fork, its
        # share of the execution records through a file (touching the parent's 10^6 record objects from 14 workers
        # copies the parent's heap 14 times: reference counts live in the objects)
        import json as _json
        with open(os.path.join(args[1], 'part_%d.json' % args[0])) as _f:
            recs = _json.load(_f)
        progs, opts, wdroot = _SHARED['progs'], _SHARED['opts'], args[1]
    else:
        progs, recs, opts, wdroot = args
    common.use_repo()
    recorder = None
    if any(o.get('ops') for o in opts):
        from . import ops as ops_mod
        from malt.impl import api
        recorder = ops_mod.Recorder(probe=any(o.get('ops') == 'probe' for o in opts))
        ag = api._TRANSPILER.get_extra_locals()['ag__']
        ops_mod.install(ag, recorder)
    opcalls = {}
    routing = []
    namer_calls = {}
    record_namer = any(o.get('namer') for o in opts)
    if record_namer:
        from malt.pyct import naming
        orig_new_symbol = naming.Namer.new_symbol
        current = {'pid': None}

        def spy(self, name_root, reserved_locals):
            res = orig_new_symbol(self, name_root, reserved_locals)
            flat = set()
            for x in reserved_locals:
                flat.update(getattr(x, 'qn', None) or [str(x)]) if not isinstance(x, str) else flat.add(x)
            fname = ''
            fr = sys._getframe(1)
            while fr is not None:
                if fr.f_code.co_name == 'visit_FunctionDef' and hasattr(fr.f_locals.get('node'), 'name'):
                    fname = fr.f_locals['node'].name
                    break
                fr = fr.f_back
            namer_calls.setdefault(current['pid'], []).append([name_root, sorted(str(y) for y in flat), res, fname])
            return res
        naming.Namer.new_symbol = spy
    import logging
    wd = os.path.join(wdroot, 'w%d' % os.getpid())
    os.makedirs(wd, exist_ok=True)
    sys.setrecursionlimit(3000)
    # the convert() wrapper falls back to the unconverted function when the conversion fails (with a warning): that
    # would hide a conversion failure behind a correct result, so the warning is a conversion error here
    from malt.utils import ag_logging
    from malt.impl import api as _api, conversion as _conv
    fallback = []

    def _warn(msg, *a, **k):
        try:
            text = msg % a if a else str(msg)
        except Exception:
            text = str(msg)
        fallback.append(text)
    ag_logging.warning = _warn
    out = []          # divergences
    n = 0
    conv_errors = []
    cache = {}
    for rec in recs:
        pid = rec['pid']
        p = progs[pid - 1]
        if pid not in cache:
            m = load_module(p, pid, wd)
            fn = getattr(m, p['fns'][0]['name'])
            conv = {}
            for o in opts:
                if (o.get('only_lists') and not p.get('lists')) or (o.get('every') and pid % o['every']):
                    conv[o['name']] = None       # this option set is exercised on a slice of the batch only
                    continue
                if record_namer:
                    current['pid'] = pid
                import signal
                signal.signal(signal.SIGPROF, _on_alarm)
                signal.setitimer(signal.ITIMER_PROF, CONVERT_SECONDS)
                _ARMED[0] = True
                try:
                    try:
                        conv[o['name']] = convert_fn(fn, o)
                    finally:
                        _ARMED[0] = False
                        signal.setitimer(signal.ITIMER_PROF, 0)
                except RunTimeout:
                    conv[o['name']] = None
                    conv_errors.append(dict(pid=pid, opt=o['name'], error='Timeout: conversion did not finish within %g s' % CONVERT_SECONDS))
                except Exception as e:   # conversion must succeed for every program of the class
                    conv[o['name']] = None
                    conv_errors.append(dict(pid=pid, opt=o['name'], error='%s: %s' % (type(e).__name__, str(e)[:300])))
            cache[pid] = (m, conv)
        m, conv = cache[pid]
        if rec.get('oc'):
            continue
        for o in opts:
            g = conv[o['name']]
            if g is None or o.get('norun'):
                continue
            if recorder is not None:
                del recorder.calls[:]
                del recorder.events[:]
                recorder.counts = {}
            del fallback[:]
            res = observe(m, g, p, rec['dec'], recorder, inp=rec.get('inp'))
            n += 1
            if fallback and 'could not transform' in fallback[0]:
                conv_errors.append(dict(pid=pid, opt=o['name'], error='ConversionFallback: ' + ' '.join(fallback[0].split())[:300]))
            if recorder is not None:
                for c in recorder.calls:
                    c['pid'] = pid
                    k = repr(sorted((kk, repr(vv)) for kk, vv in c.items()))
                    if k in opcalls:
                        opcalls[k]['count'] += 1
                    else:
                        c['count'] = 1
                        c['dec'] = rec['dec']
                        c['opt'] = o['name']
                        opcalls[k] = c
                res['counts'] = dict(recorder.counts)
                # when an exception escapes, only what happened before the raise is guaranteed (finally blocks that run
                # while it propagates are outside the guarantee): compare the events issued before the raise point
                exp_events = rec.get('ulog', [])
                if rec['out'][0] == 'exc':
                    exp_events = [e for e in exp_events if e[1] < rec['xlog']]
                # events inside module-level callees (flag 1) exist only when the callee is converted as well
                # ... and method calls on lists (flag 2) only when the LISTS feature does not turn them into list operators
                exp_events = [e[:2] for e in exp_events if len(e) < 3 or e[2] == 0 or (e[2] == 1 and o['recursive'])
                              or (e[2] == 2 and 'LISTS' not in o['features'])]
                if 'ulog' in rec and agree(rec, res) is None and not embeds(exp_events, recorder.events):
                    routing.append(dict(pid=pid, dec=rec['dec'], opt=o['name'], expected=exp_events,
                                        observed=[list(e) for e in recorder.events]))
            why = agree(rec, res)
            if why:
                out.append(dict(pid=pid, dec=rec['dec'], opt=o['name'], why=why, expected=mp.spec_outcome(rec),
                                observed=res['out'], exp_log=rec['log'], obs_log=res['log'], bad=rec.get('bad', ''),
                                exp_gl=rec.get('gl', []), obs_gl=res.get('gl', [])))
    if record_namer:
        naming.Namer.new_symbol = orig_new_symbol
    return dict(div=out, n=n, conv_errors=conv_errors, opcalls=list(opcalls.values()), routing=routing, namer=namer_calls,
                codes={pid: code_of(conv) for pid, (m, conv) in cache.items()} if any(o.get('code') for o in opts) else {})


def replay_all(progs, recs, opts, procs=14, chunk=1500, name='replay'):
    wdroot = common.scratch('%s_%d' % (name, os.getpid()))
    bypid = {}
    for r in recs:
        bypid.setdefault(r['pid'], []).append(r)
    nparts = max(1, min(procs, len(bypid)))
    parts = [[] for _ in range(nparts)]
    for i, pid in enumerate(sorted(bypid)):      # all executions of one program go to one worker (conversion is per process)
        parts[i % nparts].extend(bypid[pid])
    # keep executions of one program in one chunk where possible (conversion is per process)
    import gc
    import json as _json
    for k, part in enumerate(parts):
        with open(os.path.join(wdroot, 'part_%d.json' % k), 'w') as f:
            _json.dump(part, f)
    nparts_ = len(parts)
    del parts, bypid
    _SHARED.update(progs=progs, opts=opts)
    gc.collect()
    gc.freeze()          # the collector of a forked worker must not write into the parent's objects either
    try:
        with multiprocessing.get_context('fork').Pool(min(procs, max(1, nparts_))) as pool:
            results = pool.map(_replay_chunk, [(k, wdroot) for k in range(nparts_)])
    finally:
        gc.unfreeze()
        _SHARED.clear()
    common.rmtree(wdroot)
    div = [d for r in results for d in r['div']]
    n = sum(r['n'] for r in results)
    errs = {}
    for r in results:
        for e in r['conv_errors']:
            errs[(e['pid'], e['opt'])] = e
    replay_all.opcalls = [c for r in results for c in r.get('opcalls', [])]
    replay_all.routing = [c for r in results for c in r.get('routing', [])]
    replay_all.namer = {}
    for r in results:
        replay_all.namer.update(r.get('namer', {}))
    replay_all.codes = {}
    for r in results:
        replay_all.codes.update(r.get('codes', {}))
    return div, n, list(errs.values())
