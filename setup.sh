#!/bin/sh
# Offline setup: parse every specification with SANY and byte-compile the harness. No network, no /tmp.
cd "$(dirname "$0")" || exit 2
mkdir -p build evidence
rc=0
for f in spec/*.tla; do
  out=$(cd spec && java -cp /opt/veriftools/tla/tla2tools.jar:/opt/veriftools/tla/CommunityModules-deps.jar tla2sany.SANY "$(basename "$f")" 2>&1)
  if echo "$out" | grep -Eq 'Semantic errors|Parse Error|Fatal errors|\*\*\* Errors|Could not'; then
    echo "SANY FAILED: $f"; echo "$out" | tail -20; rc=1
  fi
done
PYTHONDONTWRITEBYTECODE=1 /venv/bin/python - <<'PY' || rc=1
import ast, glob, sys
bad = 0
for p in glob.glob('vf/**/*.py', recursive=True):
    try:
        ast.parse(open(p).read(), p)
    except SyntaxError as e:
        print('SYNTAX', p, e); bad = 1
sys.exit(bad)
PY
[ $rc -eq 0 ] && echo "setup ok"
exit $rc
