---------------------------- MODULE SourceLayout ----------------------------
(***************************************************************************)
(* Input-space model for property C15 (source recovery), part 1:           *)
(* a function definition as a sequence of PHYSICAL LINES.                  *)
(*                                                                         *)
(* The state machine writes one physical line per step, the way a person   *)
(* types a file top-down (leftmost choice: the sequence of lines IS the    *)
(* derivation, so every layout has exactly one derivation):                *)
(*                                                                         *)
(*   AddCtx*  ->  AddDeco*  ->  signature  ->  body lines ...  ->  Finish  *)
(*                                                                         *)
(* and tracks, like Python's lexer, the state between lines:               *)
(*   mode.m = "stmt"  at a logical-line boundary                           *)
(*            "cont"  the previous line ended in a backslash continuation  *)
(*            "str"   inside a (triple- or single-quoted) string literal   *)
(*            "sig"   inside the parentheses / continuation of the header  *)
(*   lvl, need        block level inside the body and "a block was opened  *)
(*                    and still needs its first statement"                 *)
(*                                                                         *)
(* (a) well-formedness  = the guards of the actions;                       *)
(* (b) logical structure= `logical` (which physical lines form which       *)
(*     logical statement, at which block level) and `strs` (the value of   *)
(*     every string literal according to the lexical rules: newline kept,  *)
(*     backslash-newline removed except in raw strings, leading white      *)
(*     space of interior lines is content);                                *)
(* (c) correct dedent   = field `ded` of every line: the enclosing         *)
(*     indentation is removed from every line that starts or continues a   *)
(*     logical line outside a string; lines inside a string literal are    *)
(*     left untouched.                                                     *)
(*                                                                         *)
(* Every deviation from the plain layout (module level, 4 spaces, no       *)
(* decorator, one-line header, body of plain assignments) costs one unit;  *)
(* TLC enumerates ALL layouts with cost <= Budget and at most MaxBody      *)
(* physical body lines, i.e. every interaction of up to Budget features.   *)
(* Terminal states are printed as JSON; vf/props/c15.py turns each into a  *)
(* real module and compares malt's recovery with the interpreter's AST.    *)
(*                                                                         *)
(* Cost table (Pay): nesting context 1 each; unit other than 4 spaces 1;   *)
(* decorator 1 (+1 call/wraps, two-line call 2); one-line def, multi-line  *)
(* or backslash header 1 (+1 odd continuation indent); `if` block 1;       *)
(* comment 1 (+1 odd indent, +1 trailing backslash[-blank]); blank line 1  *)
(* (+1 white space only); backslash continuation 1 (+1 odd indent of the   *)
(* continuation line, +1 second continuation); multi-line string 1 (+1     *)
(* non-plain kind, +1 single-quoted, +1 backslash-newline, +1 expression   *)
(* statement); interior string line 0 (+1 odd indent, +1 backslash);       *)
(* closing line at column 0 +1.  Plain assignments cost nothing.           *)
(*                                                                         *)
(* Excluded on purpose (documented limits of the code under test / of the  *)
(* model): indentation mixing tabs and spaces on lines that START a        *)
(* logical line (parser.dedent_block rejects it explicitly; Python 3       *)
(* itself raises TabError for most of it); the text inside a line is       *)
(* fixed (small assignments, short string pieces).                         *)
(***************************************************************************)
EXTENDS Naturals, Sequences, TLC, Json

CONSTANTS Budget,      \* max number of deviations from the plain layout
          MaxBody,     \* max physical lines in the function body
          MaxDepth,    \* max nesting contexts around the function
          MaxDeco,     \* max decorator lines
          Units,       \* subset of {"s4","s2","s1","t1","t2"}
          CtxKinds,    \* subset of {"class","func","loop","with","try"}
          DecoKinds,   \* subset of {"id","call","wrap"}
          StrKinds,    \* subset of {"plain","raw","bytes","f","rb","rf"}
          Quotes       \* subset of {"q3","q1"}

VARIABLES phase, unit, ctx, lines, mode, lvl, need, cost, nb, logical, strs, cur
vars == <<phase, unit, ctx, lines, mode, lvl, need, cost, nb, logical, strs, cur>>

(* ---- text helpers -------------------------------------------------------- *)
RECURSIVE Rep(_, _)
Rep(s, n) == IF n = 0 THEN "" ELSE s \o Rep(s, n - 1)
UnitStr(u) == CASE u = "s4" -> "    " [] u = "s2" -> "  " [] u = "s1" -> " "
                [] u = "t1" -> "\t"   [] u = "t2" -> "\t\t"
Ind(n)  == Rep(UnitStr(unit), n)
Base    == Len(ctx)                       \* indentation level of the def line
Idx     == Len(lines) + 1                 \* index of the line being written
N       == ToString(Idx)
BS      == "\\"

(* indentation of lines whose indentation Python does not care about          *)
(* (comments, continuation lines, interior lines of strings)                  *)
(* "alt": indented with the *other* white-space character than the file's unit (legal: Python only      *)
(* checks the consistency of the indentation of lines that start a logical line)                        *)
AltUnit == IF unit \in {"t1", "t2"} THEN "    " ELSE "\t"
Flex(a, level) == CASE a = "in" -> Ind(level) [] a = "zero" -> "" [] a = "deep" -> Ind(level + 2)
                    [] a = "same" -> Ind(Base) [] a = "alt" -> Rep(AltUnit, level)
(* ... and what a correct dedent leaves of it (outside strings)               *)
FlexDed(a, level) == CASE a = "in" -> Ind(level - Base) [] a = "zero" -> ""
                       [] a = "deep" -> Ind(level + 2 - Base) [] a = "same" -> ""
                       [] a = "alt" -> Rep(AltUnit, level)

Pfx(sk) == CASE sk = "plain" -> "" [] sk = "raw" -> "r" [] sk = "bytes" -> "b" [] sk = "f" -> "f" [] sk = "rb" -> "rb"
             [] sk = "rf" -> "rf"
Q(q)    == IF q = "q3" THEN "'''" ELSE "'"
IsRaw(sk) == sk \in {"raw", "rb", "rf"}
IsF(sk)   == sk \in {"f", "rf"}
(* what the end of a physical line inside a string literal contributes to the value *)
(* ("bsws": a backslash followed by a blank before the line end - not a continuation anywhere; only written *)
(*  in comments and raw strings, elsewhere it would be an invalid escape sequence)                         *)
(* "bs2": TWO backslashes before the line end: an escaped backslash (one backslash of content, two in a raw   *)
(*  literal) followed by a newline that IS content - the physical line ends in a backslash all the same     *)
EOL(sk, b) == CASE b = "bs"   -> (IF IsRaw(sk) THEN BS \o "\n" ELSE "")
                [] b = "bsws" -> BS \o " \n"
                [] b = "bs2"  -> (IF IsRaw(sk) THEN BS \o BS \o "\n" ELSE BS \o "\n")
                [] OTHER      -> "\n"
LineEnd(b) == CASE b = "bs" -> BS [] b = "bsws" -> BS \o " " [] b = "bs2" -> BS \o BS [] OTHER -> ""

Line(k, a, b, c, d, l, ws, dws, rest) ==
  [k |-> k, a |-> a, b |-> b, c |-> c, d |-> d, l |-> l, txt |-> ws \o rest, ded |-> dws \o rest]
Put(ln) == lines' = Append(lines, ln)
Pay(n)  == cost + n <= Budget /\ cost' = cost + n
B2N(x)  == IF x THEN 1 ELSE 0
NoMode  == [m |-> "stmt", sk |-> "", q |-> ""]
BodyLvl(l) == Base + 1 + l

(* ---- Init ---------------------------------------------------------------- *)
Init == /\ unit \in Units
        /\ cost = B2N(unit # "s4")
        /\ cost <= Budget
        /\ phase = "ctx" /\ ctx = <<>> /\ lines = <<>> /\ mode = NoMode /\ lvl = 0 /\ need = FALSE
        /\ nb = 0 /\ logical = <<>> /\ strs = <<>> /\ cur = ""

(* ---- nesting contexts ---------------------------------------------------- *)
CtxHeader(k, d) == CASE k = "class" -> "class K" \o ToString(d) \o ":"
                     [] k = "func"  -> "def o" \o ToString(d) \o "():"
                     [] k = "loop"  -> "for _i in (0,):"
                     [] k = "with"  -> "with CM():"
                     [] k = "try"   -> "try:"
AddCtx(k) == /\ phase = "ctx" /\ Len(ctx) < MaxDepth /\ Pay(1)
             /\ Put(Line("ctx", k, "", "", "", 0, Ind(Base), "", CtxHeader(k, Base + 1)))
             /\ ctx' = Append(ctx, k)
             /\ UNCHANGED <<phase, unit, mode, lvl, need, nb, logical, strs, cur>>

(* ---- decorators ---------------------------------------------------------- *)
NDeco == Len(SelectSeq(lines, LAMBDA x : x.k \in {"deco", "decoopen"}))
AtStmt == mode.m = "stmt"
SigInd == {"deep", "zero"} \cup (IF Base > 0 THEN {"same"} ELSE {})
DecoText(k) == CASE k = "id" -> "@deco" [] k = "call" -> "@deco_args(1)" [] k = "wrap" -> "@wrapping"
AddDeco(k) == /\ phase \in {"ctx", "deco"} /\ AtStmt /\ NDeco < MaxDeco /\ Pay(1 + B2N(k # "id"))
              /\ Put(Line("deco", k, "", "", "", 0, Ind(Base), "", DecoText(k)))
              /\ phase' = "deco"
              /\ UNCHANGED <<unit, ctx, mode, lvl, need, nb, logical, strs, cur>>
(* a decorator call spread over two physical lines *)
AddDecoOpen == /\ phase \in {"ctx", "deco"} /\ AtStmt /\ NDeco < MaxDeco /\ Pay(2)
               /\ Put(Line("decoopen", "", "", "", "", 0, Ind(Base), "", "@deco_args("))
               /\ phase' = "deco" /\ mode' = [m |-> "sig", sk |-> "", q |-> "deco"]
               /\ UNCHANGED <<unit, ctx, lvl, need, nb, logical, strs, cur>>
AddDecoArg(a) == /\ phase = "deco" /\ mode.q = "deco" /\ a \in SigInd /\ Pay(B2N(a # "deep"))
                 /\ Put(Line("decoarg", a, "", "", "", 0, Flex(a, Base), FlexDed(a, Base), "1)"))
                 /\ mode' = NoMode
                 /\ UNCHANGED <<phase, unit, ctx, lvl, need, nb, logical, strs, cur>>

(* ---- the header ---------------------------------------------------------- *)
AddDef1 == /\ phase \in {"ctx", "deco"} /\ AtStmt /\ Pay(0)
           /\ Put(Line("def1", "", "", "", "", 0, Ind(Base), "", "def FNAME(a, b=1):"))
           /\ phase' = "body"
           /\ UNCHANGED <<unit, ctx, mode, lvl, need, nb, logical, strs, cur>>
(* header and body on one physical line *)
AddDefOne == /\ phase \in {"ctx", "deco"} /\ AtStmt /\ Pay(1)
             /\ Put(Line("defone", "", "", "", "", 0, Ind(Base), "", "def FNAME(a, b=1): return a"))
             /\ logical' = Append(logical, [l |-> 0, k |-> "code", s |-> Idx, e |-> Idx])
             /\ phase' = "one"
             /\ UNCHANGED <<unit, ctx, mode, lvl, need, nb, strs, cur>>
(* parenthesised header over three physical lines *)
AddDefOpen == /\ phase \in {"ctx", "deco"} /\ AtStmt /\ Pay(1)
              /\ Put(Line("defopen", "", "", "", "", 0, Ind(Base), "", "def FNAME(a,"))
              /\ phase' = "sig" /\ mode' = [m |-> "sig", sk |-> "", q |-> "paren"]
              /\ UNCHANGED <<unit, ctx, lvl, need, nb, logical, strs, cur>>
AddSigMid(a) == /\ phase = "sig" /\ mode.q = "paren" /\ lines[Len(lines)].k = "defopen"
                /\ a \in SigInd /\ Pay(B2N(a # "deep"))
                /\ Put(Line("sigmid", a, "", "", "", 0, Flex(a, Base), FlexDed(a, Base), "b=1"))
                /\ UNCHANGED <<phase, unit, ctx, mode, lvl, need, nb, logical, strs, cur>>
AddSigClose == /\ phase = "sig" /\ mode.q = "paren" /\ lines[Len(lines)].k = "sigmid" /\ Pay(0)
               /\ Put(Line("sigclose", "", "", "", "", 0, Ind(Base), "", "):"))
               /\ phase' = "body" /\ mode' = NoMode
               /\ UNCHANGED <<unit, ctx, lvl, need, nb, logical, strs, cur>>
(* header continued with a backslash *)
AddDefBs == /\ phase \in {"ctx", "deco"} /\ AtStmt /\ Pay(1)
            /\ Put(Line("defbs", "", "bs", "", "", 0, Ind(Base), "", "def FNAME(a, " \o BS))
            /\ phase' = "sig" /\ mode' = [m |-> "sig", sk |-> "", q |-> "bs"]
            /\ UNCHANGED <<unit, ctx, lvl, need, nb, logical, strs, cur>>
AddSigBsEnd(a) == /\ phase = "sig" /\ mode.q = "bs" /\ a \in SigInd /\ Pay(B2N(a # "deep"))
                  /\ Put(Line("sigbsend", a, "", "", "", 0, Flex(a, Base), FlexDed(a, Base), "b=1):"))
                  /\ phase' = "body" /\ mode' = NoMode
                  /\ UNCHANGED <<unit, ctx, lvl, need, nb, logical, strs, cur>>

(* ---- body lines ---------------------------------------------------------- *)
InBody     == phase = "body" /\ nb < MaxBody /\ nb' = nb + 1
StmtLevels == IF need THEN {lvl} ELSE 0 .. lvl         \* a new statement may dedent, never indent
Stmt(l, k) == [l |-> l, k |-> k, s |-> Idx, e |-> Idx]
Extend     == [logical EXCEPT ![Len(logical)].e = Idx]

AddCode(l) == /\ InBody /\ AtStmt /\ l \in StmtLevels /\ Pay(0)
              /\ Put(Line("code", "", "", "", "", l, Ind(BodyLvl(l)), Ind(1 + l), "v" \o N \o " = " \o N))
              /\ logical' = Append(logical, Stmt(l, "code")) /\ lvl' = l /\ need' = FALSE
              /\ UNCHANGED <<phase, unit, ctx, mode, strs, cur>>
(* a compound statement: its block is the following lines at level 1 *)
AddOpen == /\ InBody /\ AtStmt /\ 0 \in StmtLevels /\ nb + 1 < MaxBody /\ Pay(1)
           /\ Put(Line("open", "", "", "", "", 0, Ind(BodyLvl(0)), Ind(1), "if a:"))
           /\ logical' = Append(logical, Stmt(0, "if")) /\ lvl' = 1 /\ need' = TRUE
           /\ UNCHANGED <<phase, unit, ctx, mode, strs, cur>>
AddComment(a, b) == /\ InBody /\ AtStmt /\ Pay(1 + B2N(a # "in") + B2N(b # ""))
                    /\ Put(Line("comment", a, b, "", "", lvl, Flex(a, BodyLvl(lvl)), FlexDed(a, BodyLvl(lvl)),
                                "# c" \o N \o (IF b = "" THEN "" ELSE " " \o LineEnd(b))))
                    /\ UNCHANGED <<phase, unit, ctx, mode, lvl, need, logical, strs, cur>>
AddBlank(a) == /\ InBody /\ AtStmt /\ Pay(1 + B2N(a # "empty"))
               /\ Put(Line("blank", a, "", "", "", lvl, IF a = "ws" THEN Ind(BodyLvl(lvl)) ELSE "",
                           IF a = "ws" THEN Ind(1 + lvl) ELSE "", ""))
               /\ UNCHANGED <<phase, unit, ctx, mode, lvl, need, logical, strs, cur>>
(* backslash continuation of a statement *)
AddCodeBs(l) == /\ InBody /\ AtStmt /\ l \in StmtLevels /\ nb + 1 < MaxBody /\ Pay(1)
                /\ Put(Line("codebs", "", "bs", "", "", l, Ind(BodyLvl(l)), Ind(1 + l), "v" \o N \o " = " \o N \o " + " \o BS))
                /\ logical' = Append(logical, Stmt(l, "code")) /\ lvl' = l /\ need' = FALSE
                /\ mode' = [m |-> "cont", sk |-> "", q |-> ""]
                /\ UNCHANGED <<phase, unit, ctx, strs, cur>>
AddCont(a, b) == /\ InBody /\ mode.m = "cont" /\ b \in {"", "bs"} /\ (b = "bs" => nb + 1 < MaxBody)
                 /\ Pay(B2N(a # "deep") + B2N(b = "bs"))
                 /\ Put(Line("contline", a, b, "", "", lvl, Flex(a, BodyLvl(lvl)), FlexDed(a, BodyLvl(lvl)),
                             N \o (IF b = "bs" THEN " + " \o BS ELSE "")))
                 /\ logical' = Extend
                 /\ mode' = IF b = "bs" THEN mode ELSE NoMode
                 /\ UNCHANGED <<phase, unit, ctx, lvl, need, strs, cur>>
(* string literals spanning physical lines *)
AddStrOpen(l, sk, q, c, d) ==
  /\ InBody /\ AtStmt /\ l \in StmtLevels /\ nb + 1 < MaxBody
  /\ (q = "q1" => c = "bs")                       \* a single-quoted literal continues only by backslash-newline
  /\ (c = "bsws" => IsRaw(sk))
  /\ (c = "bs2" => q = "q3")
  /\ Pay(1 + B2N(sk # "plain") + B2N(q = "q1") + B2N(c # "" /\ q = "q3") + B2N(d = "expr"))
  /\ LET first == "t" \o N \o (IF IsF(sk) THEN "{a}" ELSE "")
     IN /\ Put(Line("stropen", sk, q, c, d, l, Ind(BodyLvl(l)), Ind(1 + l),
                    (IF d = "asg" THEN "v" \o N \o " = " ELSE "") \o Pfx(sk) \o Q(q) \o first
                      \o LineEnd(c)))
        /\ cur' = first \o EOL(sk, c)
  /\ logical' = Append(logical, Stmt(l, "str")) /\ lvl' = l /\ need' = FALSE
  /\ mode' = [m |-> "str", sk |-> sk, q |-> q]
  /\ UNCHANGED <<phase, unit, ctx, strs>>
AddStrMid(a, b) ==
  /\ InBody /\ mode.m = "str" /\ nb + 1 < MaxBody
  /\ (mode.q = "q1" => b = "bs")
  /\ (b = "bsws" => IsRaw(mode.sk))
  /\ (b = "bs2" => mode.q = "q3")
  /\ Pay(B2N(a # "in") + B2N(b # "" /\ mode.q = "q3"))     \* a plain interior line only costs a line
  /\ LET ws == Flex(a, BodyLvl(lvl))
         rest == "m" \o N \o LineEnd(b)
     IN /\ Put(Line("strmid", a, b, "", "", lvl, ws, ws, rest))   \* dedent must not touch it
        /\ cur' = cur \o ws \o "m" \o N \o EOL(mode.sk, b)
  /\ logical' = Extend
  /\ UNCHANGED <<phase, unit, ctx, mode, lvl, need, strs>>
AddStrClose(a) ==
  /\ InBody /\ mode.m = "str" /\ a \in {"in", "zero"} /\ Pay(B2N(a # "in"))
  /\ LET ws == Flex(a, BodyLvl(lvl))
     IN /\ Put(Line("strclose", a, "", "", "", lvl, ws, ws, "z" \o N \o Q(mode.q)))
        /\ strs' = Append(strs, cur \o ws \o "z" \o N)
  /\ cur' = "" /\ logical' = Extend /\ mode' = NoMode
  /\ UNCHANGED <<phase, unit, ctx, lvl, need>>

HasTopStmt == \E i \in 1 .. Len(logical) : logical[i].l = 0
Finish == /\ phase \in {"body", "one"} /\ AtStmt /\ ~need /\ HasTopStmt
          /\ phase' = "done"
          /\ UNCHANGED <<unit, ctx, lines, mode, lvl, need, cost, nb, logical, strs, cur>>

FlexAll == {"in", "zero", "deep", "alt"}
Next == \/ \E k \in CtxKinds : AddCtx(k)
        \/ \E k \in DecoKinds : AddDeco(k)
        \/ AddDecoOpen
        \/ AddDef1 \/ AddDefOne \/ AddDefOpen \/ AddSigClose \/ AddDefBs
        \/ \E a \in SigInd : AddSigMid(a) \/ AddSigBsEnd(a) \/ AddDecoArg(a)
        \/ \E l \in 0 .. 1 : AddCode(l) \/ AddCodeBs(l)
        \/ AddOpen
        \/ \E a \in FlexAll, b \in {"", "bs", "bsws", "bs2"} : AddComment(a, b) \/ AddCont(a, b) \/ AddStrMid(a, b)
        \/ \E a \in {"empty", "ws"} : AddBlank(a)
        \/ \E l \in 0 .. 1, sk \in StrKinds, q \in Quotes, c \in {"", "bs", "bsws", "bs2"}, d \in {"asg", "expr"} :
               AddStrOpen(l, sk, q, c, d)
        \/ \E a \in {"in", "zero"} : AddStrClose(a)
        \/ Finish
Spec == Init /\ [][Next]_vars

(* ---- what is written after the function: registration and context closers - *)
RECURSIVE Closers(_)
Closers(d) == IF d = 0 THEN <<>>
              ELSE (CASE ctx[d] = "func" -> <<Ind(d - 1) \o "o" \o ToString(d) \o "()">>
                      [] ctx[d] = "try"  -> <<Ind(d - 1) \o "finally:", Ind(d) \o "pass">>
                      [] OTHER -> <<>>) \o Closers(d - 1)
Post == <<Ind(Base) \o "REG.append(FNAME)">> \o Closers(Base)

(* ---- invariants on the model --------------------------------------------- *)
FirstFn == Base + 1                                   \* index of the first line of the definition
StartKinds == {"code", "open", "codebs", "stropen", "def1", "defone", "defopen", "defbs", "deco", "decoopen", "sigclose"}
(* (c): a dedent removes exactly the enclosing indentation from every line that starts a logical line, *)
(* never more than the line has, and nothing from the interior of string literals                     *)
DedentSound ==
  \A i \in 1 .. Len(lines) :
    LET ln == lines[i] IN
      i >= FirstFn =>
        /\ ln.k \in StartKinds => ln.txt = Ind(Base) \o ln.ded
        /\ ln.k \in {"strmid", "strclose"} => ln.ded = ln.txt
(* (b): logical statements are disjoint, ordered runs of physical lines; every physical body line that is *)
(* not a comment or blank belongs to exactly one of them (the header of an `if` owns only its own line)   *)
LogicalPartition ==
  /\ \A i \in 1 .. Len(logical) : logical[i].s <= logical[i].e /\ logical[i].e <= Len(lines)
  /\ \A i \in 1 .. Len(logical) - 1 : logical[i].e < logical[i + 1].s
  /\ \A j \in 1 .. Len(lines) :
       lines[j].k \in {"code", "open", "codebs", "contline", "stropen", "strmid", "strclose"} =>
         \E i \in 1 .. Len(logical) : logical[i].s <= j /\ j <= logical[i].e
  /\ \A i \in 1 .. Len(logical) : lines[logical[i].s].k \in {"code", "open", "codebs", "stropen", "defone"}
(* lexer state agrees with the last line written *)
LexState ==
  /\ mode.m = "cont" <=> (Len(lines) > 0 /\ lines[Len(lines)].k \in {"codebs", "contline"} /\ lines[Len(lines)].b = "bs")
  /\ mode.m = "str"  <=> (Len(lines) > 0 /\ lines[Len(lines)].k \in {"stropen", "strmid"})
  /\ (mode.m = "str" /\ mode.q = "q1") =>
        \/ (lines[Len(lines)].k = "stropen" /\ lines[Len(lines)].c = "bs")
        \/ (lines[Len(lines)].k = "strmid" /\ lines[Len(lines)].b = "bs")
  /\ need => lines[Len(lines)].k \in {"open", "comment", "blank"}
  /\ Len(strs) = Len(SelectSeq(lines, LAMBDA x : x.k = "strclose"))
  /\ cost <= Budget /\ nb <= MaxBody
(* a block that was opened received a statement before the function ended *)
BlocksFilled ==
  phase = "done" =>
    \A i \in 1 .. Len(logical) : logical[i].k = "if" =>
      i < Len(logical) /\ logical[i + 1].l = 1

(* ---- terminal states: the layout vector and the specification's expectations --- *)
Emit == phase = "done" =>
  PrintT(ToJson([unit |-> unit, cost |-> cost, first |-> FirstFn,
                 lines |-> lines, post |-> Post, logical |-> logical, strs |-> strs]))
=============================================================================
