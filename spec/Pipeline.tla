------------------------------ MODULE Pipeline ------------------------------
(***************************************************************************)
(* C17 - the conversion of one function as a state machine                 *)
(*   Parse -> Pass_1 .. Pass_n -> Unparse -> Load -> ToCode                *)
(* with the pass order a function of the conversion options (asserts only  *)
(* with ASSERT_STATEMENTS; lists, slices only with LISTS), and trace       *)
(* validation of conversions recorded from the real transpiler.            *)
(*                                                                         *)
(* A recorded conversion (IOEnv.TRACE_FILE, one record per conversion) is  *)
(*   [asserts, lists : 0/1,                                                *)
(*    steps : << [pass, ids, ctx] >>,  one per pass boundary, where        *)
(*         ids = the object identities met by a full traversal of the tree *)
(*               after the pass (every occurrence, no de-duplication)      *)
(*         ctx = << <<actual, required>> >> for every expression that      *)
(*               carries a context (Name, Attribute, Subscript, Starred,   *)
(*               List, Tuple), `required` by its syntactic position        *)
(*    compiles, roundtrip, tocode : 0/1  facts about the final tree ]      *)
(* AstShape at EVERY boundary: the tree is a tree (no node object occurs   *)
(* twice) and every context equals the one its position requires.         *)
(* The verdict is total: the first violated clause is latched and printed. *)
(***************************************************************************)
EXTENDS Naturals, Sequences, FiniteSets, TLC, Json, IOUtils

Traces == JsonDeserialize(IOEnv.TRACE_FILE)

VARIABLES tid, stage, bad
vars == <<tid, stage, bad>>
Tr == Traces[tid]

Order(asserts, lists) ==
  <<"functions", "directives", "break_statements">>
  \o (IF asserts = 1 THEN <<"asserts">> ELSE <<>>)
  \o <<"continue_statements", "return_statements">>
  \o (IF lists = 1 THEN <<"lists", "slices">> ELSE <<>>)
  \o <<"call_trees", "control_flow", "conditional_expressions", "logical_expressions", "variables">>
Ord == Order(Tr.asserts, Tr.lists)

Range(s) == {s[i] : i \in 1..Len(s)}
IsTree(ids)  == Cardinality(Range(ids)) = Len(ids)
CtxOK(ctx)   == \A i \in 1..Len(ctx) : ctx[i][1] = ctx[i][2]

Init == tid \in 1..Len(Traces) /\ stage = 0 /\ bad = ""

(* one pass boundary of the recorded conversion *)
Pass ==
  /\ stage < Len(Tr.steps)
  /\ LET s == Tr.steps[stage + 1] IN
     bad' = IF bad # "" THEN bad
            ELSE IF stage + 1 > Len(Ord) \/ s.pass # Ord[stage + 1] THEN "pass-order:" \o s.pass
            ELSE IF ~IsTree(s.ids) THEN "node-object-occurs-twice-after:" \o s.pass
            ELSE IF ~CtxOK(s.ctx) THEN "expression-context-mismatch-after:" \o s.pass
            ELSE ""
  /\ stage' = stage + 1 /\ UNCHANGED tid

(* the conversion completes: the final tree must compile, round-trip through its printed form, and be what to_code shows *)
Finish ==
  /\ stage = Len(Tr.steps) /\ stage < 100
  /\ bad' = IF bad # "" THEN bad
            ELSE IF Len(Tr.steps) # Len(Ord) THEN "pass-order:incomplete"
            ELSE IF Tr.compiles = 0 THEN "final-tree-does-not-compile"
            ELSE IF Tr.roundtrip = 0 THEN "reparsed-text-differs-from-tree"
            ELSE IF Tr.tocode = 0 THEN "to_code-differs-from-loaded-module"
            ELSE ""
  /\ stage' = 100 /\ UNCHANGED tid

Next == Pass \/ Finish
Spec == Init /\ [][Next]_vars
Report == (stage = 100) => PrintT(ToJson([tid |-> tid, bad |-> bad]))
=============================================================================
