------------------------------ MODULE Routing ------------------------------
(***************************************************************************)
(* C04 - every overloadable construct is routed through its operator.      *)
(*                                                                         *)
(* Monitor over MiniPy that predicts, for every execution, the ordered     *)
(* list of USER-LEVEL operator events a correct conversion must produce:   *)
(*   <<"if_stmt", L>>     an if statement executes (after its test)        *)
(*   <<"while_stmt", L>>  a while loop is entered (before its first test)  *)
(*   <<"for_stmt", L>>    a for loop is entered (after its iterable)       *)
(*   <<"and_"|"or_", L>>  before the (lazy) operands; <<"not_", L>> after  *)
(*   <<"if_exp", L>>      after the condition, before the chosen branch    *)
(*   <<"call", L>>        every call written by the user (tracers, local   *)
(*                        functions, lambdas, decorators); with-item       *)
(*                        expressions are excepted                         *)
(* where L is the length of the effect log at the moment the operator is   *)
(* invoked.  The harness records the same pairs from instrumented          *)
(* operators while running the converted function; the predicted list must *)
(* embed, in order, in the recorded one (the converter adds operator calls *)
(* of its own for lowered jumps, never removes user ones).                 *)
(***************************************************************************)
EXTENDS MiniPy
VARIABLES ulog
mvars == <<vars, ulog>>

Used == SubSeq(dec', Len(dec) + 1, Len(dec'))
PadTo(s, k) == s \o [j \in 1..(k - Len(s)) |-> 0]
NCallsOf(c) == Cardinality({i \in 1..Len(c) : c[i].k = "call"})

StepOps ==
  LET f == Top IN
  IF f.i <= Len(f.blk)
  THEN LET n == f.blk[f.i]  d == ND(n) IN
       IF d.kind \in {"assign", "aug", "assign2", "expr", "return", "if", "while", "for"}
       THEN LET r == Eval(d.e, f.env, S0(PadTo(Used, d.nch)))
                ok == r.s.err = "" IN
            CASE d.kind = "if"    -> r.s.ops \o (IF ok THEN << <<"if_stmt", Len(r.s.log)>> >> ELSE <<>>)
              [] d.kind = "while" -> << <<"while_stmt", Len(log)>> >> \o r.s.ops
              [] d.kind = "for"   -> r.s.ops \o (IF ok THEN << <<"for_stmt", Len(r.s.log)>> >> ELSE <<>>)
              [] OTHER            -> r.s.ops
       ELSE IF d.kind \in {"setattr", "setitem"}
       THEN Eval(d.e, f.env, S0(PadTo(Used, d.nch))).s.ops
       \* list operations are calls of a method (flag 2: routed through converted_call only when the LISTS feature is off;
       \* with it they become ag__.list_append / ag__.list_pop)
       ELSE IF d.kind \in {"append", "pop"}
       THEN LET c == CellOf(envs, f.env, d.name) IN
            IF c = 0 \/ cells[c] = Unbound THEN <<>>
            ELSE IF d.kind = "pop" THEN << <<"call", Len(log), 2>> >>
            ELSE LET r == Eval(d.e, f.env, S0(PadTo(Used, d.nch))) IN
                 r.s.ops \o (IF r.s.err = "" THEN << <<"call", Len(r.s.log), 2>> >> ELSE <<>>)
       ELSE IF d.kind = "newobj" THEN << <<"call", Len(log)>> >>
       ELSE IF d.kind = "call" /\ NCallsOf(ctrl') > NCallsOf(ctrl) THEN << <<"call", Len(log)>> >>
       ELSE IF d.kind = "call"       \* a lambda value: the call, then whatever its body goes through
       THEN LET fc == CellOf(envs, f.env, d.name)
                fv == IF fc = 0 THEN Unbound ELSE cells[fc]
                avs == [j \in 1..Len(d.args) |-> LET c == CellOf(envs, f.env, d.args[j]) IN IF c = 0 THEN Unbound ELSE cells[c]] IN
            IF fv # Unbound /\ fv[1] = "m" /\ \A j \in 1..Len(avs) : avs[j] # Unbound
            THEN LET lx == EX(fv[2]) IN
                 << <<"call", Len(log)>> >> \o
                 Eval(lx.args[1], fv[3], S0X(PadTo(Used, d.nch), log, IF lx.name = "" THEN <<>> ELSE << <<lx.name, avs[1]>> >>, {})).s.ops
            ELSE <<>>
       ELSE IF d.kind = "def"        \* decorator call, then the default value
       THEN (IF d.k # 0 THEN << <<"call", Len(log)>> >> ELSE <<>>) \o
            (IF d.e # 0 THEN Eval(d.e, f.env, S0X(PadTo(Used, d.nch), DefLog(d, log), <<>>, {})).s.ops ELSE <<>>)
       ELSE <<>>
  ELSE IF f.k = "while"
  THEN Eval(ND(f.node).e, f.env, S0(PadTo(Used, ND(f.node).nch))).s.ops
  ELSE <<>>

(* events issued inside a module-level function (or a function nested in one) are observable only when the callee is *)
(* converted too, i.e. under recursive conversion: they carry the flag 1, those of the function under test 0        *)
RECURSIVE RootEnv(_)
RootEnv(e) == IF envs[e].parent = 0 THEN e ELSE RootEnv(envs[e].parent)
InCallee == IF envs[RootEnv(Top.env)].fn # 1 THEN 1 ELSE 0
Flag(evs) == [j \in 1..Len(evs) |-> IF Len(evs[j]) = 3 THEN evs[j] ELSE <<evs[j][1], evs[j][2], InCallee>>]

MInit == Init /\ ulog = <<>>
MStep == Step /\ ulog' = ulog \o Flag(StepOps)
MSpec == MInit /\ [][MStep]_mvars
Report == (status[1] # "run") => PrintT(ToJson([pid |-> pid, dec |-> dec, inp |-> inp, ulog |-> ulog, log |-> log, out |-> Out,
                                               xlog |-> xlog, xnode |-> xnode, xfirst |-> xfirst, delx |-> delx, oc |-> oc, finx |-> finx, gl |-> Globals]))
=============================================================================
