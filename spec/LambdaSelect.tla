---------------------------- MODULE LambdaSelect ----------------------------
(***************************************************************************)
(* Input-space model for property C15, part 2: which lambda expression     *)
(* created a given lambda object.                                          *)
(*                                                                         *)
(* A configuration is one physical line (possibly continued inside         *)
(* parentheses) holding 1..3 simple statements  TGTs = ( ... )  separated  *)
(* by semicolons; the tuple displays contain 1..MaxL lambda expressions in *)
(* all, written left to right (pre-order; leftmost choice, one derivation  *)
(* per configuration).  For the k-th lambda:                               *)
(*   sep[k]   "semi": it opens the next statement on the same line         *)
(*   par[k]   0 = element of the outer tuple, j < k = inside the body of   *)
(*            lambda j (the body of a lambda with children is the tuple    *)
(*            (constant, child, child ...))                                *)
(*   brk[k]   "nl": a line break precedes its opening parenthesis          *)
(*   span[k]  "two": a line break separates its colon from its body        *)
(*   sig[k]   its parameter list                                           *)
(*   wr[k]    "no", or the parameter list of a module-level function W:    *)
(*            the expression is  functools.wraps(W)(lambda ...: ...)  (the *)
(*            one-line decorator idiom), so the object carries W's name,   *)
(*            doc and __wrapped__ = W.  That changes what introspection    *)
(*            following __wrapped__ REPORTS about the object (Shown), not  *)
(*            the code it runs: the lambda expression that created it and  *)
(*            the object's own parameters (Own) are what they were, and so *)
(*            is the expected result below.                                *)
(* The body constant of lambda k is 100+k, so the recovered expression     *)
(* tells which lambda was found.                                           *)
(*                                                                         *)
(* The specification derives, with Python's rules, the physical line of    *)
(* every `lambda` keyword (= co_firstlineno of the object) and the last    *)
(* line of every lambda expression, and from them the expected result of   *)
(* source recovery for the object created by lambda i:                     *)
(*   never  Found(j), j # i;                                               *)
(*   Found(i) required when lambda i is the only lambda whose line span    *)
(*     covers its first line, or the only such lambda with its parameter   *)
(*     names (the documented way to make lambdas resolvable);              *)
(*   otherwise Found(i) or an explicit Unsupported error.                  *)
(***************************************************************************)
EXTENDS Naturals, Sequences, FiniteSets, TLC, Json

CONSTANTS MaxL,      \* max number of lambdas
          Sigs,      \* parameter lists for configurations of up to 2 lambdas
          Sigs3,     \* parameter lists for configurations of 3 lambdas
          Ctxs,      \* subset of {"mod", "fun"}: statement at module level / inside a function
          WSigs,     \* parameter lists of the functions that functools.wraps copies onto a lambda object
          SigsW,     \* parameter lists of the lambdas in configurations that contain a wrapped lambda
          MaxWrap,   \* max number of wrapped lambdas in a configuration
          MaxLW      \* max number of lambdas in a configuration that contains a wrapped lambda

VARIABLES phase, cx, n, par, brk, span, sig, sep, wr,
          text, fl, ll      \* set by Finish: the rendered text, first and last physical line of every lambda
vars == <<phase, cx, n, par, brk, span, sig, sep, wr, text, fl, ll>>

SigText(s) == CASE s = "none" -> "" [] s = "x" -> " x" [] s = "y" -> " y" [] s = "xy" -> " x, y"
                [] s = "xd" -> " x=5" [] s = "va" -> " *a" [] s = "kw" -> " **k" [] s = "po" -> " x, /"
                [] s = "ko" -> " *, x" [] s = "xz" -> " x, z=5"
(* the parameter NAMES as introspection reports them (args incl. positional-only | varargs | varkw | kwonly) *)
NameKey(s) == CASE s = "none" -> "|||" [] s = "x" -> "x|||" [] s = "y" -> "y|||" [] s = "xy" -> "x,y|||"
                [] s = "xd" -> "x|||" [] s = "va" -> "|a||" [] s = "kw" -> "||k|" [] s = "po" -> "x|||"
                [] s = "ko" -> "|||x" [] s = "xz" -> "x,z|||"

Init == /\ phase = "build" /\ cx \in Ctxs /\ n = 0
        /\ par = <<>> /\ brk = <<>> /\ span = <<>> /\ sig = <<>> /\ sep = <<>> /\ wr = <<>>
        /\ text = "" /\ fl = <<>> /\ ll = <<>>

RECURSIVE IsAncOrSelf(_, _)
IsAncOrSelf(a, k) == IF k = 0 THEN FALSE ELSE (a = k \/ IsAncOrSelf(a, par[k]))
(* pre-order: the next lambda is a sibling/child on the rightmost path *)
Parents == IF n = 0 THEN {0} ELSE {0} \cup {a \in 1 .. n : IsAncOrSelf(a, n)}

(* sep[k] = "semi": the k-th lambda opens a NEW STATEMENT on the same physical line (`...); T2 = (...`):      *)
(* several simple statements separated by semicolons share a line, each with its own lambdas               *)
(* w # "no": the object created by this lambda goes through functools.wraps(W_w)                          *)
NWrapped == Cardinality({k \in 1 .. n : wr[k] # "no"})
Add(p, b, sp, sg, se, w) ==
  /\ phase = "build" /\ n < MaxL /\ p \in Parents
  /\ (se = "semi" => p = 0 /\ n >= 1)
  /\ sg \in (IF n + 1 >= 3 THEN Sigs3 ELSE Sigs)
  /\ (n + 1 >= 3 => \A k \in 1 .. n : sig[k] \in Sigs3)
  /\ w \in {"no"} \cup WSigs
  /\ NWrapped + (IF w = "no" THEN 0 ELSE 1) <= MaxWrap
  /\ (w # "no" \/ NWrapped > 0) => /\ n + 1 <= MaxLW
                                   /\ sg \in SigsW /\ \A k \in 1 .. n : sig[k] \in SigsW
  /\ wr' = Append(wr, w)
  /\ n' = n + 1 /\ par' = Append(par, p) /\ brk' = Append(brk, b) /\ span' = Append(span, sp) /\ sig' = Append(sig, sg)
  /\ sep' = Append(sep, se)
  /\ UNCHANGED <<phase, cx, text, fl, ll>>
(* ---- rendering as a token sequence --------------------------------------- *)
Tok(t, nl, o, c) == [t |-> t, nl |-> nl, open |-> o, close |-> c]
NL == Tok("\n    ", 1, 0, 0)
Children(k) == SelectSeq([i \in 1 .. n |-> i], LAMBDA c : par[c] = k)
RECURSIVE Render(_), RenderAll(_)
RenderAll(cs) == IF cs = <<>> THEN <<>> ELSE Render(Head(cs)) \o <<Tok(", ", 0, 0, 0)>> \o RenderAll(Tail(cs))
Render(k) ==
  LET ch == Children(k)
      const == ToString(100 + k)
      body == IF ch = <<>> THEN <<Tok(const, 0, 0, 0)>>
              ELSE <<Tok("(" \o const \o ", ", 0, 0, 0)>> \o RenderAll(ch) \o <<Tok(")", 0, 0, 0)>>
  IN (IF brk[k] = "nl" THEN <<NL>> ELSE <<>>)
     \o <<Tok((IF wr[k] = "no" THEN "(" ELSE "functools.wraps(W_" \o wr[k] \o ")(")
              \o "lambda" \o SigText(sig[k]) \o ":", 0, k, 0)>>
     \o (IF span[k] = "two" THEN <<NL>> ELSE <<Tok(" ", 0, 0, 0)>>)
     \o body \o <<Tok(")", 0, 0, k)>>
(* statement number of a top-level lambda; the statements are  TGT1 = (...); TGT2 = (...)  on one logical line each *)
NSemi(c) == Cardinality({j \in 1 .. c : sep[j] = "semi"})
StmtOf(c) == 1 + NSemi(c)
RECURSIVE RenderTop(_)
RenderTop(cs) ==
  IF cs = <<>> THEN <<Tok(")", 0, 0, 0)>>
  ELSE LET c == Head(cs)
       IN (IF sep[c] = "semi" THEN <<Tok("); TGT" \o ToString(StmtOf(c)) \o " = (", 0, 0, 0)>> ELSE <<>>)
          \o Render(c) \o <<Tok(", ", 0, 0, 0)>> \o RenderTop(Tail(cs))
Toks == <<Tok("TGT1 = (", 0, 0, 0)>> \o RenderTop(Children(0))
RECURSIVE Root(_)
Root(i) == IF par[i] = 0 THEN i ELSE Root(par[i])
RECURSIVE Cat(_)
Cat(ts) == IF ts = <<>> THEN "" ELSE Head(ts).t \o Cat(Tail(ts))
RECURSIVE NlBefore(_, _)
NlBefore(ts, i) == IF i <= 1 THEN 0 ELSE ts[i - 1].nl + NlBefore(ts, i - 1)
PosOpen(ts, k)  == CHOOSE i \in 1 .. Len(ts) : ts[i].open = k
PosClose(ts, k) == CHOOSE i \in 1 .. Len(ts) : ts[i].close = k
(* Finish: the configuration is complete; derive its text and the physical lines (Python's rule: a line *)
(* break inside parentheses does not end the logical line, it only advances the physical line number)  *)
Finish == /\ phase = "build" /\ n >= 1 /\ phase' = "done"
          /\ LET ts == Toks
             IN /\ text' = Cat(ts)
                /\ fl' = [k \in 1 .. n |-> 1 + NlBefore(ts, PosOpen(ts, k))]   \* line of the `lambda` keyword = co_firstlineno
                /\ ll' = [k \in 1 .. n |-> 1 + NlBefore(ts, PosClose(ts, k))]
          /\ UNCHANGED <<cx, n, par, brk, span, sig, sep, wr>>
FirstLine(k) == fl[k]
LastLine(k)  == ll[k]

Next == \/ \E p \in 0 .. MaxL, b \in {"same", "nl"}, sp \in {"one", "two"}, sg \in Sigs \cup Sigs3,
             se \in {"comma", "semi"}, w \in {"no"} \cup WSigs : Add(p, b, sp, sg, se, w)
        \/ Finish
Spec == Init /\ [][Next]_vars


(* ---- expected result ------------------------------------------------------ *)
(* what cannot be excluded knowing only the first line of the object's code *)
(* the object's own parameter names (its code object) and the names that introspection following          *)
(* __wrapped__ (inspect.signature) reports for it: functools.wraps changes the second, never the first   *)
Own(i)   == NameKey(sig[i])
Shown(i) == IF wr[i] = "no" THEN NameKey(sig[i]) ELSE NameKey(wr[i])
Cand(i)  == {j \in 1 .. n : FirstLine(j) <= FirstLine(i) /\ FirstLine(i) <= LastLine(j)}
SameNames(i) == {j \in Cand(i) : Own(j) = Own(i)}
Resolvable(i) == Cand(i) = {i} \/ SameNames(i) = {i}
Twin(i) == \E j \in Cand(i) : j # i /\ sig[j] = sig[i]      \* indistinguishable by line and full signature
(* a rival carries the parameter names of the function this object wraps, and they are not its own: the    *)
(* situation in which reading the wrapped function's signature picks the rival                             *)
Decoy(i) == Shown(i) # Own(i) /\ \E j \in Cand(i) : j # i /\ Own(j) = Shown(i)
Expected(i) == IF Resolvable(i) THEN "found" ELSE "found-or-unsupported"
(* how the configuration is classified for reporting: relation of lambda i to its nearest rival *)
Rel(i, j) == IF IsAncOrSelf(j, i) THEN "inside"             \* i is nested in j
             ELSE IF IsAncOrSelf(i, j) THEN "around"        \* j is nested in i
             ELSE IF FirstLine(i) = FirstLine(j) THEN "same-line"
             ELSE "span-overlap"

(* ---- invariants on the model ---------------------------------------------- *)
Done == phase = "done"
SelfCandidate == Done => \A i \in 1 .. n : i \in Cand(i) /\ FirstLine(i) <= LastLine(i)
ResolvableUnique == Done => \A i \in 1 .. n : Resolvable(i) => ~Twin(i)
Nesting == Done => \A i \in 1 .. n : par[i] # 0 =>
              FirstLine(par[i]) <= FirstLine(i) /\ LastLine(i) <= LastLine(par[i])
Statements == Done => \A i \in 1 .. n : sep[i] = "semi" => par[i] = 0 /\ i > 1
Wrapping == Done => /\ NWrapped <= MaxWrap
                    /\ NWrapped > 0 => n <= MaxLW /\ \A i \in 1 .. n : sig[i] \in SigsW
                    /\ \A i \in 1 .. n : wr[i] = "no" => Shown(i) = Own(i) /\ ~Decoy(i)
PreOrder == Done => \A i \in 1 .. n - 1 : FirstLine(i) <= FirstLine(i + 1)

Emit == Done =>
  PrintT(ToJson([cx |-> cx, n |-> n, par |-> par, brk |-> brk, span |-> span, sig |-> sig,
                 sep |-> sep, wr |-> wr, own |-> [i \in 1 .. n |-> Own(i)], shown |-> [i \in 1 .. n |-> Shown(i)],
                 decoy |-> [i \in 1 .. n |-> Decoy(i)], stmt |-> [i \in 1 .. n |-> StmtOf(Root(i))], nst |-> 1 + NSemi(n),
                 text |-> text,
                 first |-> [i \in 1 .. n |-> FirstLine(i)], last |-> [i \in 1 .. n |-> LastLine(i)],
                 exp |-> [i \in 1 .. n |-> Expected(i)],
                 twin |-> [i \in 1 .. n |-> Twin(i)],
                 rivals |-> [i \in 1 .. n |-> [j \in 1 .. n |->
                               IF j # i /\ j \in Cand(i) THEN Rel(i, j) ELSE ""]]]))
=============================================================================
