----------------------------- MODULE CallPolicy -----------------------------
(***************************************************************************)
(* malt.impl.api.converted_call as an ordered decision chain (property C13)*)
(*                                                                         *)
(* A behaviour is a HISTORY of two calls of the call wrapper on the same   *)
(* callable.  The callable is an abstract descriptor `d`:                  *)
(*   kind     what the innermost target is (row of the table `Kinds`)      *)
(*   mod      the module the target's code lives in (module rules)         *)
(*   layers   a chain of functools.partial objects around it (depth <= 2), *)
(*            each with stored positional / keyword arguments              *)
(*   nest     whether Python itself flattened the chain at construction    *)
(*   npos,kwsh the call-site argument shape (kwargs None / {} / {k} / {k,z})*)
(*   raises   the target raises after having been entered                  *)
(*   opt      the conversion options (given directly, or call options of a *)
(*            caller's function scope: recursive / non-recursive mode)     *)
(*   ctx      the conversion-status context                                *)
(*   strict   AUTOGRAPH_STRICT_CONVERSION                                  *)
(*   fault    a failure injected at one point of the conversion pipeline,  *)
(*   fcall    armed during the first or the second call                    *)
(*   second   the second call uses the same / different options            *)
(*                                                                         *)
(* One action per decision step, in the order converted_call takes them.   *)
(* The allow-list (negative) cache and the conversion cache are state, so  *)
(* "first call falls back and is remembered, second call hits the cache"   *)
(* is a behaviour.  Arguments are sequences / maps of symbolic tokens, so  *)
(* the merged binding the target finally receives is part of the outcome.  *)
(*                                                                         *)
(* Deliberate deviations from the code (the model says what Python does):  *)
(*  * `bind` of a kind is the implicit receiver Python binds on a direct   *)
(*    call (none / self / cls / free variable); the code's                 *)
(*    `(f,) + args` for callable objects is NOT transcribed.               *)
(*  * kwargs None and {} are the same binding (Python semantics).          *)
(*  * the `other`/unknown-callable-type branch is unreachable in Python 3  *)
(*    (every object has type(f).__call__ looked up on `type`).             *)
(*  * the namedtuple rule of is_allowlisted is reachable only through      *)
(*    method-owner resolution (classes are decided as constructors first). *)
(***************************************************************************)
EXTENDS Naturals, Sequences, FiniteSets, TLC, Json

CONSTANT Tier                  \* "quick" | "thorough" (set by the harness in the cfg)

(* ======================================================================= *)
(* Module rules: malt/core/config.py CONVERSION_RULES, first match wins.   *)
(* Module names are sequences of dotted components.                        *)
(* ======================================================================= *)
Rules == <<
  [act |-> "CONVERT", p |-> <<"tensorflow", "python", "training", "experimental">>],
  [act |-> "DO_NOT",  p |-> <<"malt">>],
  [act |-> "DO_NOT",  p |-> <<"collections">>],
  [act |-> "DO_NOT",  p |-> <<"copy">>],
  [act |-> "DO_NOT",  p |-> <<"cProfile">>],
  [act |-> "DO_NOT",  p |-> <<"inspect">>],
  [act |-> "DO_NOT",  p |-> <<"ipdb">>],
  [act |-> "DO_NOT",  p |-> <<"linecache">>],
  [act |-> "DO_NOT",  p |-> <<"mock">>],
  [act |-> "DO_NOT",  p |-> <<"pathlib">>],
  [act |-> "DO_NOT",  p |-> <<"pdb">>],
  [act |-> "DO_NOT",  p |-> <<"posixpath">>],
  [act |-> "DO_NOT",  p |-> <<"pstats">>],
  [act |-> "DO_NOT",  p |-> <<"re">>],
  [act |-> "DO_NOT",  p |-> <<"threading">>],
  [act |-> "DO_NOT",  p |-> <<"urllib">>],
  [act |-> "DO_NOT",  p |-> <<"matplotlib">>],
  [act |-> "DO_NOT",  p |-> <<"numpy">>],
  [act |-> "DO_NOT",  p |-> <<"pandas">>],
  [act |-> "DO_NOT",  p |-> <<"tensorflow">>],
  [act |-> "DO_NOT",  p |-> <<"PIL">>],
  [act |-> "DO_NOT",  p |-> <<"absl", "logging">>],
  [act |-> "DO_NOT",  p |-> <<"tensorflow_probability">>],
  [act |-> "DO_NOT",  p |-> <<"tensorflow_datasets", "core">>],
  [act |-> "DO_NOT",  p |-> <<"keras">>] >>

IsPrefix(p, n) == Len(p) <= Len(n) /\ \A i \in 1..Len(p) : p[i] = n[i]
RECURSIVE FirstAction(_, _)
FirstAction(n, i) == IF i > Len(Rules) THEN "NONE"
                     ELSE IF IsPrefix(Rules[i].p, n) THEN Rules[i].act
                     ELSE FirstAction(n, i + 1)
ModuleAction(n) == FirstAction(n, 1)

(* the modules a fresh copy of the targets can be loaded as (the harness appends a fresh leaf) *)
ModNames == [
  user            |-> <<"vfc13user">>,
  tf_exp          |-> <<"tensorflow", "python", "training", "experimental">>,
  tf_training     |-> <<"tensorflow", "python", "training">>,
  tf              |-> <<"tensorflow">>,
  tensorflow_x    |-> <<"tensorflow_x">>,
  tfp             |-> <<"tensorflow_probability", "math">>,
  tfds            |-> <<"tensorflow_datasets">>,
  tfds_core       |-> <<"tensorflow_datasets", "core">>,
  malt            |-> <<"malt", "utils">>,
  maltese         |-> <<"maltese">>,
  numpy           |-> <<"numpy", "linalg">>,
  pathlibx        |-> <<"pathlibx">>,
  absl            |-> <<"absl", "flags">>,
  absl_logging    |-> <<"absl", "logging">>,
  keras           |-> <<"keras", "layers">>,
  re              |-> <<"re">>,
  threading       |-> <<"threading">>,
  pil             |-> <<"PIL">>,
  pilx            |-> <<"pil">>,
  (* modules of the real objects used by fixed-module kinds *)
  builtins        |-> <<"builtins">>,
  collections     |-> <<"collections">>,
  copy            |-> <<"copy">>,
  posixpath       |-> <<"posixpath">>,
  functools       |-> <<"functools">>,
  nomodule        |-> <<>> ]

ModsQuick    == {"user", "tf_exp", "tf_training", "tensorflow_x", "malt", "maltese", "numpy", "pathlibx",
                 "absl", "absl_logging", "keras"}
ModsThorough == ModsQuick \cup {"tf", "tfp", "tfds", "tfds_core", "re", "threading", "pil", "pilx"}
Mods == IF Tier = "quick" THEN ModsQuick ELSE ModsThorough

(* ======================================================================= *)
(* The kinds of callables: what the decision chain can observe of them.    *)
(*  art     carries autograph_info__ (converted artifact / do_not_convert) *)
(*  bi      builtin class                                                  *)
(*  unsup   is_unsupported reason                                          *)
(*  gen     generator function                                             *)
(*  callov  callable object whose __call__ is allow-listed                 *)
(*  owner   status of the method's defining class                          *)
(*  bind    implicit receiver Python binds on a direct call                *)
(*  code    py: Python code object; none: native; string: exec-defined     *)
(*  nat     a conversion failure the target causes by itself, and where    *)
(*  lam     lambda (source recovery does not go through getimmediatesource)*)
(*  cacheable  hashable and weak-referenceable (conversion.py catch-all)   *)
(*  instr   the harness can count invocations / see the received binding   *)
(*  ps,keys admissible total positional counts / keyword names             *)
(*  modsens the module dimension applies; otherwise fixmod                 *)
(*  uonly   restriction on user_requested for real library code            *)
(* ======================================================================= *)
AllPs == 0..6
KD == [art |-> FALSE, bi |-> "no", unsup |-> "no", gen |-> FALSE, callov |-> "no", owner |-> "no",
       bind |-> "none", code |-> "py", nat |-> "none", lam |-> FALSE, cacheable |-> TRUE,
       instr |-> TRUE, ps |-> AllPs, keys |-> {"k", "z"}, modsens |-> FALSE, fixmod |-> "user",
       uonly |-> FALSE]

Kinds == [
  (* ---- plain Python code ------------------------------------------------ *)
  function          |-> [KD EXCEPT !.modsens = TRUE],
  lambda            |-> [KD EXCEPT !.lam = TRUE, !.modsens = TRUE],
  closure           |-> [KD EXCEPT !.bind = "free"],
  decorated         |-> KD,
  bound_method      |-> [KD EXCEPT !.bind = "self", !.modsens = TRUE],
  unbound_method    |-> [KD EXCEPT !.bind = "first", !.ps = 1..6],
  class_method      |-> [KD EXCEPT !.bind = "cls"],
  static_method     |-> KD,
  callable_object   |-> [KD EXCEPT !.bind = "self", !.modsens = TRUE],
  callable_slots    |-> [KD EXCEPT !.bind = "self", !.cacheable = FALSE],
  callable_static   |-> KD,
  callable_classm   |-> [KD EXCEPT !.bind = "cls"],
  class_meta        |-> [KD EXCEPT !.bind = "self"],
  callable_partialsub |-> [KD EXCEPT !.bind = "self"],   \* instance of a functools.partial SUBCLASS that overrides __call__
  method_nt_sub     |-> [KD EXCEPT !.bind = "self"],
  method_overridden |-> [KD EXCEPT !.bind = "self"],
  (* ---- allow-listed by a rule other than the module of their code ------- *)
  generator         |-> [KD EXCEPT !.gen = TRUE, !.nat = "unsupported", !.modsens = TRUE],
  callable_gen      |-> [KD EXCEPT !.bind = "self", !.callov = "generator", !.nat = "unsupported"],
  callable_allowcall|-> [KD EXCEPT !.bind = "self", !.callov = "module"],
  method_testcase   |-> [KD EXCEPT !.bind = "self", !.owner = "testcase"],
  method_owner      |-> [KD EXCEPT !.bind = "self", !.owner = "allowed"],
  method_base       |-> [KD EXCEPT !.bind = "self", !.owner = "allowed"],
  method_nt_own     |-> [KD EXCEPT !.bind = "self", !.owner = "allowed"],
  method_nt         |-> [KD EXCEPT !.instr = FALSE, !.ps = {0}, !.keys = {}, !.fixmod = "collections", !.uonly = TRUE],
  (* ---- unsupported ------------------------------------------------------- *)
  class             |-> [KD EXCEPT !.unsup = "ctor", !.modsens = TRUE],
  namedtuple_class  |-> [KD EXCEPT !.unsup = "ctor", !.instr = FALSE, !.ps = 0..2],
  lru_cached        |-> [KD EXCEPT !.unsup = "lru"],
  wrapt_function    |-> [KD EXCEPT !.unsup = "wrapt"],
  stdlib_function   |-> [KD EXCEPT !.unsup = "stdlib", !.instr = FALSE, !.ps = {1}, !.keys = {}, !.fixmod = "copy"],
  real_allowlisted  |-> [KD EXCEPT !.instr = FALSE, !.ps = {1}, !.keys = {}, !.fixmod = "posixpath", !.uonly = TRUE],
  (* ---- artifacts --------------------------------------------------------- *)
  artifact_dnc      |-> [KD EXCEPT !.art = TRUE],
  artifact_converted|-> [KD EXCEPT !.art = TRUE],
  artifact_unspec   |-> [KD EXCEPT !.art = TRUE],
  (* ---- no usable code ---------------------------------------------------- *)
  exec_function     |-> [KD EXCEPT !.code = "string"],
  callable_native   |-> [KD EXCEPT !.code = "none", !.instr = FALSE, !.ps = {0}],
  c_unbound         |-> [KD EXCEPT !.code = "none", !.instr = FALSE, !.cacheable = FALSE, !.ps = 1..4, !.fixmod = "nomodule"],
  fn_nosource       |-> [KD EXCEPT !.nat = "source"],
  fn_forelse        |-> [KD EXCEPT !.nat = "unsupported"],
  async_function    |-> [KD EXCEPT !.nat = "naming"],
  (* ---- builtins ---------------------------------------------------------- *)
  bi_eval           |-> [KD EXCEPT !.bi = "eval", !.instr = FALSE, !.ps = {1}, !.keys = {}, !.fixmod = "builtins"],
  bi_super          |-> [KD EXCEPT !.bi = "super", !.instr = FALSE, !.ps = {0, 2}, !.keys = {}, !.fixmod = "builtins"],
  bi_globals        |-> [KD EXCEPT !.bi = "globals", !.instr = FALSE, !.ps = {0}, !.keys = {}, !.fixmod = "builtins"],
  bi_locals         |-> [KD EXCEPT !.bi = "locals", !.instr = FALSE, !.ps = {0}, !.keys = {}, !.fixmod = "builtins"],
  bo_sorted         |-> [KD EXCEPT !.bi = "overloaded", !.instr = FALSE, !.ps = {1}, !.fixmod = "builtins"],
  bo_print          |-> [KD EXCEPT !.bi = "overloaded", !.instr = FALSE, !.ps = 0..3, !.fixmod = "builtins"],
  bo_len            |-> [KD EXCEPT !.bi = "overloaded", !.instr = FALSE, !.ps = {1}, !.keys = {}, !.fixmod = "builtins"],
  bo_range          |-> [KD EXCEPT !.bi = "overloaded", !.instr = FALSE, !.ps = 1..3, !.keys = {}, !.fixmod = "builtins"],
  bo_int            |-> [KD EXCEPT !.bi = "overloaded", !.instr = FALSE, !.ps = {1}, !.keys = {"k"}, !.fixmod = "builtins"],
  bx_max            |-> [KD EXCEPT !.bi = "other", !.instr = FALSE, !.ps = 2..4, !.keys = {"k"}, !.fixmod = "builtins"],
  bx_dict           |-> [KD EXCEPT !.bi = "other", !.instr = FALSE, !.ps = {0}, !.fixmod = "builtins"],
  bx_next           |-> [KD EXCEPT !.bi = "other", !.instr = FALSE, !.ps = {1, 2}, !.keys = {}, !.fixmod = "builtins"],
  c_bound           |-> [KD EXCEPT !.bi = "other", !.instr = FALSE, !.ps = 0..4, !.fixmod = "nomodule"] ]

AllKinds == DOMAIN Kinds
InContextBuiltins == {"eval", "super", "globals", "locals"}

(* ======================================================================= *)
(* Options.  o_*: ConversionOptions(recursive=True, user_requested=u,      *)
(* internal_convert_user_code=i) passed as options=;  s_r*: the call       *)
(* options of a function scope whose function was converted with           *)
(* recursive=r (ConversionOptions.call_options: u=False, i=r).             *)
(* ======================================================================= *)
Opts == {"o_u0i1", "o_u1i1", "o_u0i0", "o_u1i0", "s_r1", "s_r0"}
OptU(o) == o \in {"o_u1i1", "o_u1i0"}
OptI(o) == o \in {"o_u0i1", "o_u1i1", "s_r1"}
ViaScope(o) == o \in {"s_r1", "s_r0"}
Flip(o) == CASE o = "o_u0i1" -> "o_u1i1" [] o = "o_u1i1" -> "o_u0i1"
             [] o = "o_u0i0" -> "o_u1i0" [] o = "o_u1i0" -> "o_u0i0"
             [] o = "s_r1" -> "s_r0"     [] o = "s_r0" -> "s_r1"
Ctxs == {"ENABLED", "DISABLED", "UNSPECIFIED"}

(* ======================================================================= *)
(* The conversion pipeline: stages in execution order, and the points at   *)
(* which the harness can make it fail.                                     *)
(* ======================================================================= *)
Stages == <<"source", "parse", "origin", "naming", "unsupported", "analysis", "converter", "load", "instantiate">>
StageOf == [
  source |-> "source", parse |-> "parse", origin |-> "origin", unsupported |-> "unsupported",
  cfg |-> "analysis", qual_names |-> "analysis", activity |-> "analysis", reaching_definitions |-> "analysis",
  functions |-> "converter", directives |-> "converter", break_statements |-> "converter",
  continue_statements |-> "converter", return_statements |-> "converter", call_trees |-> "converter",
  control_flow |-> "converter", conditional_expressions |-> "converter", logical_expressions |-> "converter",
  variables |-> "converter", load |-> "load", instantiate |-> "instantiate" ]
FaultsAll   == DOMAIN StageOf
FaultsQuick == {"source", "parse", "unsupported", "activity", "control_flow", "load", "instantiate"}
Faults == IF Tier = "quick" THEN FaultsQuick ELSE FaultsAll

(* ======================================================================= *)
(* Arguments as symbolic tokens                                            *)
(* ======================================================================= *)
CallPos(n) == SubSeq(<<"c1", "c2">>, 1, n)
StoredPos(j) == IF j = 1 THEN "s1" ELSE "s2"
StoredKw(j, key) == IF j = 1 THEN (IF key = "k" THEN "s1k" ELSE "s1z") ELSE (IF key = "k" THEN "s2k" ELSE "s2z")
KwShapes == {"none", "empty", "k", "kz"}
KwKeys(sh) == CASE sh = "k" -> {"k"} [] sh = "kz" -> {"k", "z"} [] OTHER -> {}
CallKw(sh) == [x \in KwKeys(sh) |-> IF x = "k" THEN "ck" ELSE "cz"]
Merge(a, b) == [x \in (DOMAIN a) \cup (DOMAIN b) |-> IF x \in DOMAIN b THEN b[x] ELSE a[x]]   \* b wins
KwSeq(f) == (IF "k" \in DOMAIN f THEN << <<"k", f["k"]>> >> ELSE <<>>) \o
            (IF "z" \in DOMAIN f THEN << <<"z", f["z"]>> >> ELSE <<>>)

(* a partial layer as written: [np, ks]; as an object: [pos, kw] *)
LayerObj(j, L) == [pos |-> IF L.np = 1 THEN <<StoredPos(j)>> ELSE <<>>,
                   kw  |-> [x \in L.ks |-> StoredKw(j, x)]]
(* layer 1 is the outermost object: partial(partial(base, <layer 2>), <layer 1>) *)
Written(dd) == [j \in 1..Len(dd.layers) |-> LayerObj(j, dd.layers[j])]
(* functools.partial.__new__ flattens a partial of a plain partial object *)
ChainOf(dd) == LET w == Written(dd) IN
  IF Len(w) = 2 /\ dd.nest = "flat"
  THEN << [pos |-> w[2].pos \o w[1].pos, kw |-> Merge(w[2].kw, w[1].kw)] >>
  ELSE w

\* Python: calling partial(func, a.., k..) with (b.., c..) calls func(a.., b.., k.. overridden by c..)
RECURSIVE Through(_, _, _, _)
Through(ch, l, p, k) == IF l > Len(ch) THEN <<p, k>>
                        ELSE Through(ch, l + 1, ch[l].pos \o p, Merge(ch[l].kw, k))
PyDirect(dd) == Through(Written(dd), 1, CallPos(dd.npos), CallKw(dd.kwsh))

(* ======================================================================= *)
(* State                                                                   *)
(* ======================================================================= *)
VARIABLES d,       \* the descriptor, constant during a behaviour
          callno,  \* 1 or 2
          pc,      \* decision step
          lay,     \* object under examination: 1..NL partial layers, NL+1 the target
          pos, kw, \* current positional tokens / keyword map
          cache,   \* allow-list (negative) cache: set of <<object index, options>>
          ccache,  \* conversion cache of the target: set of options
          out,     \* outcome of the current call
          hist     \* outcomes of finished calls
vars == <<d, callno, pc, lay, pos, kw, cache, ccache, out, hist>>

K       == Kinds[d.kind]
Chain   == ChainOf(d)
NL      == Len(Chain)
BaseIdx == NL + 1
OptNow  == IF callno = 2 /\ d.second = "flip" THEN Flip(d.opt) ELSE d.opt
U       == OptU(OptNow)
I       == OptI(OptNow)
Armed   == d.fault # "none" /\ d.fcall = callno
ModOf   == ModNames[IF K.modsens THEN d.mod ELSE K.fixmod]
Cacheable(l) == IF l = BaseIdx THEN K.cacheable ELSE TRUE

NoInv == [mode |-> "none", pos |-> <<>>, kw |-> <<>>, bound |-> "none"]
Out0  == [rule |-> "", ninv |-> 0, inv |-> NoInv, warn |-> 0, att |-> 0, exc |-> "", failat |-> "", cache |-> {}]

(* the stage at which the conversion of the target fails, "" if it succeeds *)
FailsAt(stage) ==
  \/ K.nat = stage
  \/ /\ Armed
     /\ StageOf[d.fault] = stage
     /\ ~(K.lam /\ d.fault = "source")      \* lambdas: parser._parse_lambda, no getimmediatesource

(* ---- invoking something finishes the call -------------------------------- *)
Final == Through(Chain, lay, pos, kw)
Finish(rule, mode, addcache, warn) ==
  /\ out' = [out EXCEPT !.rule = rule, !.ninv = @ + 1,
                        !.inv = [mode |-> mode, pos |-> Final[1], kw |-> KwSeq(Final[2]), bound |-> K.bind],
                        !.warn = @ + warn,
                        !.exc = IF d.raises THEN "target" ELSE @]
  /\ cache' = IF addcache /\ Cacheable(lay) THEN cache \cup {<<lay, OptNow>>} ELSE cache
  /\ pc' = "done"
  /\ UNCHANGED <<d, callno, lay, pos, kw, ccache, hist>>
Goto(l) == pc' = l /\ UNCHANGED <<d, callno, lay, pos, kw, cache, ccache, out, hist>>

(* ======================================================================= *)
(* The decision chain                                                      *)
(* ======================================================================= *)
CheckCache ==        \* conversion.is_in_allowlist_cache(f, options)
  /\ pc = "cache"
  /\ IF <<lay, OptNow>> \in cache THEN Finish("cache_hit", "unconverted", FALSE, 0) ELSE Goto("ctx")

CheckCtx ==          \* control_status_ctx().status == DISABLED
  /\ pc = "ctx"
  /\ IF d.ctx = "DISABLED" THEN Finish("ctx_disabled", "unconverted", FALSE, 0) ELSE Goto("artifact")

CheckArtifact ==     \* is_autograph_artifact(f)
  /\ pc = "artifact"
  /\ IF lay = BaseIdx /\ K.art THEN Finish("artifact", "unconverted", TRUE, 0) ELSE Goto("partial")

UnwrapPartial ==     \* isinstance(f, functools.partial): merge and redo all the checks on f.func
  /\ pc = "partial"
  /\ IF lay <= NL
     THEN /\ pos' = Chain[lay].pos \o pos              \* f.args + args
          /\ kw' = Merge(Chain[lay].kw, kw)            \* f.keywords.copy().update(kwargs): the call site wins
          /\ lay' = lay + 1
          /\ pc' = "cache"
          /\ UNCHANGED <<d, callno, cache, ccache, out, hist>>
     ELSE Goto("builtin")

CheckBuiltin ==      \* inspect_utils.isbuiltin(f)
  /\ pc = "builtin"
  /\ CASE K.bi \in InContextBuiltins -> Finish("builtin_in_context", "in_context", FALSE, 0)
       [] K.bi = "overloaded"        -> Finish("builtin_overload", "overload", FALSE, 0)
       [] K.bi = "other"             -> Finish("builtin", "unconverted", FALSE, 0)
       [] OTHER                      -> Goto("unsupported")

CheckUnsupported ==  \* conversion.is_unsupported(f)
  /\ pc = "unsupported"
  /\ CASE K.unsup = "wrapt"  -> Finish("unsupported_wrapt", "unconverted", TRUE, 1)   \* warns by itself
       [] K.unsup = "lru"    -> Finish("unsupported_lru", "unconverted", TRUE, 0)
       [] K.unsup = "ctor"   -> Finish("unsupported_constructor", "unconverted", TRUE, 0)
       [] K.unsup = "stdlib" -> Finish("unsupported_stdlib", "unconverted", TRUE, 0)
       [] OTHER              -> Goto("user_requested")

CheckUserRequested == \* `not options.user_requested and is_allowlisted(f)`
  /\ pc = "user_requested"
  /\ Goto(IF U THEN "internal" ELSE "al_module")

AlModule ==          \* is_allowlisted: module rules, first match wins; a Convert rule ends the search
  /\ pc = "al_module"
  /\ LET a == ModuleAction(ModOf) IN
       CASE a = "DO_NOT"  -> Finish("allow_module", "unconverted", TRUE, 0)
         [] a = "CONVERT" -> Goto("internal")
         [] OTHER         -> Goto("al_generator")

AlGenerator ==       \* generator functions
  /\ pc = "al_generator"
  /\ IF K.gen THEN Finish("allow_generator", "unconverted", TRUE, 0) ELSE Goto("al_callov")

AlCallOverride ==    \* callable objects whose __call__ is allow-listed
  /\ pc = "al_callov"
  /\ IF K.callov # "no" THEN Finish("allow_call_override", "unconverted", TRUE, 0) ELSE Goto("al_owner")

AlOwner ==           \* methods of TestCase subclasses / of allow-listed defining classes (incl. namedtuples)
  /\ pc = "al_owner"
  /\ IF K.owner \in {"testcase", "allowed"} THEN Finish("allow_owner", "unconverted", TRUE, 0) ELSE Goto("internal")

CheckInternal ==     \* not options.internal_convert_user_code (non-recursive mode)
  /\ pc = "internal"
  /\ IF ~I THEN Finish("no_internal_convert", "unconverted", TRUE, 0) ELSE Goto("code")

CheckCode ==         \* target entity without __code__ / with '<string>' code
  /\ pc = "code"
  /\ CASE K.code = "none"   -> Finish("native", "unconverted", TRUE, 0)
       [] K.code = "string" -> Finish("dynamic_code", "unconverted", TRUE, 0)
       [] OTHER             -> /\ pc' = "cv_lookup"
                               /\ out' = [out EXCEPT !.att = @ + 1]      \* _convert_actual is entered
                               /\ UNCHANGED <<d, callno, lay, pos, kw, cache, ccache, hist>>

ConvLookup ==        \* transpiler cache: code x options; a hit skips everything but instantiate
  /\ pc = "cv_lookup"
  /\ Goto(IF OptNow \in ccache THEN "cv_instantiate" ELSE "cv_source")

StageLabel(s) == CASE s = "source" -> "cv_source" [] s = "parse" -> "cv_parse" [] s = "origin" -> "cv_origin"
                   [] s = "naming" -> "cv_naming" [] s = "unsupported" -> "cv_unsupported"
                   [] s = "analysis" -> "cv_analysis" [] s = "converter" -> "cv_converter"
                   [] s = "load" -> "cv_load" [] s = "instantiate" -> "cv_instantiate"
NextLabel(i) == IF i = Len(Stages) THEN "cv_call" ELSE StageLabel(Stages[i + 1])

RunStage(i) ==       \* one pipeline stage; a failure is caught by `except Exception`
  /\ pc = StageLabel(Stages[i])
  /\ IF FailsAt(Stages[i])
     THEN /\ out' = [out EXCEPT !.failat = Stages[i]]
          /\ pc' = IF d.strict THEN "raise" ELSE "fallback"
          /\ UNCHANGED ccache
     ELSE /\ pc' = NextLabel(i)
          /\ ccache' = IF Stages[i] = "load" THEN ccache \cup {OptNow} ELSE ccache
          /\ UNCHANGED out
  /\ UNCHANGED <<d, callno, lay, pos, kw, cache, hist>>

CallConverted ==     \* the converted function is called with the effective arguments
  /\ pc = "cv_call"
  /\ Finish("converted", "converted", FALSE, 0)

FallBack ==          \* _fall_back_unconverted: warn, remember, run as-is
  /\ pc = "fallback"
  /\ Finish("fallback", "unconverted", TRUE, 1)

StrictRaise ==       \* AUTOGRAPH_STRICT_CONVERSION: the conversion error propagates
  /\ pc = "raise"
  /\ out' = [out EXCEPT !.rule = "strict_raise", !.exc = "conversion"]
  /\ pc' = "done"
  /\ UNCHANGED <<d, callno, lay, pos, kw, cache, ccache, hist>>

NextCall ==
  /\ pc = "done"
  /\ hist' = Append(hist, [out EXCEPT !.cache = cache])
  /\ IF callno = 1
     THEN /\ callno' = 2 /\ pc' = "cache" /\ lay' = 1 /\ out' = Out0
          /\ pos' = CallPos(d.npos) /\ kw' = CallKw(d.kwsh)
     ELSE /\ pc' = "end" /\ UNCHANGED <<callno, lay, out, pos, kw>>
  /\ UNCHANGED <<d, cache, ccache>>

Next == \/ CheckCache \/ CheckCtx \/ CheckArtifact \/ UnwrapPartial \/ CheckBuiltin \/ CheckUnsupported
        \/ CheckUserRequested \/ AlModule \/ AlGenerator \/ AlCallOverride \/ AlOwner \/ CheckInternal
        \/ CheckCode \/ ConvLookup \/ (\E i \in 1..Len(Stages) : RunStage(i))
        \/ CallConverted \/ FallBack \/ StrictRaise \/ NextCall

(* ======================================================================= *)
(* The input space, by sweeps (tier-dependent bounds)                      *)
(* ======================================================================= *)
Desc(kind, mod, layers, nest, npos, kwsh, raises, opt, ctx, strict, fault, fcall, second) ==
  [kind |-> kind, mod |-> mod, layers |-> layers, nest |-> nest, npos |-> npos, kwsh |-> kwsh,
   raises |-> raises, opt |-> opt, ctx |-> ctx, strict |-> strict, fault |-> fault, fcall |-> fcall,
   second |-> second]

Ly(np, ks) == [np |-> np, ks |-> ks]
LayerSetAll   == {Ly(np, ks) : np \in 0..1, ks \in SUBSET {"k", "z"}}
LayerSetSmall == {Ly(1, {"k"}), Ly(0, {"k", "z"}), Ly(1, {})}
Chains(one, two) == {<<>>} \cup {<<a>> : a \in one} \cup {<<a, b>> : a \in two, b \in two}
Nests(ls) == IF Len(ls) = 2 THEN {"flat", "kept"} ELSE {"kept"}
AllShapes == {<<n, s>> : n \in 0..2, s \in KwShapes}

TotalPos(x) == x.npos + (IF Len(x.layers) >= 1 THEN x.layers[1].np ELSE 0)
                      + (IF Len(x.layers) >= 2 THEN x.layers[2].np ELSE 0)
AllKeys(x) == KwKeys(x.kwsh) \cup (IF Len(x.layers) >= 1 THEN x.layers[1].ks ELSE {})
                             \cup (IF Len(x.layers) >= 2 THEN x.layers[2].ks ELSE {})
Admissible(x) ==
  LET kk == Kinds[x.kind] IN
  /\ TotalPos(x) \in kk.ps
  /\ AllKeys(x) \subseteq kk.keys
  /\ (x.mod # "user" => kk.modsens)
  /\ (x.raises => kk.instr)
  /\ (kk.bi \in InContextBuiltins => ViaScope(x.opt) /\ x.kwsh \in {"none", "empty"})
  /\ (kk.uonly => ~OptU(x.opt) /\ x.second = "same")
  /\ (x.fault = "none" => x.fcall = 1)

Q == Tier = "quick"

(* P: the policy table - every kind x options x context, few shapes *)
ShapesP == IF Q THEN {<<0, "none">>, <<1, "none">>, <<1, "k">>, <<0, "kz">>, <<2, "empty">>}
           ELSE {<<0, "none">>, <<1, "none">>, <<1, "empty">>, <<1, "k">>, <<2, "none">>, <<0, "kz">>, <<2, "empty">>}
ChainsP == IF Q THEN {<<>>, <<Ly(1, {"k"})>>} ELSE {<<>>, <<Ly(1, {"k"})>>, <<Ly(0, {})>>}
CtxOpts == {<<c, o>> : c \in IF Q THEN {"ENABLED"} ELSE {"ENABLED", "UNSPECIFIED"}, o \in Opts}
             \cup {<<"DISABLED", o>> : o \in IF Q THEN {"o_u1i1", "s_r1"} ELSE Opts}
SweepP == {Desc(k, "user", ls, "kept", s[1], s[2], FALSE, co[2], co[1], FALSE, "none", 1, "same") :
             k \in AllKinds, ls \in ChainsP, s \in ShapesP, co \in CtxOpts}

(* M: module rules *)
KindsM == {"function", "lambda", "bound_method", "callable_object", "generator", "class"}
SweepM == {Desc(k, m, <<>>, "kept", 1, "none", FALSE, o, "ENABLED", FALSE, "none", 1, sec) :
             k \in KindsM, m \in Mods, o \in Opts, sec \in {"same", "flip"}}

(* B: argument binding through partial chains *)
KindsBQuick == {"function", "bound_method", "callable_object", "class", "generator",
                "artifact_dnc", "bo_print", "c_bound", "unbound_method"}
KindsB == IF Q THEN KindsBQuick ELSE {k \in AllKinds : Kinds[k].keys = {"k", "z"}}
KindsBDeep == IF Q THEN {} ELSE {"function", "bound_method", "class", "bo_print", "callable_object", "generator",
                                  "class_method", "c_bound", "unbound_method"}   \* every depth-2 chain
KindOptsB == {<<k, "o_u0i1">> : k \in KindsB}
               \cup {<<k, o>> : k \in IF Q THEN {"function"} ELSE KindsBQuick, o \in {"s_r0", "o_u1i1"}}
SweepBRaw == {Desc(ko[1], "user", ls, n, s[1], s[2], FALSE, ko[2], "UNSPECIFIED", FALSE, "none", 1, "same") :
                ko \in KindOptsB, ls \in Chains(LayerSetAll, IF Q THEN LayerSetSmall ELSE LayerSetAll),
                n \in {"flat", "kept"}, s \in AllShapes}
DeepOK(x) == Len(x.layers) = 2 =>
               x.kind \in KindsBDeep \/ (x.layers[1] \in LayerSetSmall /\ x.layers[2] \in LayerSetSmall)

(* F: conversion failures and their memory *)
KindsFQuick == {"function", "lambda", "closure", "bound_method", "class_method", "static_method",
                "callable_object", "callable_slots", "decorated", "generator", "method_nt_sub",
                "fn_nosource", "fn_forelse", "async_function", "class", "artifact_dnc", "bo_len"}
KindsF == IF Q THEN KindsFQuick
          ELSE KindsFQuick \cup {"exec_function", "callable_native", "lru_cached"}
                 \cup {k \in AllKinds : Kinds[k].code = "py" /\ Kinds[k].bi = "no" /\ Kinds[k].unsup = "no" /\ ~Kinds[k].art}
KindsF2 == IF Q THEN {"function", "lambda", "bound_method", "callable_object"} ELSE KindsFQuick
FaultsN == Faults \cup {"none"}
(* F1: a fault during the first call; the second call repeats it with the same / other options *)
SweepF1 == {Desc(k, "user", <<>>, "kept", 1, "none", FALSE, o, "ENABLED", st, f, 1, sec) :
              k \in KindsF, o \in IF Q THEN {"o_u0i1", "o_u1i1"} ELSE Opts, st \in BOOLEAN, f \in FaultsN,
              sec \in {"same", "flip"}}
(* F2: the first call converts, the fault is armed during the second call (conversion cache) *)
SweepF2 == {Desc(k, "user", <<>>, "kept", 1, "k", FALSE, o, "ENABLED", st, f, 2, sec) :
              k \in KindsF2, o \in {"o_u0i1", "s_r1"}, st \in BOOLEAN, f \in Faults, sec \in {"same", "flip"}}
(* F3: through partial chains, other shapes, other contexts *)
SweepF3 == {Desc(k, "user", ls, "kept", s[1], s[2], FALSE, "o_u0i1", c, st, f, 1, "same") :
              k \in KindsF2, ls \in {<<Ly(1, {"k"})>>, <<Ly(0, {"z"}), Ly(1, {"k", "z"})>>},
              s \in {<<0, "empty">>, <<2, "kz">>}, c \in {"UNSPECIFIED", "DISABLED"}, st \in BOOLEAN, f \in Faults}
(* F4: inside recursively converted code (call options of a function scope) *)
SweepF4 == {Desc(k, "user", <<>>, "kept", 1, "empty", FALSE, "s_r1", "ENABLED", FALSE, f, 1, "same") :
              k \in KindsF, f \in Faults}

(* R: the target raises *)
InstrKinds == {kk \in AllKinds : Kinds[kk].instr}
SweepR == {Desc(k, "user", ls, "kept", 1, s, TRUE, o, "ENABLED", FALSE, f, 1, "same") :
             k \in InstrKinds, ls \in {<<>>, <<Ly(1, {"k"})>>}, s \in {"none", "k"},
             o \in {"o_u0i1", "o_u0i0"}, f \in {"none", "load"}}
          \cup
          {Desc(k, "user", <<>>, "kept", 1, "none", TRUE, o, c, st, f, 1, "same") :
             k \in IF Q THEN {"function", "bound_method", "callable_object", "class", "generator"} ELSE InstrKinds,
             o \in {"o_u0i1", "s_r1", "o_u1i0"}, c \in Ctxs, st \in BOOLEAN, f \in {"none", "parse"}}

InScope(x) == Admissible(x) /\ (Len(x.layers) < 2 => x.nest = "kept")

(* (a disjunction rather than a union: TLC enumerates each sweep linearly; duplicates are one state) *)
Init == /\ \/ d \in SweepP \/ d \in SweepM \/ (d \in SweepBRaw /\ DeepOK(d)) \/ d \in SweepF1 \/ d \in SweepF2 \/ d \in SweepF3 \/ d \in SweepF4 \/ d \in SweepR
        /\ InScope(d)
        /\ callno = 1 /\ pc = "cache" /\ lay = 1
        /\ pos = CallPos(d.npos) /\ kw = CallKw(d.kwsh)
        /\ cache = {} /\ ccache = {} /\ out = Out0 /\ hist = <<>>
Spec == Init /\ [][Next]_vars
InitOnly == pc = "never"     \* (as a CONSTRAINT: only the initial states are computed)

(* ======================================================================= *)
(* The property, on the model                                              *)
(* ======================================================================= *)
AtDone == pc = "done"

(* the documented policy, stated declaratively (functions.md "Function conversion rules", *)
(* the property statement), independent of the order of the chain                        *)
AllowListed ==
  LET a == ModuleAction(ModOf) IN
  \/ a = "DO_NOT"
  \/ a = "NONE" /\ (K.gen \/ K.callov # "no" \/ K.owner \in {"testcase", "allowed"})
RememberedBefore == callno = 2 /\ Len(hist) = 1 /\ <<BaseIdx, OptNow>> \in hist[1].cache
Excluded ==
  \/ RememberedBefore
  \/ d.ctx = "DISABLED"
  \/ K.art
  \/ K.bi # "no"
  \/ K.unsup # "no"
  \/ (~U /\ AllowListed)
  \/ ~I
  \/ K.code # "py"
FailedNow == out.failat # ""

(* the target is invoked exactly once per call - unless a conversion error propagates in strict mode *)
ExactlyOnce == AtDone => IF out.exc = "conversion" THEN out.ninv = 0 ELSE out.ninv = 1

(* `converted` only if no rule of the documented policy excludes the target, and then always *)
ConvertedOnlyIfPolicyAllows == AtDone /\ out.inv.mode = "converted" => ~Excluded /\ ~FailedNow
ConvertedWheneverPolicyAllows == AtDone /\ ~Excluded /\ ~FailedNow => out.inv.mode = "converted"
OverloadOnlyForBuiltins == AtDone /\ out.inv.mode \in {"overload", "in_context"} => K.bi # "no" /\ d.ctx # "DISABLED"

(* a fault at any stage leads to the unconverted call + warning + cache entry, never an error *)
SafeFallback == AtDone /\ FailedNow /\ ~d.strict =>
                  /\ out.ninv = 1 /\ out.inv.mode = "unconverted" /\ out.warn = 1
                  /\ out.exc = (IF d.raises THEN "target" ELSE "")
                  /\ (K.cacheable => <<BaseIdx, OptNow>> \in cache)
StrictPropagates == AtDone /\ FailedNow /\ d.strict =>
                  /\ out.exc = "conversion" /\ out.ninv = 0 /\ out.warn = 0
                  /\ <<BaseIdx, OptNow>> \notin cache
NoErrorFromTheWrapper == AtDone /\ out.exc = "conversion" => d.strict /\ FailedNow

(* the failure is remembered: no second attempt, no second warning *)
Remembered == AtDone /\ callno = 2 /\ d.second = "same" /\ hist[1].rule = "fallback" /\ K.cacheable =>
                out.rule = "cache_hit" /\ out.warn = 0 /\ out.att = 0 /\ out.ninv = 1
WarnOnlyOnFailure == AtDone /\ out.warn > 0 => out.rule = "fallback" \/ K.unsup = "wrapt"
NonRecursiveNeverConverts == AtDone /\ OptNow = "s_r0" => out.inv.mode # "converted"

(* partial merging equals Python's own partial call semantics - at every step *)
PartialSemantics == pc = "cache" => Through(Chain, lay, pos, kw) = PyDirect(d)   \* pos, kw, lay change only on entering "cache"
BindingAtCall == AtDone /\ out.ninv = 1 => out.inv.pos = PyDirect(d)[1] /\ out.inv.kw = KwSeq(PyDirect(d)[2])
(* the call site wins over stored keywords, inner stored positionals come first *)
CallSiteWins == AtDone /\ out.ninv = 1 =>
                  \A i \in 1..Len(out.inv.kw) :
                     out.inv.kw[i][1] \in KwKeys(d.kwsh) => out.inv.kw[i][2] \in {"ck", "cz"}

TypeOK == /\ callno \in 1..2 /\ lay \in 1..BaseIdx /\ Len(hist) <= 2
          /\ out.ninv \in 0..1 /\ out.warn \in 0..1 /\ out.att \in 0..1

(* ---- expected observations for the harness: one JSON line per history --- *)
KwSeqKeys(s) == (IF "k" \in s THEN <<"k">> ELSE <<>>) \o (IF "z" \in s THEN <<"z">> ELSE <<>>)
LayersJson(dd) == [j \in 1..Len(dd.layers) |-> [np |-> dd.layers[j].np, ks |-> KwSeqKeys(dd.layers[j].ks)]]
ChainJson == [j \in 1..NL |-> [pos |-> Chain[j].pos, kw |-> KwSeq(Chain[j].kw)]]
CallJson(h) == [rule |-> h.rule, ninv |-> h.ninv, mode |-> h.inv.mode, pos |-> h.inv.pos, kw |-> h.inv.kw,
                bound |-> h.inv.bound, warn |-> h.warn, att |-> h.att, exc |-> h.exc, failat |-> h.failat,
                cache |-> h.cache]
Expect == pc = "end" =>
  PrintT(ToJson([kind |-> d.kind, mod |-> ModOf, layers |-> LayersJson(d), nest |-> d.nest, npos |-> d.npos,
                 kwsh |-> d.kwsh, raises |-> d.raises, opt |-> d.opt, ctx |-> d.ctx, strict |-> d.strict,
                 fault |-> d.fault, fcall |-> d.fcall, second |-> d.second,
                 chain |-> ChainJson, nl |-> NL, bind |-> K.bind, instr |-> K.instr, nat |-> K.nat,
                 modsens |-> K.modsens,
                 cacheable |-> K.cacheable, opt2 |-> IF d.second = "flip" THEN Flip(d.opt) ELSE d.opt,
                 calls |-> <<CallJson(hist[1]), CallJson(hist[2])>>]))
=============================================================================
