-------------------------- MODULE TraceConvCache --------------------------
(***************************************************************************)
(* Trace validation for ConvCache (property C10, code -> spec).            *)
(*                                                                         *)
(* C10_TRACES is a JSON file: a sequence of traces                         *)
(*   [id, fns : <<<<code, env>>, ..>>, ev : <<event, ..>>]                  *)
(* recorded from real multi-threaded runs of malt (vf/c10_probe.py).  An   *)
(* event is [th, ev, key, sub, env, fac, res]: integers, but ev (a string) *)
(* and fac (a factory name <<code, opts, n>>, <<0, 0, 0>> = none/unknown).  *)
(* Heap events (thread 0): "def" (a function object [key, env] is seen for *)
(* the first time; fac = <<address of its code object, contents of its     *)
(* cells, 0>>), "collect", "rebind" (the captured variables of env now     *)
(* hold res), "look" (a result handed out for a request of [key, env] was  *)
(* called: the captured value it read is res - it has to be what the       *)
(* cells of the requesting function hold, cellval[env]).                   *)
(* Each trace is checked in two modes (variable `mode`):                   *)
(*                                                                         *)
(* "strict": every event must be an action of ConvCache taken by that      *)
(*   thread in the current state, with the logged values equal to the      *)
(*   values in the specification (result of has(), key and factory of a    *)
(*   load/store, factory and environment the result was bound to).  The    *)
(*   atomic read of the lock-free has() is not observable: FastRead is a   *)
(*   silent step that TLC places between has_start and has_end.  A key's   *)
(*   entry only ever goes from absent to present while a request for it is *)
(*   in flight, so the result of the read is monotone in its position and  *)
(*   it suffices to try the two extreme positions (directly after          *)
(*   has_start, directly before has_end): every linearisation consistent   *)
(*   with the recorded interval is accepted, with a linear number of       *)
(*   states.  The trace is accepted iff some path consumes all events.     *)
(*                                                                         *)
(* "obs": no protocol, only the observable history (requests, successful   *)
(*   transforms, results) is replayed into the history variables, and the  *)
(*   property invariants AtMostOnce / Coherent / NoAlias / NoStale are     *)
(*   evaluated on it.  Used to name the violated property when a trace is  *)
(*   rejected in strict mode, and as an independent check.                 *)
(*                                                                         *)
(* Nothing fails inside TLC: verdicts are printed as JSON by the always-   *)
(* true invariant Report and collected by the harness.                     *)
(***************************************************************************)
EXTENDS ConvCache, Json, IOUtils, TLCExt

CONSTANT Modes
Traces == JsonDeserialize(IOEnv.C10_TRACES)
Diag   == IOEnv.C10_DIAG = "1"

VARIABLES tr, l, mode
tvars == <<vars, tr, l, mode>>

Ev  == Traces[tr].ev
Fn0 == {F(Traces[tr].fns[i][1], Traces[tr].fns[i][2]) : i \in 1..Len(Traces[tr].fns)}

TInit == /\ tr \in 1..Len(Traces) /\ l = 1 /\ mode \in Modes
         /\ InitWith(Fn0)

Adv  == l' = l + 1 /\ UNCHANGED <<tr, mode>>
Stay == UNCHANGED <<tr, l, mode>>
KeyIs(t, e) == RealKey(Top(t)) = <<e.key, e.sub>>

(* ---- strict: the events are actions of the specification ------------------ *)
Visible(e, t) ==
  LET f == F(e.key, e.env) IN
  \/ e.ev = "req" /\ ~Busy(t) /\ Start(t, f, e.sub)
  \/ e.ev = "req" /\ Busy(t) /\ Nested(t, f, e.sub)
  \/ e.ev = "has_start" /\ At(t, "fast") /\ KeyIs(t, e) /\ HasBegin(t)
  \/ e.ev = "has_start" /\ At(t, "recheck") /\ KeyIs(t, e) /\ UNCHANGED vars
  \/ e.ev = "has_end" /\ At(t, "fastrdd") /\ Top(t).seen = (e.res = 1) /\ HasEnd(t)
  \/ e.ev = "has_end" /\ At(t, "recheck") /\ Cached(Top(t)) = (e.res = 1) /\ ReCheck(t)
  \/ e.ev = "load" /\ At(t, "fastget") /\ KeyIs(t, e) /\ cache[Key(Top(t))] = e.fac /\ FastGet(t)
  \/ e.ev = "load" /\ At(t, "lockget") /\ KeyIs(t, e) /\ cache[Key(Top(t))] = e.fac /\ LockGet(t)
  \/ e.ev = "acquired" /\ Acquire(t)
  \/ e.ev = "transform_begin" /\ TransformBegin(t)
  \/ e.ev = "parse_fail" /\ ParseFail(t)
  \/ e.ev = "transform_fail" /\ TransformFail(t)
  \/ e.ev = "transform_ok" /\ TransformOk(t)
  \/ e.ev = "store" /\ At(t, "store") /\ KeyIs(t, e) /\ Top(t).fac = e.fac /\ Store(t)
  \/ e.ev = "released" /\ At(t, "release") /\ Release(t)
  \/ e.ev = "released" /\ At(t, "failrel") /\ ReleaseFail(t)
  \/ e.ev = "err" /\ Raise(t)
  \/ e.ev = "inst" /\ At(t, "inst") /\ Top(t).fac = e.fac /\ Top(t).env = e.env /\ Instantiate(t)
  \/ e.ev = "ret" /\ Return(t)
  \/ e.ev = "def" /\ DefineFn(f, e.fac[1], e.fac[2]) /\ UNCHANGED cnt
  \/ e.ev = "collect" /\ Collect(e.key)
  \/ e.ev = "rebind" /\ Rebind(e.env, e.res)
  \/ e.ev = "look" /\ e.env \in Envs /\ cellval[e.env] = e.res /\ UNCHANGED vars

Strict ==
  \/ l <= Len(Ev) /\ Adv /\ Visible(Ev[l], Ev[l].th)
  \* the silent atomic read, at the latest or at the earliest possible position
  \/ l <= Len(Ev) /\ Ev[l].ev = "has_end" /\ FastRead(Ev[l].th) /\ Stay
  \/ l > 1 /\ l <= Len(Ev) + 1 /\ Ev[l - 1].ev = "has_start" /\ FastRead(Ev[l - 1].th) /\ Stay

(* ---- obs: only the history --------------------------------------------------- *)
ObsEvents == {"req", "transform_ok", "store", "inst", "ret", "err", "collect", "def", "rebind"}
Obs ==
  /\ l <= Len(Ev) /\ Adv
  /\ LET e == Ev[l]
         t == e.th
     IN
     \/ /\ e.ev = "req"
        /\ stack' = Push(t, NewFrame(F(e.key, e.env), e.sub))
        /\ UNCHANGED <<fns, used, cache, owner, depth, ntr, facEnv, heap, memo, returned, cnt>>
     \/ /\ e.ev = "transform_ok" /\ Busy(t)
        /\ ntr' = [ntr EXCEPT ![RealKey(Top(t))] = @ + 1]
        /\ UNCHANGED <<fns, used, cache, owner, depth, stack, facEnv, heap, memo, returned, cnt>>
     \/ /\ e.ev = "store" /\ <<e.key, e.sub>> \in Keys
        /\ cache' = [cache EXCEPT ![<<e.key, e.sub>>] = e.fac]
        /\ UNCHANGED <<fns, used, owner, depth, stack, ntr, facEnv, heap, memo, returned, cnt>>
     \/ /\ e.ev = "store" /\ <<e.key, e.sub>> \notin Keys /\ UNCHANGED vars
     \/ /\ e.ev = "inst" /\ Busy(t)
        /\ stack' = SetTop(t, [Top(t) EXCEPT !.fac = e.fac, !.renv = e.env, !.pc = "obs"])
        /\ UNCHANGED <<fns, used, cache, owner, depth, ntr, facEnv, heap, memo, returned, cnt>>
     \/ /\ e.ev = "ret" /\ Busy(t)
        /\ LET fr == Top(t) IN
             returned' = returned \cup {[code |-> fr.code, env |-> fr.env, o |-> fr.o, fac |-> fr.fac, renv |-> fr.renv]}
        /\ stack' = Pop(t)
        /\ UNCHANGED <<fns, used, cache, owner, depth, ntr, facEnv, heap, memo, cnt>>
     \/ /\ e.ev = "err" /\ Busy(t) /\ stack' = Pop(t)
        /\ UNCHANGED <<fns, used, cache, owner, depth, ntr, facEnv, heap, memo, returned, cnt>>
     \/ /\ e.ev = "collect"
        /\ cache' = [k \in Keys |-> IF k[1] = e.key THEN NoFac ELSE cache[k]]
        /\ UNCHANGED <<fns, used, owner, depth, stack, ntr, facEnv, heap, memo, returned, cnt>>
     \* the heap as logged: contents of the cells (no protocol: whatever the log says)
     \/ /\ e.ev = "def"
        /\ cellval' = IF e.env \in Envs /\ e.fac[2] \in Vals THEN [cellval EXCEPT ![e.env] = e.fac[2]] ELSE cellval
        /\ UNCHANGED <<fns, used, cache, owner, depth, stack, ntr, facEnv, addr, memo, returned, cnt>>
     \/ /\ e.ev = "rebind"
        /\ cellval' = IF e.env \in Envs /\ e.res \in Vals THEN [cellval EXCEPT ![e.env] = e.res] ELSE cellval
        /\ UNCHANGED <<fns, used, cache, owner, depth, stack, ntr, facEnv, addr, memo, returned, cnt>>
     \/ e.ev \notin ObsEvents /\ UNCHANGED vars

TNext == \/ mode = "strict" /\ Strict
         \/ mode = "obs" /\ Obs
TSpec == TInit /\ [][TNext]_tvars

(* ---- verdicts ------------------------------------------------------------------ *)
BadAmo   == {k \in Keys : ntr[k] > 1}
BadCoh   == {r \in returned : ~CoherentRec(r)}
BadAlias == {<<r1, r2>> \in returned \X returned :
               (r1.o # r2.o \/ r1.env # r2.env) /\ <<r1.fac, r1.renv>> = <<r2.fac, r2.renv>>}
BadStale == {r \in returned : r.fac[1] # r.code}
BadFollow == {r \in returned : ~FollowsRec(r)}      \* evaluated on the cells as they are at the end of the trace
PcOf(t) == IF t \in Threads THEN (IF Busy(t) THEN Top(t).pc ELSE "idle") ELSE "env"

Report ==
  /\ l > Len(Ev) =>
       PrintT(ToJson([k |-> "end", id |-> Traces[tr].id, mode |-> mode,
                      amo |-> BadAmo, coh |-> BadCoh, alias |-> BadAlias, stale |-> BadStale,
                      follow |-> BadFollow,
                      lockok |-> (mode = "obs" \/ LockDiscipline),
                      nret |-> Cardinality(returned)]))
  /\ (Diag /\ l <= Len(Ev)) =>
       PrintT(ToJson([k |-> "at", id |-> Traces[tr].id, mode |-> mode, l |-> l,
                      ev |-> Ev[l].ev, th |-> Ev[l].th, pc |-> PcOf(Ev[l].th)]))
=============================================================================
