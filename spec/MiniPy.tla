------------------------------- MODULE MiniPy -------------------------------
(***************************************************************************)
(* Operational semantics of the Python subset that diastatic-malt          *)
(* converts ("MiniPy").  One TLC step executes exactly one node at the     *)
(* granularity of malt's control-flow graph (a simple statement, an        *)
(* if/while test, a for header, a with item) or does bookkeeping that      *)
(* executes no node (cur' = 0).  Branch outcomes and loop trip counts are  *)
(* nondeterministic *decisions*, so the reachable states of this module    *)
(* instantiated with a program P are all executions of P within the        *)
(* bounds.  The module is the oracle for C01-C08, C11, C17: it is          *)
(* validated against CPython on every run (vf/minipy.py replays every      *)
(* terminal state on the rendered, unconverted function).                  *)
(*                                                                         *)
(* Programs are flat tables loaded from JSON (IOEnv.PROG_FILE):            *)
(*   P.nodes[n] = [kind, fn, k, tgt, e, body, orelse, final, handlers,     *)
(*                 name, f, exc, args, form, nch]                          *)
(*   P.exprs[e] = [kind, k, reads, args, name]                             *)
(*   P.fns[f]   = [name, params, body, parent, nonlocals, globals]         *)
(*                (f = 1: the function under test; parent = 0 and f > 1: a  *)
(*                module-level function, called by name from anywhere)     *)
(*   P.names    = all identifiers of the program; P.attrs = attribute names *)
(* External functions:  T(k, v..) tracer: appends <<"T",k,<<v..>>>> to the  *)
(* effect log, returns a fresh token;  D(k, v..) logs and returns the next  *)
(* (an I() list is iterated through a one-shot iterator that logs every     *)
(*  fetch, including the one that finds it exhausted: <<"N", serial, <<j>>>>) *)
(* decision as a bool;  I(k, v..) logs and returns a list whose length is   *)
(* the next decision (elements are tokens);  CM(k) a context manager that  *)
(* logs enter/exit.  Values are uniform triples (Appendix A of DESIGN.md). *)
(***************************************************************************)
EXTENDS Naturals, Integers, Sequences, FiniteSets, TLC, Json, IOUtils, TLCExt

CONSTANTS MaxTrip,     \* iterations per loop instance / length of an I() list
          MaxSteps,    \* steps per execution (longer executions are not judged)
          MaxDepth,    \* call depth
          MaxDec,      \* decisions per execution (state constraint DecBound)
          IntMax       \* pure profile: every parameter ranges over 0..IntMax

Progs == JsonDeserialize(IOEnv.PROG_FILE)

VARIABLES pid,     \* index of the program of the batch this behaviour executes
          ctrl,    \* continuation stack (frames)
          envs,    \* activation records  [fn, parent, cellOf : Name -> cell | 0]
          cells,   \* store: cell -> value
          heap,    \* objects: address -> [attribute -> value]  (attribute state: o.v = e, x = o.v)
          log,     \* effect log
          dec,     \* decisions consumed so far (the input that reproduces the execution)
          status,  \* <<"run",_>> | <<"ret",v>> | <<"exc",e>>
          cur,     \* CFG-granularity node executed by the last step (0 = bookkeeping)
          how,     \* completion kind initiated/resumed by the last step ("" | brk | cnt | ret | exc)
          rd,      \* cells read by the last step
          wr,      \* cells (re)bound or unbound by the last step
          steps,
          inp,     \* pure profile: the integer inputs bound to the parameters of the main function
          xlog,    \* length of the effect log when the exception that is propagating / escaped was raised
          xnode,   \* the node whose execution raised it (0 = none)
          xfirst,  \* the node that raised the FIRST exception of the execution (0 = none); never reset
          delx,    \* some `del` of an unbound variable has raised in this execution
          hb,      \* cells that currently hold a value bound by an `except ... as name` clause
          crossed, \* an exception has crossed an activation boundary (raised by a callee into its caller)
          oc,      \* "outside the class": an exception raised by a call was caught by a handler of the caller, or a finally
                   \* block running during propagation raised an exception of its own
          finx,    \* a finally block has executed a statement while an exception was propagating (its effects, including an
                   \* exception of its own in the converted function, are outside the guarantee)
          lists,   \* list objects: address -> sequence of values  (l = [], l.append(e), x = l.pop(), x = l[k], l[k] = e)
          lrd,     \* cells read by the last step only inside the body of a lambda value it called (a subset of rd)
          lnode    \* ... and the statement that created that lambda (0 = the step called no lambda value)
vars == <<pid, ctrl, envs, cells, heap, log, dec, status, cur, how, rd, wr, steps, inp, xlog, xnode, xfirst, delx, hb, crossed, oc, lrd, lnode, lists, finx>>

P        == Progs[pid]
ND(n)    == P.nodes[n]
EX(e)    == P.exprs[e]
FN(f)    == P.fns[f]
NameSet  == {P.names[i] : i \in 1..Len(P.names)}
Range(s) == {s[i] : i \in 1..Len(s)}
Front(s) == SubSeq(s, 1, Len(s) - 1)

NoneV    == <<"n", 0, 0>>
Unbound  == <<"u", 0, 0>>
BoolV(b) == <<"b", IF b THEN 1 ELSE 0, 0>>
IntV(i)  == <<"i", i, 0>>
NoComp   == <<"none", NoneV>>
Truthy(v) == CASE v[1] = "b" -> v[2] = 1
               [] v[1] = "n" -> FALSE
               [] v[1] = "i" -> v[2] # 0
               [] v[1] = "l" -> v[3] > 0
               [] v[1] = "r" -> v[2] > 0
               [] v[1] = "c" -> v[2] > 0
               [] v[1] = "L" -> Len(lists[v[2]]) > 0
               [] OTHER -> TRUE          \* tokens, closures, exception objects

\* what the outside world sees of a value: a list object shows its length, like the result of a comprehension
ObsV(v) == IF v[1] = "L" THEN <<"c", Len(lists[v[2]]), 0>> ELSE v

(* ---- static scoping (language reference 4.2.2): locals of a function ---- *)
Binds(n) == LET d == ND(n) IN
  CASE d.kind \in {"assign", "aug", "assign2", "for", "del", "newobj", "newlist", "pop", "getitem"} -> Range(d.tgt)
    [] d.kind = "call" -> Range(d.tgt)
    [] d.kind = "with" /\ d.name # "" -> {d.name}
    [] d.kind = "def" -> {d.name}
    [] d.kind = "try" -> {d.handlers[h].name : h \in 1..Len(d.handlers)} \ {""}     \* except E as name
    [] OTHER -> {}
LocalsOf(f) ==
  (Range(FN(f).params) \cup UNION {Binds(n) : n \in {m \in 1..Len(P.nodes) : ND(m).fn = f}})
    \ (Range(FN(f).nonlocals) \cup Range(FN(f).globals))

GlobalFn(name) == LET gs == {g \in 2..Len(P.fns) : FN(g).parent = 0 /\ FN(g).name = name} IN
                  IF gs = {} THEN 0 ELSE CHOOSE g \in gs : TRUE

(* ---- environments ------------------------------------------------------- *)
\* module-level variables (P.gnames) live in the first NG cells; a name resolves to one of them when the function declares
\* it global, or when no enclosing activation binds it
NG == Len(P.gnames)
GCell(name) == LET is == {i \in 1..NG : P.gnames[i] = name} IN IF is = {} THEN 0 ELSE CHOOSE i \in is : TRUE
RECURSIVE CellOf(_, _, _)
CellOf(es, env, name) ==
  IF env = 0 THEN GCell(name)
  ELSE IF name \in Range(FN(es[env].fn).globals) THEN GCell(name)
  ELSE IF es[env].cellOf[name] # 0 THEN es[env].cellOf[name]
  ELSE CellOf(es, es[env].parent, name)

(* ---- expression evaluation ---------------------------------------------- *)
(* S = [log, di, ch, err, used, rd];  result [v, s].                         *)
(* ch : the decisions offered to this node; the i-th consumed decision is    *)
(* ch[i].  A D() accepts only 0/1 ("bad" otherwise) so that every distinct   *)
(* execution is produced by exactly one ch.                                  *)
(* S.ov is the stack of bindings made by the expression itself (a lambda's parameter, a comprehension's   *)
(* target): <<name, value>> pairs, innermost last.  They shadow every variable and live in no cell.        *)
OvIdx(ov, nm) == LET idx == {j \in 1..Len(ov) : ov[j][1] = nm} IN
                 IF idx = {} THEN 0 ELSE CHOOSE j \in idx : \A j2 \in idx : j >= j2
LookC(S, env, nm) == IF OvIdx(S.ov, nm) # 0 THEN 0 ELSE CellOf(envs, env, nm)
LookV(S, env, nm) == LET j == OvIdx(S.ov, nm) IN
                     IF j # 0 THEN S.ov[j][2]
                     ELSE LET c == CellOf(envs, env, nm) IN IF c = 0 THEN Unbound ELSE cells[c]

Fetch(lg, ser, j) == IF ser = 0 THEN lg ELSE Append(lg, <<"N", ser, <<IntV(j)>>>>)     \* one next() on the iterator of list `ser`

RECURSIVE Eval(_, _, _), CompLoop(_, _, _, _, _, _, _)
Eval(e, env, S) ==
  IF S.err # "" THEN [v |-> NoneV, s |-> S] ELSE
  LET x == EX(e) IN
  CASE x.kind \in {"T", "D", "I"} ->
        LET cs   == [j \in 1..Len(x.reads) |-> LookC(S, env, x.reads[j])]
            vals == [j \in 1..Len(x.reads) |-> LookV(S, env, x.reads[j])] IN
        IF \E j \in 1..Len(vals) : vals[j] = Unbound
        THEN [v |-> NoneV, s |-> [S EXCEPT !.err = "NameError"]]
        ELSE
          LET lg == Append(S.log, <<x.kind, x.k, [j \in 1..Len(vals) |-> ObsV(vals[j])]>>)
              S1 == [S EXCEPT !.rd = @ \cup (Range(cs) \ {0}), !.log = lg, !.ops = Append(@, <<"call", Len(S.log)>>)] IN
          IF x.kind = "T" THEN [v |-> <<"t", x.k, Len(lg)>>, s |-> S1]
          ELSE IF S.di > Len(S.ch) THEN [v |-> NoneV, s |-> [S1 EXCEPT !.err = "ood"]]
          ELSE LET c == S.ch[S.di] IN
               IF x.kind = "D"
               THEN IF c > 1 THEN [v |-> NoneV, s |-> [S1 EXCEPT !.err = "bad"]]
                    ELSE [v |-> BoolV(c = 1), s |-> [S1 EXCEPT !.di = @ + 1, !.used = Append(@, c)]]
               \* I2(k, ..) (x.name = "2") returns a list of pairs, for loops with a tuple target
               ELSE [v |-> <<IF x.name = "2" THEN "l2" ELSE "l", Len(lg), c>>, s |-> [S1 EXCEPT !.di = @ + 1, !.used = Append(@, c)]]
    [] x.kind = "name" ->
        LET c == LookC(S, env, x.name)  v == LookV(S, env, x.name) IN
        IF v = Unbound THEN [v |-> NoneV, s |-> [S EXCEPT !.err = "NameError"]]
        ELSE [v |-> v, s |-> [S EXCEPT !.rd = @ \cup ({c} \ {0})]]
    [] x.kind = "attr" ->        \* base.attr: the base is a variable, the object lives in the heap
        LET c == CellOf(envs, env, x.name) IN
        IF c = 0 \/ cells[c] = Unbound THEN [v |-> NoneV, s |-> [S EXCEPT !.err = "NameError"]]
        ELSE LET b == cells[c]  S1 == [S EXCEPT !.rd = @ \cup {c}] IN
             IF b[1] # "o" THEN [v |-> NoneV, s |-> [S1 EXCEPT !.err = "AttributeError"]]
             ELSE IF heap[b[2]][x.attr] = Unbound THEN [v |-> NoneV, s |-> [S1 EXCEPT !.err = "AttributeError"]]
             ELSE [v |-> heap[b[2]][x.attr], s |-> S1]
    [] x.kind = "seq2" ->        \* evaluate args[1] then args[2]; the value is that of args[1], the second one is kept in aux
        LET r1 == Eval(x.args[1], env, S) IN
        IF r1.s.err # "" THEN r1 ELSE
        LET r2 == Eval(x.args[2], env, r1.s) IN
        IF r2.s.err # "" THEN r2 ELSE [v |-> r1.v, s |-> [r2.s EXCEPT !.aux = r2.v]]
    [] x.kind = "const" -> [v |-> IntV(x.k), s |-> S]
    [] x.kind = "none"  -> [v |-> NoneV, s |-> S]
    [] x.kind = "bool"  -> [v |-> BoolV(x.k = 1), s |-> S]
    [] x.kind \in {"add", "sub", "mul", "lt", "le", "gt", "ge", "eq", "ne"} ->
        LET r1 == Eval(x.args[1], env, S) IN
        IF r1.s.err # "" THEN r1 ELSE
        LET r2 == Eval(x.args[2], env, r1.s) IN
        IF r2.s.err # "" THEN r2 ELSE
        \* (a bool is an int in Python: True + 1 = 2, (a or b) > 0 compares whatever the or produced)
        IF r1.v[1] \notin {"i", "b"} \/ r2.v[1] \notin {"i", "b"} THEN [v |-> NoneV, s |-> [r2.s EXCEPT !.err = "TypeError"]]
        \* TLC integers are 32 bit: executions whose values leave +-30000 are not explored further ("big" is not canonical)
        ELSE IF r1.v[2] > 30000 \/ r1.v[2] < -30000 \/ r2.v[2] > 30000 \/ r2.v[2] < -30000
        THEN [v |-> NoneV, s |-> [r2.s EXCEPT !.err = "big"]]
        ELSE LET a == r1.v[2]  b == r2.v[2] IN
             [v |-> CASE x.kind = "add" -> IntV(a + b) [] x.kind = "sub" -> IntV(a - b) [] x.kind = "mul" -> IntV(a * b)
                      [] x.kind = "lt" -> BoolV(a < b) [] x.kind = "le" -> BoolV(a <= b) [] x.kind = "gt" -> BoolV(a > b)
                      [] x.kind = "ge" -> BoolV(a >= b) [] x.kind = "eq" -> BoolV(a = b) [] x.kind = "ne" -> BoolV(a # b),
              s |-> r2.s]
    [] x.kind = "isnone" ->      \* (e is None)
        LET r == Eval(x.args[1], env, S) IN
        IF r.s.err # "" THEN r ELSE [v |-> BoolV(r.v = NoneV), s |-> r.s]
    [] x.kind = "range" ->       \* range(e): a list of the ints 0..e-1
        LET r == Eval(x.args[1], env, S) IN
        IF r.s.err # "" THEN r
        ELSE IF r.v[1] # "i" THEN [v |-> NoneV, s |-> [r.s EXCEPT !.err = "TypeError"]]
        ELSE [v |-> <<"r", IF r.v[2] > 0 THEN r.v[2] ELSE 0, 0>>, s |-> r.s]
    \* `ops` lists the overloadable operators this expression goes through, in invocation order, each with the
    \* length of the effect log at the moment of invocation (C04): not_ is invoked after its operand, and_/or_
    \* before their (lazy) operands, if_exp after the condition and before the chosen branch.
    [] x.kind = "not" ->
        LET r == Eval(x.args[1], env, S) IN
        IF r.s.err # "" THEN r
        ELSE [v |-> BoolV(~Truthy(r.v)), s |-> [r.s EXCEPT !.ops = Append(@, <<"not_", Len(r.s.log)>>)]]
    [] x.kind = "and" ->
        LET r == Eval(x.args[1], env, [S EXCEPT !.ops = Append(@, <<"and_", Len(S.log)>>)]) IN
        IF r.s.err # "" \/ ~Truthy(r.v) THEN r ELSE Eval(x.args[2], env, r.s)
    [] x.kind = "or" ->
        LET r == Eval(x.args[1], env, [S EXCEPT !.ops = Append(@, <<"or_", Len(S.log)>>)]) IN
        IF r.s.err # "" \/ Truthy(r.v) THEN r ELSE Eval(x.args[2], env, r.s)
    [] x.kind = "ifexp" ->      \* args = <<test, then, else>>
        LET r == Eval(x.args[1], env, S) IN
        IF r.s.err # "" THEN r
        ELSE LET s1 == [r.s EXCEPT !.ops = Append(@, <<"if_exp", Len(r.s.log)>>)] IN
             IF Truthy(r.v) THEN Eval(x.args[2], env, s1) ELSE Eval(x.args[3], env, s1)
    \* (lambda name: BODY)(ARG) / (lambda: BODY)():  args = <<body>> or <<body, arg>>.  The argument is evaluated
    \* first, then the call is made (one "call" event), then the body runs with the parameter bound.
    [] x.kind = "lam" ->
        LET ra == IF Len(x.args) = 2 THEN Eval(x.args[2], env, S) ELSE [v |-> NoneV, s |-> S] IN
        IF ra.s.err # "" THEN ra ELSE
        LET s1 == [ra.s EXCEPT !.ops = Append(@, <<"call", Len(ra.s.log)>>),
                               !.ov = IF Len(x.args) = 2 THEN Append(@, <<x.name, ra.v>>) ELSE @]
            rb == Eval(x.args[1], env, s1) IN
        [v |-> rb.v, s |-> [rb.s EXCEPT !.ov = S.ov]]
    \* lambda name: BODY  as a value: <<"m", e, env>> (the expression and the activation it closes over)
    [] x.kind = "lamv" -> [v |-> <<"m", e, env>>, s |-> S]
    \* [BODY for name in ITER]  /  [BODY for name in ITER if COND]:  args = <<iter, body>> or <<iter, body, cond>>
    [] x.kind = "comp" ->
        LET ri == Eval(x.args[1], env, S) IN
        IF ri.s.err # "" THEN ri
        ELSE IF ri.v[1] \notin {"l", "r"} THEN [v |-> NoneV, s |-> [ri.s EXCEPT !.err = "TypeError"]]
        ELSE LET cnt == IF ri.v[1] = "l" THEN ri.v[3] ELSE ri.v[2]
                 its == [j \in 1..cnt |-> IF ri.v[1] = "l" THEN <<"e", ri.v[2], j>> ELSE IntV(j - 1)] IN
             CompLoop(x, env, ri.s, its, 1, 0, IF ri.v[1] = "l" THEN ri.v[2] ELSE 0)

(* the elements its[j..] of a comprehension: bind the target, evaluate the condition (if any) and the element *)
CompLoop(x, env, S0_, its, j, acc, ser) ==
  LET S == [S0_ EXCEPT !.log = Fetch(@, ser, j)] IN
  IF j > Len(its) THEN [v |-> <<"c", acc, 0>>, s |-> S]
  ELSE LET s1 == [S EXCEPT !.ov = Append(@, <<x.name, its[j]>>)]
           rc == IF Len(x.args) = 3 THEN Eval(x.args[3], env, s1) ELSE [v |-> BoolV(TRUE), s |-> s1] IN
       IF rc.s.err # "" THEN rc
       ELSE IF ~Truthy(rc.v) THEN CompLoop(x, env, [rc.s EXCEPT !.ov = S.ov], its, j + 1, acc, ser)
       ELSE LET rb == Eval(x.args[2], env, rc.s) IN
            IF rb.s.err # "" THEN rb
            ELSE CompLoop(x, env, [rb.s EXCEPT !.ov = S.ov], its, j + 1, acc + 1, ser)

S0X(ch, lg, ov, rd0) == [log |-> lg, di |-> 1, ch |-> ch, err |-> "", used |-> <<>>, rd |-> rd0, ops |-> <<>>, aux |-> NoneV, ov |-> ov]
S0(ch) == S0X(ch, log, <<>>, {})
\* the choices offered to node n: nch decision slots
Choices(n) == [1..ND(n).nch -> 0..MaxTrip]
\* a choice vector is canonical iff it was consumed legally and its unused tail is 0
Canon(r, ch) == /\ r.s.err \notin {"ood", "bad", "big"}
                /\ \A j \in 1..Len(ch) : j >= r.s.di => ch[j] = 0

(* ---- frames --------------------------------------------------------------- *)
Frame(k, blk, node, env) ==
  [k |-> k, blk |-> blk, i |-> 1, node |-> node, env |-> env, cenv |-> 0,
   items |-> <<>>, comp |-> NoComp, tgt |-> <<>>, form |-> "", it |-> <<0, 0>>]
Top      == ctrl[Len(ctrl)]
Adv(c)   == [c EXCEPT ![Len(c)].i = @ + 1]
HasFinally(n) == ND(n).final # <<>>
HandlerFor(n, cls) ==
  LET hs == ND(n).handlers
      idx == {j \in 1..Len(hs) : hs[j].cls = cls} IN
  IF idx = {} THEN 0 ELSE CHOOSE j \in idx : \A j2 \in idx : j <= j2

SetCell(cl, c, v) == [cl EXCEPT ![c] = v]
\* a for target: one name, or a pair of names bound to the two components of an element of an I2 list
TargetCells(env, tgt) == {CellOf(envs, env, tgt[j]) : j \in 1..Len(tgt)}
BindTarget(cl, env, tgt, v) ==
  IF Len(tgt) = 1 THEN SetCell(cl, CellOf(envs, env, tgt[1]), v)
  ELSE SetCell(SetCell(cl, CellOf(envs, env, tgt[1]), v), CellOf(envs, env, tgt[2]), <<v[1], v[2], v[3] + 1>>)
\* a loop that ends because its test is false / its iterator is exhausted runs its else clause (not after break)
WithElse(c, n, env) == IF ND(n).orelse = <<>> THEN c ELSE Append(c, Frame("blk", ND(n).orelse, n, env))

(* Propagate an abrupt completion through the control stack (the usual      *)
(* normal/break/continue/return/raise discipline: jumps run the enclosing   *)
(* finally blocks and with-exits).  Returns [ctrl, log, cells, status, how, wr]. *)
RECURSIVE Prop(_, _, _, _)
Prop(c, comp, lg, cl) ==
  IF c = <<>> THEN [ctrl |-> c, log |-> lg, cells |-> cl, status |-> comp, how |-> comp[1], wr |-> {}]
  ELSE
  LET f == c[Len(c)]  rest == Front(c)
      R(c2, lg2, cl2, w) == [ctrl |-> c2, log |-> lg2, cells |-> cl2, status |-> <<"run", NoneV>>, how |-> comp[1], wr |-> w] IN
  CASE f.k = "call" ->
        IF comp[1] = "ret" /\ rest # <<>>
        THEN IF f.form = "assign"
             THEN LET tc == CellOf(envs, f.cenv, f.tgt[1]) IN R(rest, lg, SetCell(cl, tc, comp[2]), {tc})
             ELSE IF f.form = "return" THEN Prop(rest, comp, lg, cl)
             ELSE R(rest, lg, cl, {})
        ELSE IF rest = <<>> THEN [ctrl |-> rest, log |-> lg, cells |-> cl, status |-> comp, how |-> comp[1], wr |-> {}]
        ELSE Prop(rest, comp, lg, cl)
    [] f.k \in {"while", "for"} ->
        IF comp[1] = "brk" THEN R(rest, lg, cl, {})
        ELSE IF comp[1] = "cnt" THEN R(Append(rest, [f EXCEPT !.i = Len(f.blk) + 1]), lg, cl, {})
        ELSE Prop(rest, comp, lg, cl)
    [] f.k = "try" ->
        LET h == IF comp[1] = "exc" /\ comp[2][1] = "x" THEN HandlerFor(f.node, comp[2][2]) ELSE 0 IN
        IF h # 0
        THEN LET hd == ND(f.node).handlers[h]
                 hc == IF hd.name = "" THEN 0 ELSE CellOf(envs, f.env, hd.name) IN
             \* `except E as name` binds the exception to name for the duration of the handler
             R(Append(rest, [Frame("handler", hd.body, f.node, f.env) EXCEPT !.tgt = IF hc = 0 THEN <<>> ELSE <<hd.name>>]),
               lg, IF hc = 0 THEN cl ELSE SetCell(cl, hc, comp[2]), IF hc = 0 THEN {} ELSE {hc})
        ELSE IF HasFinally(f.node)
        THEN R(Append(rest, [Frame("finally", ND(f.node).final, f.node, f.env) EXCEPT !.comp = comp]), lg, cl, {})
        ELSE Prop(rest, comp, lg, cl)
    [] f.k = "handler" ->       \* leaving a handler in any way unbinds its `as` name (implicit `del name`)
        LET hc  == IF f.tgt = <<>> THEN 0 ELSE CellOf(envs, f.env, f.tgt[1])
            cl2 == IF hc = 0 THEN cl ELSE SetCell(cl, hc, Unbound) IN
        IF HasFinally(f.node)
        THEN R(Append(rest, [Frame("finally", ND(f.node).final, f.node, f.env) EXCEPT !.comp = comp]), lg, cl2, IF hc = 0 THEN {} ELSE {hc})
        ELSE LET r == Prop(rest, comp, lg, cl2) IN [r EXCEPT !.wr = @ \cup (IF hc = 0 THEN {} ELSE {hc})]
    [] f.k = "with" -> Prop(rest, comp, Append(lg, <<"exit", ND(f.node).k, <<>>>>), cl)
    [] OTHER -> Prop(rest, comp, lg, cl)   \* blk, finally (a jump out of a finally block abandons its pending completion)

Apply(r) ==
  /\ ctrl' = r.ctrl /\ log' = r.log /\ cells' = r.cells
  /\ status' = r.status /\ how' = r.how /\ wr' = r.wr

\* implicit exception (never caught by the E1/E2 handlers the class allows): 1 NameError, 2 TypeError, 3 AttributeError
ExcV(name) == <<"exc", <<"e", CASE name = "NameError" -> 1 [] name = "AttributeError" -> 3 [] name = "IndexError" -> 4 [] OTHER -> 2, 0>>>>
Quiet == UNCHANGED <<envs, dec, log, cells, status>> /\ how' = "" /\ rd' = {} /\ wr' = {}

(* evaluate expression e of node n under every canonical choice vector; K(r) continues *)
\* general form: the effect log, the expression-level bindings and the cells already read when evaluation starts
WithEvalX(n, e, env, lg, ov, rd0, K(_)) ==
  \E ch \in Choices(n) :
    LET r == Eval(e, env, S0X(ch, lg, ov, rd0)) IN
    /\ Canon(r, ch)
    /\ dec' = dec \o r.s.used /\ rd' = r.s.rd
    /\ IF r.s.err # ""
       THEN Apply(Prop(ctrl, ExcV(r.s.err), r.s.log, cells)) /\ UNCHANGED envs
       ELSE K(r)
WithEval(n, e, env, K(_)) == WithEvalX(n, e, env, log, <<>>, {}, K)

(* ---- the top block is exhausted ------------------------------------------- *)
Finish ==
  LET f == Top  rest == Front(ctrl) IN
  CASE f.k = "while" ->
        /\ cur' = f.node
        /\ WithEval(f.node, ND(f.node).e, f.env, LAMBDA r :
             /\ log' = r.s.log /\ UNCHANGED <<envs, cells, status>> /\ how' = "" /\ wr' = {}
             /\ IF Truthy(r.v)
                THEN /\ f.items # <<>>      \* trip budget (items holds the remaining budget)
                     /\ ctrl' = Append(rest, [f EXCEPT !.i = 1, !.items = Tail(@)])
                ELSE ctrl' = WithElse(rest, f.node, f.env))
    [] f.k = "for" ->
        /\ cur' = f.node /\ UNCHANGED <<envs, dec, status>> /\ how' = "" /\ rd' = {}
        /\ log' = Fetch(log, f.it[1], f.it[2])
        /\ IF f.items = <<>> THEN ctrl' = WithElse(rest, f.node, f.env) /\ UNCHANGED cells /\ wr' = {}
           ELSE /\ ctrl' = Append(rest, [f EXCEPT !.i = 1, !.items = Tail(@), !.it = <<@[1], @[2] + 1>>])
                /\ cells' = BindTarget(cells, f.env, ND(f.node).tgt, Head(f.items))
                /\ wr' = TargetCells(f.env, ND(f.node).tgt)
    [] f.k = "try" ->      \* the body completed normally: the else clause (if any) runs next - outside the reach of the
                           \* handlers, inside that of the finally block, exactly like a handler body without a name
        /\ cur' = 0 /\ Quiet
        /\ IF ND(f.node).orelse # <<>>
           THEN ctrl' = Append(rest, Frame("handler", ND(f.node).orelse, f.node, f.env))
           ELSE IF HasFinally(f.node)
           THEN ctrl' = Append(rest, Frame("finally", ND(f.node).final, f.node, f.env))
           ELSE ctrl' = rest
    [] f.k = "handler" ->
        LET hc == IF f.tgt = <<>> THEN 0 ELSE CellOf(envs, f.env, f.tgt[1]) IN
        /\ cur' = 0 /\ UNCHANGED <<envs, dec, log, status>> /\ how' = "" /\ rd' = {}
        /\ cells' = IF hc = 0 THEN cells ELSE SetCell(cells, hc, Unbound)
        /\ wr' = IF hc = 0 THEN {} ELSE {hc}
        /\ IF HasFinally(f.node)
           THEN ctrl' = Append(rest, Frame("finally", ND(f.node).final, f.node, f.env))
           ELSE ctrl' = rest
    [] f.k = "finally" ->
        /\ cur' = 0 /\ UNCHANGED <<envs, dec>> /\ rd' = {}
        /\ IF f.comp = NoComp THEN ctrl' = rest /\ UNCHANGED <<log, cells, status>> /\ how' = "" /\ wr' = {}
           ELSE Apply(Prop(rest, f.comp, log, cells))
    [] f.k = "with" ->
        /\ ctrl' = rest /\ log' = Append(log, <<"exit", ND(f.node).k, <<>>>>)
        /\ cur' = 0 /\ UNCHANGED <<envs, dec, cells, status>> /\ how' = "" /\ rd' = {} /\ wr' = {}
    [] f.k = "call" ->     \* falling off the end of a function body: return None
        /\ Apply(Prop(ctrl, <<"ret", NoneV>>, log, cells)) /\ cur' = 0 /\ UNCHANGED <<envs, dec>> /\ rd' = {}
    [] OTHER -> ctrl' = rest /\ cur' = 0 /\ Quiet

DefLog(d, lg) == IF d.k # 0 THEN Append(lg, <<"DEC", d.k, <<>>>>) ELSE lg
TripBudget == [j \in 1..MaxTrip |-> NoneV]

NCalls(c) == Cardinality({i \in 1..Len(c) : c[i].k = "call"})

(* ---- execute node n --------------------------------------------------------- *)
Exec(n) ==
  LET d == ND(n)  f == Top  env == f.env  c1 == Adv(ctrl) IN
  /\ cur' = (IF d.kind = "try" THEN 0 ELSE n)
  /\ CASE d.kind \in {"assign", "aug"} ->      \* aug: `x op= e`, its expression is  x op e  (the target is read first)
          WithEval(n, d.e, env, LAMBDA r :
             LET c == CellOf(envs, env, d.tgt[1]) IN
             /\ ctrl' = c1 /\ log' = r.s.log /\ UNCHANGED <<envs, status>> /\ how' = ""
             /\ cells' = SetCell(cells, c, r.v) /\ wr' = {c})
      [] d.kind = "assign2" ->    \* x, y = e1, e2  (e is seq2(e1, e2): both values are computed, then x is bound, then y)
          WithEval(n, d.e, env, LAMBDA r :
             LET ca == CellOf(envs, env, d.tgt[1])  cb == CellOf(envs, env, d.tgt[2]) IN
             /\ ctrl' = c1 /\ log' = r.s.log /\ UNCHANGED <<envs, status>> /\ how' = ""
             /\ cells' = SetCell(SetCell(cells, ca, r.v), cb, r.s.aux) /\ wr' = {ca, cb})
      [] d.kind = "newlist" ->    \* tgt = []   (the list itself is created in the Step epilogue)
          LET c == CellOf(envs, env, d.tgt[1]) IN
          /\ ctrl' = c1 /\ UNCHANGED <<envs, dec, log, status>> /\ how' = "" /\ rd' = {} /\ wr' = {c}
          /\ cells' = SetCell(cells, c, <<"L", Len(lists) + 1, 0>>)
      [] d.kind = "append" ->     \* name.append(e): the list is looked up first, then e is evaluated
          LET c == CellOf(envs, env, d.name)  lv == IF c = 0 THEN Unbound ELSE cells[c] IN
          IF lv = Unbound THEN Apply(Prop(ctrl, ExcV("NameError"), log, cells)) /\ UNCHANGED <<envs, dec>> /\ rd' = {}
          ELSE /\ lv[1] = "L"          \* generator guarantees; otherwise not judged
               /\ WithEvalX(n, d.e, env, log, <<>>, {c}, LAMBDA r :
                     /\ ctrl' = c1 /\ log' = r.s.log /\ UNCHANGED <<envs, status, cells>> /\ how' = "" /\ wr' = {})
      [] d.kind \in {"pop", "getitem"} ->     \* tgt = name.pop()  /  tgt = name[k]
          LET c == CellOf(envs, env, d.name)  lv == IF c = 0 THEN Unbound ELSE cells[c]
              tc == CellOf(envs, env, d.tgt[1]) IN
          /\ UNCHANGED <<envs, dec>>
          /\ IF lv = Unbound THEN Apply(Prop(ctrl, ExcV("NameError"), log, cells)) /\ rd' = {}
             ELSE /\ lv[1] = "L" /\ rd' = {c}
                  /\ LET ls == lists[lv[2]]
                         ix == IF d.kind = "pop" THEN Len(ls) ELSE d.k + 1 IN
                     IF ix < 1 \/ ix > Len(ls) THEN Apply(Prop(ctrl, ExcV("IndexError"), log, cells))
                     ELSE /\ ctrl' = c1 /\ UNCHANGED <<log, status>> /\ how' = ""
                          /\ cells' = SetCell(cells, tc, ls[ix]) /\ wr' = {tc}
      [] d.kind = "setitem" ->    \* name[k] = e: e is evaluated first, then the list is looked up
          WithEval(n, d.e, env, LAMBDA r :
             LET c == CellOf(envs, env, d.name)  lv == IF c = 0 THEN Unbound ELSE cells[c] IN
             IF lv = Unbound THEN Apply(Prop(ctrl, ExcV("NameError"), r.s.log, cells)) /\ UNCHANGED envs
             ELSE /\ lv[1] = "L"
                  /\ IF d.k + 1 > Len(lists[lv[2]])
                     THEN Apply(Prop(ctrl, ExcV("IndexError"), r.s.log, cells)) /\ UNCHANGED envs
                     ELSE /\ ctrl' = c1 /\ log' = r.s.log /\ UNCHANGED <<envs, status, cells>> /\ how' = "" /\ wr' = {})
      [] d.kind = "newobj" ->     \* tgt = O(): a fresh object without attributes (the heap grows in the Step epilogue)
          LET c == CellOf(envs, env, d.tgt[1]) IN
          /\ ctrl' = c1 /\ UNCHANGED <<envs, dec, log, status>> /\ how' = "" /\ rd' = {} /\ wr' = {c}
          /\ cells' = SetCell(cells, c, <<"o", Len(heap) + 1, 0>>)
      [] d.kind = "setattr" ->    \* base.attr = e  (e is seq2(value, base): Python evaluates the value first)
          WithEval(n, d.e, env, LAMBDA r :
             IF r.s.aux[1] # "o"
             THEN Apply(Prop(ctrl, ExcV("AttributeError"), r.s.log, cells)) /\ UNCHANGED envs
             ELSE /\ ctrl' = c1 /\ log' = r.s.log /\ UNCHANGED <<envs, status, cells>> /\ how' = "" /\ wr' = {})
      [] d.kind = "expr" ->
          WithEval(n, d.e, env, LAMBDA r :
             /\ ctrl' = c1 /\ log' = r.s.log /\ UNCHANGED <<envs, status, cells>> /\ how' = "" /\ wr' = {})
      [] d.kind = "if" ->
          WithEval(n, d.e, env, LAMBDA r :
             /\ log' = r.s.log /\ UNCHANGED <<envs, cells, status>> /\ how' = "" /\ wr' = {}
             /\ LET blk == IF Truthy(r.v) THEN d.body ELSE d.orelse IN
                ctrl' = IF blk = <<>> THEN c1 ELSE Append(c1, Frame("blk", blk, n, env)))
      [] d.kind = "while" ->
          WithEval(n, d.e, env, LAMBDA r :
             /\ log' = r.s.log /\ UNCHANGED <<envs, cells, status>> /\ how' = "" /\ wr' = {}
             /\ ctrl' = IF Truthy(r.v)
                        THEN Append(c1, [Frame("while", d.body, n, env) EXCEPT !.items = Tail(TripBudget)])
                        ELSE WithElse(c1, n, env))
      [] d.kind = "for" ->
          WithEval(n, d.e, env, LAMBDA r :
             /\ UNCHANGED <<envs, status>> /\ how' = ""
             /\ r.v[1] \in {"l", "r", "l2"}     \* generator guarantees an iterable (otherwise not judged)
             /\ (r.v[1] = "l2") = (Len(d.tgt) = 2)     \* ... of pairs exactly for a tuple target
             /\ LET cnt == IF r.v[1] = "r" THEN r.v[2] ELSE r.v[3]
                    its == [j \in 1..cnt |-> CASE r.v[1] = "l" -> <<"e", r.v[2], j>>
                                              [] r.v[1] = "l2" -> <<"e", r.v[2], 2 * j - 1>>      \* first component; the second is +1
                                              [] OTHER -> IntV(j - 1)]
                    ser == IF r.v[1] = "r" THEN 0 ELSE r.v[2] IN
                /\ log' = Fetch(r.s.log, ser, 1)       \* the first fetch
                /\ IF cnt = 0 THEN ctrl' = WithElse(c1, n, env) /\ UNCHANGED cells /\ wr' = {}
                   ELSE /\ ctrl' = Append(c1, [Frame("for", d.body, n, env) EXCEPT !.items = Tail(its), !.it = <<ser, 2>>])
                        /\ cells' = BindTarget(cells, env, d.tgt, its[1]) /\ wr' = TargetCells(env, d.tgt))
      [] d.kind = "try" ->
          /\ ctrl' = Append(c1, Frame("try", d.body, n, env)) /\ Quiet
      [] d.kind = "with" ->
          LET lg == Append(log, <<"enter", d.k, <<>>>>)
              c  == IF d.name = "" THEN 0 ELSE CellOf(envs, env, d.name) IN
          /\ log' = lg /\ UNCHANGED <<envs, dec, status>> /\ how' = "" /\ rd' = {}
          /\ ctrl' = Append(c1, Frame("with", d.body, n, env))
          /\ cells' = IF c = 0 THEN cells ELSE SetCell(cells, c, <<"t", d.k, Len(lg)>>)
          /\ wr' = IF c = 0 THEN {} ELSE {c}
      [] d.kind = "break"    -> Apply(Prop(ctrl, <<"brk", NoneV>>, log, cells)) /\ UNCHANGED <<envs, dec>> /\ rd' = {}
      [] d.kind = "continue" -> Apply(Prop(ctrl, <<"cnt", NoneV>>, log, cells)) /\ UNCHANGED <<envs, dec>> /\ rd' = {}
      [] d.kind = "raise"    -> Apply(Prop(ctrl, <<"exc", <<"x", d.exc, 0>>>>, log, cells)) /\ UNCHANGED <<envs, dec>> /\ rd' = {}
      [] d.kind = "return" ->
          WithEval(n, d.e, env, LAMBDA r :
             Apply(Prop(ctrl, <<"ret", r.v>>, r.s.log, cells)) /\ UNCHANGED envs)
      [] d.kind = "def" ->      \* @DEC(k) (k # 0) is evaluated first, then the default value (e # 0), then the name is bound
          LET c == CellOf(envs, env, d.name)
              lg0 == DefLog(d, log) IN
          IF d.e = 0
          THEN /\ ctrl' = c1 /\ UNCHANGED <<envs, dec, status>> /\ log' = lg0 /\ how' = "" /\ rd' = {} /\ wr' = {c}
               /\ cells' = SetCell(cells, c, <<"f", d.f, env>>)
          ELSE WithEvalX(n, d.e, env, lg0, <<>>, {}, LAMBDA r :
                 /\ ctrl' = c1 /\ log' = r.s.log /\ UNCHANGED <<envs, status>> /\ how' = "" /\ wr' = {c}
                 /\ cells' = SetCell(cells, c, <<"f", d.f, env>>))
      [] d.kind = "del" ->
          LET c == CellOf(envs, env, d.tgt[1]) IN
          /\ UNCHANGED <<envs, dec>> /\ rd' = {}
          /\ IF c = 0 \/ cells[c] = Unbound
             THEN Apply(Prop(ctrl, ExcV("NameError"), log, cells))
             ELSE /\ ctrl' = c1 /\ cells' = SetCell(cells, c, Unbound) /\ wr' = {c}
                  /\ UNCHANGED <<log, status>> /\ how' = ""
      [] d.kind = "call" ->      \* tgt = g(args) | g(args) | return g(args): pushes a call frame
          LET fc == CellOf(envs, env, d.name)
              acs == [j \in 1..Len(d.args) |-> CellOf(envs, env, d.args[j])]
              \* a name bound in no activation may be a module-level function (fns with parent 0 other than the main one):
              \* its activation has no enclosing activation
              fv == IF fc = 0 THEN (IF GlobalFn(d.name) # 0 THEN <<"f", GlobalFn(d.name), 0>> ELSE Unbound) ELSE cells[fc]
              avs == [j \in 1..Len(d.args) |-> IF acs[j] = 0 THEN Unbound ELSE cells[acs[j]]] IN
          /\ IF fv = Unbound \/ \E j \in 1..Len(avs) : avs[j] = Unbound
             THEN Apply(Prop(ctrl, ExcV("NameError"), log, cells)) /\ UNCHANGED <<envs, dec>> /\ rd' = {}
             ELSE IF fv[1] = "m"      \* a lambda value: its body is an expression, evaluated in the activation it closes over
             THEN LET lx == EX(fv[2]) IN
                  /\ Len(d.args) = (IF lx.name = "" THEN 0 ELSE 1)      \* generator guarantees; otherwise not judged
                  /\ WithEvalX(n, lx.args[1], fv[3], log, IF lx.name = "" THEN <<>> ELSE << <<lx.name, avs[1]>> >>,
                               ({fc} \cup Range(acs)) \ {0}, LAMBDA r :
                        IF d.form = "return" THEN Apply(Prop(ctrl, <<"ret", r.v>>, r.s.log, cells)) /\ UNCHANGED envs
                        ELSE /\ ctrl' = c1 /\ log' = r.s.log /\ UNCHANGED <<envs, status>> /\ how' = ""
                             /\ IF d.form = "assign"
                                THEN LET tc == CellOf(envs, env, d.tgt[1]) IN cells' = SetCell(cells, tc, r.v) /\ wr' = {tc}
                                ELSE UNCHANGED cells /\ wr' = {})
             ELSE
               LET g == fv[2]
                   loc == LocalsOf(g)
                   base == Len(cells)
                   ord == SelectSeq(P.names, LAMBDA nm : nm \in loc)
                   idx(nm) == CHOOSE i \in 1..Cardinality(loc) : ord[i] = nm
                   pidx(nm) == CHOOSE i \in 1..Len(FN(g).params) : FN(g).params[i] = nm
                   newenv == [fn |-> g, parent |-> fv[3],
                              cellOf |-> [nm \in NameSet |-> IF nm \in loc THEN base + idx(nm) ELSE 0]]
                   ne == Len(envs) + 1
                   newcells == cells \o [i \in 1..Cardinality(loc) |->
                                  IF ord[i] \in Range(FN(g).params) THEN avs[pidx(ord[i])] ELSE Unbound] IN
               /\ fv[1] = "f" /\ Len(FN(g).params) = Len(d.args)     \* generator guarantees; otherwise not judged
               /\ UNCHANGED dec
               /\ NCalls(ctrl) < MaxDepth
               /\ envs' = Append(envs, newenv)
               /\ cells' = newcells
               /\ ctrl' = Append(c1, [Frame("call", FN(g).body, n, ne) EXCEPT !.cenv = env, !.tgt = d.tgt, !.form = d.form])
               /\ UNCHANGED <<log, status>> /\ how' = "" /\ rd' = ({fc} \cup Range(acs)) \ {0}
               /\ wr' = {base + idx(nm) : nm \in Range(FN(g).params)}
      [] d.kind \in {"pass", "directive"} -> ctrl' = c1 /\ Quiet     \* a loop directive (set_loop_options) has no run-time effect

Step ==
  /\ status[1] = "run" /\ steps < MaxSteps
  /\ steps' = steps + 1 /\ UNCHANGED <<pid, inp>>
  /\ IF Top.i <= Len(Top.blk) THEN Exec(Top.blk[Top.i]) ELSE Finish
  /\ LET f0 == Top
         n0 == IF f0.i <= Len(f0.blk) THEN f0.blk[f0.i] ELSE 0
         k0 == IF n0 = 0 THEN "" ELSE ND(n0).kind IN
     heap' = IF k0 = "newobj" /\ how' = "" THEN Append(heap, [a \in Range(P.attrs) |-> Unbound])
             ELSE IF k0 = "setattr" /\ how' = ""
             THEN LET used == SubSeq(dec', Len(dec) + 1, Len(dec'))
                      ch == used \o [j \in 1..(ND(n0).nch - Len(used)) |-> 0]
                      r == Eval(ND(n0).e, f0.env, S0(ch)) IN
                  [heap EXCEPT ![r.s.aux[2]][ND(n0).attr] = r.v]
             ELSE heap
  /\ LET f0 == Top
         n0 == IF f0.i <= Len(f0.blk) THEN f0.blk[f0.i] ELSE 0
         k0 == IF n0 = 0 THEN "" ELSE ND(n0).kind
         ok == how' = "" /\ k0 \in {"newlist", "append", "pop", "setitem"}
         ad == IF ok /\ k0 # "newlist" THEN cells[CellOf(envs, f0.env, ND(n0).name)][2] ELSE 0
         val == IF ok /\ k0 \in {"append", "setitem"}
                THEN LET used == SubSeq(dec', Len(dec) + 1, Len(dec'))
                         ch == used \o [j \in 1..(ND(n0).nch - Len(used)) |-> 0] IN
                     Eval(ND(n0).e, f0.env, S0(ch)).v
                ELSE NoneV IN
     lists' = IF ~ok THEN lists
              ELSE IF k0 = "newlist" THEN Append(lists, <<>>)
              ELSE IF k0 = "append" THEN [lists EXCEPT ![ad] = Append(@, val)]
              ELSE IF k0 = "pop" THEN [lists EXCEPT ![ad] = SubSeq(@, 1, Len(@) - 1)]
              ELSE [lists EXCEPT ![ad] = [@ EXCEPT ![ND(n0).k + 1] = val]]
  /\ LET f0 == Top
         n0 == IF f0.i <= Len(f0.blk) THEN f0.blk[f0.i] ELSE 0
         fc == IF n0 # 0 /\ ND(n0).kind = "call" THEN CellOf(envs, f0.env, ND(n0).name) ELSE 0
         acs == IF fc = 0 THEN {} ELSE {CellOf(envs, f0.env, ND(n0).args[j]) : j \in 1..Len(ND(n0).args)}
         isLam == fc # 0 /\ cells[fc] # Unbound /\ cells[fc][1] = "m" /\ \A c \in acs : c # 0 /\ cells[c] # Unbound IN
     /\ lrd' = IF isLam THEN rd' \ ({fc} \cup acs) ELSE {}
     /\ lnode' = IF isLam THEN (CHOOSE m \in 1..Len(P.nodes) : ND(m).e = cells[fc][2]) ELSE 0
  /\ LET resumed == Top.i > Len(Top.blk) /\ Top.k = "finally"      \* a finally block re-raising its pending exception
         cr == crossed \/ (how' = "exc" /\ NCalls(ctrl') < NCalls(ctrl) /\ status'[1] = "run")
         \* a finally block that runs while an exception propagates raises an exception of its own (necessarily an
         \* implicit one): what such a block does is outside the guarantee, and so is everything that follows from it
         pend == \E i \in 1..Len(ctrl) : ctrl[i].k = "finally" /\ ctrl[i].comp[1] = "exc"
         \* ... and so is a raise in a finally block that abandons a pending return / break / continue (the mirror image of
         \* the documented limit "return/break/continue inside finally")
         pendAny == \E i \in 1..Len(ctrl) : ctrl[i].k = "finally" /\ ctrl[i].comp # NoComp
         infin == how' = "exc" /\ ~resumed /\ pendAny IN
     /\ xlog' = IF how' = "exc" /\ ~resumed THEN Len(log') ELSE xlog
     /\ xnode' = IF how' = "exc" /\ ~resumed THEN cur' ELSE xnode
     /\ xfirst' = IF how' = "exc" /\ ~resumed /\ xfirst = 0 THEN cur' ELSE xfirst
     /\ hb' = (hb \ wr') \cup (IF how' = "exc" /\ status'[1] = "run" /\ ctrl'[Len(ctrl')].k = "handler"
                             THEN {c \in wr' : cells'[c][1] = "x"} ELSE {})
     /\ delx' = (delx \/ (how' = "exc" /\ ~resumed /\ cur' # 0 /\ ND(cur').kind = "del"))
     /\ crossed' = cr
     /\ finx' = (finx \/ (pend /\ cur' # 0))
     /\ oc' = (oc \/ infin \/ (cr /\ how' = "exc" /\ status'[1] = "run" /\ ctrl'[Len(ctrl')].k = "handler"))

Init ==
  /\ pid \in 1..Len(Progs)
  /\ LET loc == LocalsOf(1)
         n == Cardinality(loc)
         ord == SelectSeq(P.names, LAMBDA nm : nm \in loc)
         idx(nm) == CHOOSE i \in 1..n : ord[i] = nm
         pidx(nm) == CHOOSE i \in 1..Len(FN(1).params) : FN(1).params[i] = nm IN
     /\ envs = << [fn |-> 1, parent |-> 0, cellOf |-> [nm \in NameSet |-> IF nm \in loc THEN NG + idx(nm) ELSE 0]] >>
     /\ inp \in IF P.pure = 1 THEN [1..Len(FN(1).params) -> 0..IntMax] ELSE {<<>>}
     /\ cells = [i \in 1..NG |-> <<"t", 0, 10 + i>>] \o      \* the module-level variables hold tokens of their own
                [i \in 1..n |-> IF ord[i] \in Range(FN(1).params)
                                THEN (IF P.pure = 1 THEN IntV(inp[pidx(ord[i])]) ELSE <<"t", 0, pidx(ord[i])>>)
                                ELSE Unbound]
  /\ heap = <<>>
  /\ ctrl = << Frame("call", FN(1).body, 0, 1) >>
  /\ log = <<>> /\ dec = <<>> /\ status = <<"run", NoneV>> /\ cur = 0 /\ steps = 0 /\ how = ""
  /\ rd = {} /\ wr = {} /\ xlog = 0 /\ xnode = 0 /\ xfirst = 0 /\ delx = FALSE /\ hb = {} /\ crossed = FALSE /\ oc = FALSE
  /\ lrd = {} /\ lnode = 0 /\ lists = <<>> /\ finx = FALSE

Spec == Init /\ [][Step]_vars
DecBound == Len(dec) <= MaxDec      \* CONSTRAINT: executions consuming more decisions are not explored further

Terminal == status[1] # "run"
(* reporting invariant: one JSON line per complete execution *)
Out == IF status[1] = "ret" THEN <<"ret", ObsV(status[2])>> ELSE status
Globals == [i \in 1..NG |-> ObsV(cells[i])]       \* what the module-level variables hold now
Emit == Terminal => PrintT(ToJson([pid |-> pid, dec |-> dec, inp |-> inp, log |-> log, out |-> Out, xlog |-> xlog, xnode |-> xnode, xfirst |-> xfirst, delx |-> delx, oc |-> oc, finx |-> finx, gl |-> Globals]))
=============================================================================
