----------------------------- MODULE TraceNamer -----------------------------
(***************************************************************************)
(* C11, part 2 - validation of the calls of the real Namer.new_symbol      *)
(* recorded during conversions.  Traces (IOEnv.TRACE_FILE): per conversion *)
(* the identifiers visible to user code in the source (user), the names of *)
(* the function's namespace, and the calls <<root, reserved, result>>.     *)
(* Every result must be fresh w.r.t. user, namespace and the results       *)
(* generated before it (Namer.tla: FreshVisible); total verdict, latched.  *)
(***************************************************************************)
EXTENDS Naturals, Sequences, FiniteSets, TLC, Json, IOUtils
Traces == JsonDeserialize(IOEnv.TRACE_FILE)
VARIABLES tid, l, gen, bad
tvars == <<tid, l, gen, bad>>
Tr == Traces[tid]
Range(s) == {s[i] : i \in 1..Len(s)}
TInit == tid \in 1..Len(Traces) /\ l = 1 /\ gen = {} /\ bad = ""
TCall == /\ l <= Len(Tr.calls)
         /\ LET c == Tr.calls[l]  res == c[3] IN
            /\ bad' = IF bad # "" THEN bad
                      ELSE IF res \in Range(Tr.user) THEN "generated-name-is-a-user-identifier:" \o res
                      ELSE IF res \in Range(Tr.namespace) THEN "generated-name-is-in-the-namespace:" \o res
                      ELSE IF res \in gen THEN "generated-twice:" \o res
                      ELSE IF res \in Range(c[2]) THEN "generated-name-was-reserved:" \o res
                      ELSE ""
            /\ gen' = gen \cup {res}
         /\ l' = l + 1 /\ UNCHANGED tid
TSpec == TInit /\ [][TCall]_tvars
TReport == (l > Len(Tr.calls)) => PrintT(ToJson([tid |-> tid, bad |-> bad]))
=============================================================================
