------------------------------ MODULE Builtins ------------------------------
(***************************************************************************)
(* Input-space model of the 13 builtins that malt's call wrapper           *)
(* substitutes (property C14): abs all any enumerate filter float int len  *)
(* map print range sorted zip.                                             *)
(*                                                                         *)
(* The state machine chooses                                               *)
(*    PickBuiltin, PickShape, PickArg (repeated), Call, StepNext (repeated)  *)
(* and every terminal state is ONE test of the implementation: TLC prints  *)
(* the call (builtin, positional slots, keyword slots, tagged argument     *)
(* values) together with the result the specification demands.             *)
(*                                                                         *)
(*  PickShape   a call shape = number of positional arguments + set of     *)
(*              keyword names (documented names of every parameter, and a  *)
(*              name the builtin does not have).  Reject() is Python's     *)
(*              argument binding: too many positionals, positional-only or *)
(*              unknown name passed by keyword, multiple values, missing   *)
(*              required -> TypeError.                                      *)
(*  PickArg     one tagged value per slot from a small per-parameter       *)
(*              domain (ints, bools, floats in halves, nan/inf, huge ints, *)
(*              strings from StrTab, None, list/tuple/set/dict, one-shot   *)
(*              iterators, generators, objects with __iter__/__len__/      *)
(*              __abs__/__int__/__float__/__index__/__bool__, functions,   *)
(*              and wrong-typed values).                                   *)
(*  Call        reference semantics: value / exception type / the events   *)
(*              the call may cause on its arguments (iter(), __next__      *)
(*              pulls, key/function calls, __bool__ calls).                *)
(*  StepNext    enumerate/zip/map/filter are LAZY ITERATOR STATE MACHINES: *)
(*              the call pulls nothing; each __next__ pulls exactly one    *)
(*              item from each source, in order (filter: until the         *)
(*              predicate holds), map/zip stop at the shortest, zip strict *)
(*              probes the remaining sources.                              *)
(*                                                                         *)
(* The model is validated against the real CPython builtin in the same run *)
(* (vf/props/c14.py); only then is malt's overload compared with it.       *)
(* Floats are integers counting halves (3 = 1.5).  Value computations that *)
(* the model does not attempt are tagged "oracle" (none at present: the    *)
(* string tables carry their own digit sequences).                         *)
(***************************************************************************)
EXTENDS Integers, Sequences, FiniteSets, TLC, Json

CONSTANTS Tier,      \* "quick" | "thorough"
          Fns        \* the builtins to enumerate in this run

Q == Tier = "quick"

(* ======================= tagged values ================================== *)
V(t, n, xs) == [t |-> t, n |-> n, xs |-> xs]
I(n)  == V("int", n, <<>>)
Bo(n) == V("bool", n, <<>>)
Fl(h) == V("float", h, <<>>)
NoneV == V("none", 0, <<>>)
S(i)  == V("str", i, <<>>)
C(t, xs) == V(t, 0, xs)
Fn(name) == V(name, 0, <<>>)          \* "fn_sum" "fn_pos" "fn_odd" "fn_neg" "fn_mod2" "fn_const"
Absent == V("absent", 0, <<>>)
Nan == V("nan", 0, <<>>)
Inf(sg) == V("inf", sg, <<>>)
Big(sg) == V("bigint", sg, <<>>)      \* sg * 10**400
Obj(t, n) == V(t, n, <<>>)            \* "absobj" "intobj" "floatobj" "idxobj" "lenobj" ...
Stream == V("stream", 0, <<>>)

(* ---- strings: text, length, integer-literal structure, float value ----- *)
St(s, len, il, sg, pre, body, raw, fk, fh) ==
  [s |-> s, len |-> len, il |-> il, sg |-> sg, pre |-> pre, body |-> body, raw |-> raw, fk |-> fk, fh |-> fh]
StrTab == <<
  St("12",   2, TRUE,  1,  0, <<1,2>>,     <<1,2>>,       "val", 24),    \* 1
  St("-7",   2, TRUE, -1,  0, <<7>>,       <<7>>,         "val", -14),   \* 2
  St(" 12 ", 4, TRUE,  1,  0, <<1,2>>,     <<1,2>>,       "val", 24),    \* 3
  St("1_0",  3, TRUE,  1,  0, <<1,0>>,     <<1,0>>,       "val", 20),    \* 4
  St("11",   2, TRUE,  1,  0, <<1,1>>,     <<1,1>>,       "val", 22),    \* 5
  St("0x1f", 4, TRUE,  1, 16, <<1,15>>,    <<0,33,1,15>>, "err", 0),     \* 6
  St("0b11", 4, TRUE,  1,  2, <<1,1>>,     <<0,11,1,1>>,  "err", 0),     \* 7
  St("z",    1, TRUE,  1,  0, <<35>>,      <<35>>,        "err", 0),     \* 8
  St("",     0, FALSE, 1,  0, <<>>,        <<>>,          "err", 0),     \* 9
  St("abc",  3, TRUE,  1,  0, <<10,11,12>>, <<10,11,12>>, "err", 0),     \* 10
  St("1.5",  3, FALSE, 1,  0, <<>>,        <<>>,          "val", 3),     \* 11
  St("1e3",  3, TRUE,  1,  0, <<1,14,3>>,  <<1,14,3>>,    "val", 2000),  \* 12
  St("nan",  3, TRUE,  1,  0, <<23,10,23>>, <<23,10,23>>, "nan", 0),     \* 13
  St("+7",   2, TRUE,  1,  0, <<7>>,       <<7>>,         "val", 14),    \* 14
  St("1__0", 4, FALSE, 1,  0, <<>>,        <<>>,          "err", 0),     \* 15
  St("012",  3, TRUE,  1,  0, <<0,1,2>>,   <<0,1,2>>,     "val", 24),    \* 16
  St("-",    1, FALSE, 1,  0, <<>>,        <<>>,          "err", 0),     \* 17
  St(", ",   2, FALSE, 1,  0, <<>>,        <<>>,          "err", 0),     \* 18
  St("!",    1, FALSE, 1,  0, <<>>,        <<>>,          "err", 0),     \* 19
  St("ab",   2, TRUE,  1,  0, <<10,11>>,   <<10,11>>,     "err", 0),     \* 20
  St("inf",  3, TRUE,  1,  0, <<18,23,15>>, <<18,23,15>>, "inf", 0),     \* 21
  St("\n",   1, FALSE, 1,  0, <<>>,        <<>>,          "err", 0)      \* 22
>>
SMinus == 17
SComma == 18
SBang == 19
SAb == 20
SNl == 22
SEmpty == 9

(* the harness reads the texts from here (printed once per run) *)
ASSUME PrintT(ToJson([strtab |-> [i \in DOMAIN StrTab |-> StrTab[i].s]]))

(* ======================= signatures ===================================== *)
AllFns == {"abs", "all", "any", "enumerate", "filter", "float", "int", "len", "map",
           "print", "range", "sorted", "zip"}
ASSUME Fns \subseteq AllFns

P(n, k, r) == [name |-> n, kind |-> k, req |-> r]   \* kind: po | pk | ko | var
Params(f) ==
  CASE f = "abs"       -> <<P("x", "po", TRUE)>>
    [] f = "all"       -> <<P("iterable", "po", TRUE)>>
    [] f = "any"       -> <<P("iterable", "po", TRUE)>>
    [] f = "enumerate" -> <<P("iterable", "pk", TRUE), P("start", "pk", FALSE)>>
    [] f = "filter"    -> <<P("function", "po", TRUE), P("iterable", "po", TRUE)>>
    [] f = "float"     -> <<P("x", "po", FALSE)>>
    [] f = "int"       -> <<P("x", "po", FALSE), P("base", "pk", FALSE)>>
    [] f = "len"       -> <<P("obj", "po", TRUE)>>
    [] f = "map"       -> <<P("func", "po", TRUE), P("iterables", "var", FALSE)>>
    [] f = "print"     -> <<P("objects", "var", FALSE), P("sep", "ko", FALSE), P("end", "ko", FALSE),
                            P("file", "ko", FALSE), P("flush", "ko", FALSE)>>
    [] f = "range"     -> <<P("start", "po", TRUE), P("stop", "po", FALSE), P("step", "po", FALSE)>>
    [] f = "sorted"    -> <<P("iterable", "po", TRUE), P("key", "ko", FALSE), P("reverse", "ko", FALSE)>>
    [] f = "zip"       -> <<P("iterables", "var", FALSE), P("strict", "ko", FALSE)>>

IsPos(p) == p.kind \in {"po", "pk"}
PosParams(f) == SelectSeq(Params(f), IsPos)
HasVar(f) == \E i \in DOMAIN Params(f) : Params(f)[i].kind = "var"
NamedParams(f) == {i \in DOMAIN Params(f) : Params(f)[i].kind # "var"}
(* keyword names tried: every documented parameter name and one unknown name *)
KwSeq(f) == [i \in 1..Len(SelectSeq(Params(f), LAMBDA p : p.kind # "var")) |->
               SelectSeq(Params(f), LAMBDA p : p.kind # "var")[i].name] \o <<"bogus">>
KwUniverse(f) == {KwSeq(f)[i] : i \in DOMAIN KwSeq(f)}
KwAble(f) == {Params(f)[i].name : i \in {j \in DOMAIN Params(f) : Params(f)[j].kind \in {"pk", "ko"}}}
MaxVar(f) == CASE f = "map" -> IF Q THEN 2 ELSE 3
               [] f = "zip" -> IF Q THEN 2 ELSE 3
               [] f = "print" -> 2
               [] OTHER -> 0
MaxNp(f) == IF HasVar(f) THEN Len(PosParams(f)) + MaxVar(f) ELSE Len(PosParams(f)) + 1
Min2(a, b) == IF a < b THEN a ELSE b
FilledPos(f, n) == {PosParams(f)[i].name : i \in 1..Min2(n, Len(PosParams(f)))}
NVar(f, n) == IF n > Len(PosParams(f)) THEN n - Len(PosParams(f)) ELSE 0

(* ---- Python's argument binding: "" = accepted, else the reason --------- *)
Reject(f, n, k) ==
  LET bound == FilledPos(f, n) \cup k IN
  IF n > Len(PosParams(f)) /\ ~HasVar(f) THEN "too-many-positional"
  ELSE IF \E x \in k : x \notin KwAble(f) THEN
         (IF "bogus" \in k THEN "unexpected-keyword" ELSE "positional-only-by-keyword")
  ELSE IF k \cap FilledPos(f, n) # {} THEN "multiple-values"
  ELSE IF \E i \in DOMAIN Params(f) : Params(f)[i].req /\ Params(f)[i].name \notin bound
         THEN "missing-required"
  ELSE IF f = "int" /\ "base" \in bound /\ "x" \notin bound THEN "int-base-without-x"
  ELSE IF f = "map" /\ NVar(f, n) < 1 THEN "map-without-iterable"
  ELSE ""

(* slots in call order: positionals, then keywords in signature order *)
Slot(p, how) == [p |-> p, how |-> how]
MkSlots(f, n, k) ==
  [i \in 1..n |-> IF i <= Len(PosParams(f)) THEN Slot(PosParams(f)[i].name, "pos")
                  ELSE IF HasVar(f) THEN Slot("*", "var") ELSE Slot("!", "pos")]
  \o [j \in 1..Len(SelectSeq(KwSeq(f), LAMBDA x : x \in k)) |->
        Slot(SelectSeq(KwSeq(f), LAMBDA x : x \in k)[j], "kw")]

(* ======================= value domains ================================== *)
Distinct(s) == \A i, j \in DOMAIN s : i # j => s[i] # s[j]
Conts(tags, seqs) == {C(t, s) : t \in tags, s \in seqs} \ {c \in {C(t, s) : t \in tags, s \in seqs} :
                        (c.t \in {"set", "dict"} /\ ~Distinct(c.xs)) \/ (c.t = "set" /\ Len(c.xs) > 1)}
(* sets of more than one element only where the result does not depend on iteration order *)
ContsU(tags, seqs) == {c \in {C(t, s) : t \in tags, s \in seqs} : c.t \in {"set", "dict"} => Distinct(c.xs)}

TagsAll  == {"list", "tuple", "dict", "set", "iter", "gen", "iterobj"}
TagsQ    == {"list", "tuple", "iter", "gen"}
Tags     == IF Q THEN TagsQ ELSE TagsAll
Tags3    == {"list", "iter", "gen", "iterobj"}      \* sources of the 3-source zip / map calls
Seqs3    == IF Q THEN {<<>>, <<5, 6>>} ELSE {<<>>, <<5>>, <<5, 6>>, <<7, 5, 6>>, <<0, 0>>, <<1, 2, 3, 4>>}
SeqsZ    == IF Q THEN {<<>>, <<1>>, <<1, 2>>} ELSE {<<>>, <<1>>, <<1, 2>>, <<3, 1, 2>>}
SeqsT    == IF Q THEN {<<>>, <<0>>, <<0, 1, 0>>, <<1, 0>>, <<0, 0>>, <<2, 2>>}
            ELSE UNION {[1..n -> {0, 1}] : n \in 0..4} \cup {<<2, 2>>, <<0, 0, 2>>}
SeqsS    == IF Q THEN {<<>>, <<3, 1, 2>>, <<2, 1, 2, 0>>}
            ELSE {<<>>, <<2>>, <<3, 1, 2>>, <<2, 1, 2>>, <<1, 3, 2, 0>>, <<2, 1, 2, 0>>, <<-1, 1, -2>>, <<1, 2, 3>>,
                  <<3, 2, 1>>, <<0, 2, 4, 1, 3>>, <<5, 3, 1, 4, 2>>, <<1, 1>>, <<4, 2, 0, 2, 4>>}
SeqsF    == IF Q THEN {<<>>, <<0, 3, -1, 2>>}
            ELSE {<<>>, <<0>>, <<2>>, <<0, 3, -1, 2>>, <<-1, 0, 0>>, <<1, 2, 3>>, <<0, 0, 5>>, <<3, 0>>, <<-2, 4, 1>>, <<1, 1>>}

BadIter  == {I(5), NoneV}
Ints     == IF Q THEN {I(-2), I(0), I(3)} ELSE {I(-2), I(-1), I(0), I(1), I(3)}
Floats   == IF Q THEN {Fl(-3), Fl(4)} ELSE {Fl(-3), Fl(0), Fl(4), Fl(5), Fl(-4), Fl(-1)}
Bools    == {Bo(0), Bo(1)}
Specials == {Nan, Inf(1), Inf(-1), Big(1), Big(-1)}
StrsNum  == IF Q THEN {S(1), S(2), S(5), S(6), S(9), S(10), S(11), S(13)} ELSE {S(i) : i \in 1..16} \cup {S(20), S(21), S(22)}
Bases    == IF Q THEN {I(2), I(10), I(16), I(0), I(1), Obj("idxobj", 2), Fl(4)}
            ELSE {I(2), I(8), I(10), I(16), I(0), I(36), I(1), I(37), I(-2), Bo(1), Obj("idxobj", 2), Fl(4), NoneV, S(1)}
RInts    == IF Q THEN {I(-1), I(0), I(2), I(3)} ELSE {I(i) : i \in -3..4}
RVals    == RInts \cup (IF Q THEN {Fl(2)} ELSE {Bo(1), Obj("idxobj", 2), Fl(2), NoneV, S(1)})
PObjs    == IF Q THEN {I(3), S(SAb)} ELSE {I(3), I(-1), S(SAb), NoneV, Fl(3), Bo(1), C("list", <<1, 2>>)}

(* the domain of the slot that is filled next; rejected shapes get one benign value per slot *)
Placeholder(p) ==
  CASE p \in {"x", "start", "stop", "step", "bogus", "!"} -> I(1)
    [] p = "base" -> I(10)
    [] p \in {"iterable", "obj", "*"} -> C("list", <<1>>)
    [] p \in {"function", "func"} -> Fn("fn_sum")
    [] p \in {"key", "file"} -> NoneV
    [] p \in {"reverse", "strict", "flush"} -> Bo(0)
    [] p \in {"sep", "end"} -> S(SMinus)

Dom(f, p, kws, n) ==
  CASE f = "abs" -> Ints \cup Bools \cup Floats \cup Specials \cup {Obj("absobj", 2), Obj("intobj", 2), S(1), NoneV, C("list", <<1>>)}
    [] f \in {"all", "any"} -> ContsU(Tags \cup {"set", "dict", "boolobjs"}, SeqsT) \cup BadIter
    [] f = "enumerate" /\ p = "iterable" -> Conts(Tags, Seqs3) \cup BadIter
    [] f = "enumerate" /\ p = "start" ->
         IF Q THEN {I(0), I(2), I(-1), Fl(3)}
         ELSE {I(0), I(1), I(2), I(-1), Bo(1), Obj("idxobj", 2), Fl(3), S(1), NoneV}
    [] f = "filter" /\ p = "function" -> {NoneV, Fn("fn_pos"), Fn("fn_odd"), I(5)}
    [] f = "filter" /\ p = "iterable" -> Conts(Tags, SeqsF) \cup BadIter
    [] f = "float" -> Ints \cup Bools \cup Floats \cup Specials \cup StrsNum
                      \cup {Obj("floatobj", 3), Obj("idxobj", 2), Obj("intobj", 2), NoneV, C("list", <<1>>)}
    [] f = "int" /\ p = "x" ->
         IF "base" \in kws \/ n >= 2 THEN StrsNum \cup {I(3), Fl(3)}
         ELSE Ints \cup Bools \cup Floats \cup Specials \cup StrsNum
              \cup {Obj("intobj", 2), Obj("idxobj", 2), Obj("floatobj", 3), Obj("absobj", 2), NoneV, C("list", <<1>>)}
    [] f = "int" /\ p = "base" -> Bases
    [] f = "len" -> ContsU({"list", "tuple", "set", "dict"}, {<<>>, <<4>>, <<4, 5, 6>>})
                    \cup {S(1), S(SEmpty), S(3)}
                    \cup {Obj("lenobj", 0), Obj("lenobj", 2), Obj("lenobj", -1), Obj("lenobj_str", 0),
                          Obj("lenobj_true", 0), Obj("lenobj_big", 0), Obj("lenobj_float", 0)}
                    \cup {I(5), Fl(3), NoneV, C("iter", <<1>>), C("gen", <<1>>), C("iterobj", <<1>>), Obj("absobj", 1)}
    [] f = "map" /\ p = "func" -> {Fn("fn_sum"), NoneV}
    [] f = "map" /\ p = "*" -> IF n <= 3 THEN Conts(Tags, SeqsZ) \cup {I(5)} ELSE Conts(Tags3, SeqsZ)
    [] f = "zip" /\ p = "*" -> IF n <= 2 THEN Conts(Tags, SeqsZ) \cup {I(5)} ELSE Conts(Tags3, SeqsZ)
    [] f = "zip" /\ p = "strict" -> IF Q THEN {Bo(0), Bo(1)} ELSE {Bo(0), Bo(1), I(1), NoneV, S(SAb), C("list", <<>>)}
    [] f = "print" /\ p = "*" -> PObjs
    [] f = "print" /\ p = "sep" -> IF Q THEN {NoneV, S(SMinus), I(5)} ELSE {NoneV, S(SEmpty), S(SMinus), S(SComma), I(5)}
    [] f = "print" /\ p = "end" -> IF Q THEN {S(SBang), NoneV} ELSE {NoneV, S(SEmpty), S(SBang), S(SNl), I(5)}
    [] f = "print" /\ p = "file" -> IF Q THEN {Stream} ELSE {NoneV, Stream, I(5)}
    [] f = "print" /\ p = "flush" -> IF Q THEN {Bo(1)} ELSE {Bo(0), Bo(1), I(1), NoneV}
    [] f = "range" -> RVals
    [] f = "sorted" /\ p = "iterable" ->
         IF "key" \in kws THEN Conts(Tags, SeqsS) \cup {I(5)}
         ELSE ContsU(Tags \cup {"set"}, SeqsS) \cup {C("mixlist", <<>>)} \cup BadIter
    [] f = "sorted" /\ p = "key" ->
         IF Q THEN {NoneV, Fn("fn_mod2"), Fn("fn_neg")}
         ELSE {NoneV, Fn("fn_neg"), Fn("fn_mod2"), Fn("fn_const"), I(5)}
    [] f = "sorted" /\ p = "reverse" ->
         IF Q THEN {Bo(0), Bo(1)} ELSE {Bo(0), Bo(1), I(0), I(2), NoneV, S(SAb), C("list", <<>>)}

(* ======================= reference semantics ============================ *)
Out(k, exc, v) == [k |-> k, exc |-> exc, v |-> v]      \* k: "ok" | "exc" | "lazy"
Ok(v) == Out("ok", "", v)
Exc(e) == Out("exc", e, NoneV)
Ev(e, s, i, a) == [e |-> e, s |-> s, i |-> i, a |-> a]  \* e: iter pull stop call bool

Abs(n) == IF n < 0 THEN -n ELSE n
Truthy(v) ==
  CASE v.t \in {"int", "bool", "float"} -> v.n # 0
    [] v.t \in {"none", "absent"} -> FALSE
    [] v.t = "str" -> StrTab[v.n].len > 0
    [] v.t \in {"list", "tuple", "set", "dict", "mixlist", "boolobjs"} -> v.xs # <<>>
    [] OTHER -> TRUE
Indexable(v) == v.t \in {"int", "bool", "idxobj"}     \* operator.index(v) succeeds (small values)
IterTags == {"list", "tuple", "set", "dict", "iter", "gen", "iterobj", "boolobjs", "mixlist"}
Iterable(v) == v.t \in IterTags

(* ---- abs / int / float / len ------------------------------------------- *)
EvalAbs(x) ==
  CASE x.t \in {"int", "bool"} -> Ok(I(Abs(x.n)))
    [] x.t = "float" -> Ok(Fl(Abs(x.n)))
    [] x.t = "nan" -> Ok(Nan)
    [] x.t = "inf" -> Ok(Inf(1))
    [] x.t = "bigint" -> Ok(Big(1))
    [] x.t = "absobj" -> Ok(I(x.n + 100))           \* whatever __abs__ returns
    [] OTHER -> Exc("TypeError")

RECURSIVE Horner(_, _, _)
Horner(ds, base, acc) == IF ds = <<>> THEN acc ELSE Horner(Tail(ds), base, acc * base + Head(ds))
IntParse(st, base) ==
  IF ~st.il THEN Exc("ValueError")
  ELSE LET eff == IF base = 0 THEN (IF st.pre = 0 THEN 10 ELSE st.pre) ELSE base
           ds  == IF st.pre # 0 /\ (base = 0 \/ base = st.pre) THEN st.body ELSE st.raw
       IN IF \E i \in DOMAIN ds : ds[i] >= eff THEN Exc("ValueError")
          ELSE IF base = 0 /\ st.pre = 0 /\ Len(ds) > 1 /\ ds[1] = 0 THEN Exc("ValueError")
          ELSE Ok(I(st.sg * Horner(ds, eff, 0)))
Trunc(h) == IF h >= 0 THEN h \div 2 ELSE -((-h) \div 2)
EvalInt1(x) ==                                   \* int(x)
  CASE x.t \in {"int", "bool", "intobj", "idxobj"} -> Ok(I(x.n))
    [] x.t = "float" -> Ok(I(Trunc(x.n)))
    [] x.t = "nan" -> Exc("ValueError")
    [] x.t = "inf" -> Exc("OverflowError")
    [] x.t = "bigint" -> Ok(x)
    [] x.t = "str" -> IntParse(StrTab[x.n], 10)
    [] OTHER -> Exc("TypeError")
EvalInt(x, base) ==
  IF x.t = "absent" THEN Ok(I(0))
  ELSE IF base.t = "absent" THEN EvalInt1(x)
  ELSE IF ~Indexable(base) THEN Exc("TypeError")
  ELSE IF (base.n # 0 /\ base.n < 2) \/ base.n > 36 THEN Exc("ValueError")
  ELSE IF x.t # "str" THEN Exc("TypeError")
  ELSE IntParse(StrTab[x.n], base.n)

EvalFloat(x) ==
  CASE x.t = "absent" -> Ok(Fl(0))
    [] x.t \in {"int", "bool", "idxobj"} -> Ok(Fl(2 * x.n))
    [] x.t \in {"float", "floatobj"} -> Ok(Fl(x.n))
    [] x.t \in {"nan", "inf"} -> Ok(x)
    [] x.t = "bigint" -> Exc("OverflowError")
    [] x.t = "str" -> LET st == StrTab[x.n] IN
                        CASE st.fk = "val" -> Ok(Fl(st.fh))
                          [] st.fk = "nan" -> Ok(Nan)
                          [] st.fk = "inf" -> Ok(Inf(1))
                          [] OTHER -> Exc("ValueError")
    [] OTHER -> Exc("TypeError")

EvalLen(x) ==
  CASE x.t \in {"list", "tuple", "set", "dict"} -> Ok(I(Len(x.xs)))
    [] x.t = "str" -> Ok(I(StrTab[x.n].len))
    [] x.t = "lenobj" -> IF x.n >= 0 THEN Ok(I(x.n)) ELSE Exc("ValueError")
    [] x.t = "lenobj_true" -> Ok(I(1))
    [] x.t = "lenobj_big" -> Exc("OverflowError")
    [] OTHER -> Exc("TypeError")                  \* numbers, None, iterators, __len__ returning str/float

(* ---- range -------------------------------------------------------------- *)
RECURSIVE RangeElems(_, _, _)
RangeElems(a, b, c) == IF (c > 0 /\ a < b) \/ (c < 0 /\ a > b) THEN <<a>> \o RangeElems(a + c, b, c) ELSE <<>>
EvalRange(a, b, c) ==
  IF \E v \in {a, b, c} : v.t # "absent" /\ ~Indexable(v) THEN Exc("TypeError")
  ELSE IF b.t = "absent" THEN Ok(C("range", RangeElems(0, a.n, 1)))
  ELSE IF c.t = "absent" THEN Ok(C("range", RangeElems(a.n, b.n, 1)))
  ELSE IF c.n = 0 THEN Exc("ValueError")
  ELSE Ok(C("range", RangeElems(a.n, b.n, c.n)))

(* ---- consuming an iterable completely / until a condition --------------- *)
IterEv(c, s) == IF c.t = "iterobj" THEN <<Ev("iter", s, 0, <<>>)>> ELSE <<>>
PullEv(s, from, to) == [i \in 1..(to - from + 1) |-> Ev("pull", s, from + i - 1, <<>>)]
StopEv(s) == <<Ev("stop", s, 0, <<>>)>>
BoolEv(c, s, to) == IF c.t = "boolobjs" THEN [i \in 1..to |-> Ev("bool", s, i, <<>>)] ELSE <<>>
Interleave(c, s, to, stop) ==      \* pull 1 [bool 1] pull 2 [bool 2] ... [stop]
  LET RECURSIVE go(_)
      go(i) == IF i > to THEN (IF stop THEN StopEv(s) ELSE <<>>)
               ELSE <<Ev("pull", s, i, <<>>)>> \o (IF c.t = "boolobjs" THEN <<Ev("bool", s, i, <<>>)>> ELSE <<>>) \o go(i + 1)
  IN go(1)

FirstIdx(xs, want) ==                           \* first index whose truth is `want`, 0 if none
  IF \E i \in DOMAIN xs : (xs[i] # 0) = want
  THEN CHOOSE i \in DOMAIN xs : (xs[i] # 0) = want /\ \A j \in 1..(i - 1) : (xs[j] # 0) # want
  ELSE 0
EvalAnyAll(f, c) ==       \* returns [out, ev]
  IF ~Iterable(c) THEN [out |-> Exc("TypeError"), ev |-> <<>>]
  ELSE IF c.t = "mixlist" THEN [out |-> Ok(Bo(1)), ev |-> <<>>]
  ELSE LET want == (f = "any")
           k == FirstIdx(c.xs, want)
       IN IF k > 0 THEN [out |-> Ok(Bo(IF want THEN 1 ELSE 0)), ev |-> IterEv(c, 1) \o Interleave(c, 1, k, FALSE)]
          ELSE [out |-> Ok(Bo(IF want THEN 0 ELSE 1)), ev |-> IterEv(c, 1) \o Interleave(c, 1, Len(c.xs), TRUE)]

(* ---- sorted: stable, reverse keeps the original order of equal keys ------ *)
KeyOf(kf, x) == CASE kf = "fn_neg" -> -x [] kf = "fn_mod2" -> x % 2 [] kf = "fn_const" -> 0 [] OTHER -> x
RECURSIVE Insert(_, _, _, _)
Insert(s, x, kf, rev) ==
  IF s = <<>> THEN <<x>>
  ELSE IF (IF rev THEN KeyOf(kf, x) > KeyOf(kf, Head(s)) ELSE KeyOf(kf, x) < KeyOf(kf, Head(s)))
       THEN <<x>> \o s
       ELSE <<Head(s)>> \o Insert(Tail(s), x, kf, rev)
RECURSIVE StableSort(_, _, _)
StableSort(s, kf, rev) == IF s = <<>> THEN <<>>
                       ELSE Insert(StableSort(SubSeq(s, 1, Len(s) - 1), kf, rev), s[Len(s)], kf, rev)
EvalSorted(c, key, reverse) ==
  IF ~Iterable(c) THEN [out |-> Exc("TypeError"), ev |-> <<>>]
  ELSE LET consume == IterEv(c, 1) \o PullEv(1, 1, Len(c.xs)) \o StopEv(1)
           kf == IF key.t \in {"absent", "none"} THEN "id" ELSE key.t
           calls == IF kf \in {"fn_neg", "fn_mod2", "fn_const"}
                    THEN [i \in 1..Len(c.xs) |-> Ev("call", 0, 0, <<c.xs[i]>>)] ELSE <<>>
       IN IF c.t = "mixlist" THEN [out |-> Exc("TypeError"), ev |-> <<>>]
          ELSE IF key.t = "int" /\ c.xs # <<>> THEN [out |-> Exc("TypeError"), ev |-> consume]
          ELSE [out |-> Ok(C("list", StableSort(c.xs, kf, Truthy(reverse)))), ev |-> consume \o calls]

(* ---- print ---------------------------------------------------------------- *)
StrOf(v) ==
  CASE v.t = "int" -> (CASE v.n = 3 -> "3" [] v.n = -1 -> "-1" [] v.n = 1 -> "1" [] OTHER -> "?")
    [] v.t = "str" -> StrTab[v.n].s
    [] v.t = "none" -> "None"
    [] v.t = "float" -> (CASE v.n = 3 -> "1.5" [] OTHER -> "?")
    [] v.t = "bool" -> IF v.n = 1 THEN "True" ELSE "False"
    [] v.t = "list" -> "[1, 2]"
    [] OTHER -> "?"
RECURSIVE Join(_, _)
Join(objs, sep) == IF objs = <<>> THEN <<>>
                   ELSE IF Len(objs) = 1 THEN <<StrOf(objs[1])>>
                   ELSE <<StrOf(objs[1]), sep>> \o Join(Tail(objs), sep)
(* returns [out, text (pieces), to ("stdout"|"stream"), flushes] *)
EvalPrint(objs, sep, end, file, flush) ==
  LET none == [out |-> Exc("TypeError"), text |-> <<>>, to |-> "stdout", flushes |-> 0] IN
  IF sep.t \notin {"absent", "none", "str"} THEN none
  ELSE IF end.t \notin {"absent", "none", "str"} THEN none
  ELSE IF file.t \notin {"absent", "none", "stream"} THEN [none EXCEPT !.out = Exc("AttributeError")]
  ELSE [out |-> Ok(NoneV),
        text |-> Join(objs, IF sep.t = "str" THEN StrTab[sep.n].s ELSE " ")
                 \o <<IF end.t = "str" THEN StrTab[end.n].s ELSE "\n">>,
        to |-> IF file.t = "stream" THEN "stream" ELSE "stdout",
        flushes |-> IF Truthy(flush) THEN 1 ELSE 0]

(* ---- lazy iterators: construction ------------------------------------------ *)
(* iter() is taken of every source, in order, at call time; the first non-iterable *)
(* source raises TypeError after the earlier ones have been asked for iterators    *)
RECURSIVE CtorEv(_, _)
CtorEv(srcs, i) == IF i > Len(srcs) \/ ~Iterable(srcs[i]) THEN <<>> ELSE IterEv(srcs[i], i) \o CtorEv(srcs, i + 1)
AllIterable(srcs) == \A i \in DOMAIN srcs : Iterable(srcs[i])
Lazy == Out("lazy", "", NoneV)
EvalLazyCtor(f, srcs, start) ==
  IF f = "enumerate" /\ start.t # "absent" /\ ~Indexable(start) THEN [out |-> Exc("TypeError"), ev |-> <<>>]
  ELSE IF AllIterable(srcs) THEN [out |-> Lazy, ev |-> CtorEv(srcs, 1)]
  ELSE [out |-> Exc("TypeError"), ev |-> CtorEv(srcs, 1)]

(* ---- lazy iterators: one __next__ ------------------------------------------- *)
(* lz = [pos: next index per source, k: items yielded so far]                     *)
(* result: [ev, kind ("yield"|"stop"|"exc"), exc, v, pos]                        *)
Step(ev, kind, exc, v, pos) == [ev |-> ev, kind |-> kind, exc |-> exc, v |-> v, pos |-> pos]
Has(srcs, pos, i) == pos[i] <= Len(srcs[i].xs)

RECURSIVE PullRow(_, _, _, _, _)
(* pull one item from each of the sources i..n in order; stop at the first exhausted one *)
PullRow(srcs, pos, i, ev, items) ==
  IF i > Len(srcs) THEN [ev |-> ev, items |-> items, pos |-> pos, stopped |-> 0]
  ELSE IF ~Has(srcs, pos, i) THEN [ev |-> ev \o StopEv(i), items |-> items, pos |-> pos, stopped |-> i]
  ELSE PullRow(srcs, [pos EXCEPT ![i] = @ + 1], i + 1, Append(ev, Ev("pull", i, pos[i], <<>>)),
               Append(items, srcs[i].xs[pos[i]]))

RECURSIVE StrictProbe(_, _, _, _)
(* the first source is exhausted: every other source must be exhausted too *)
StrictProbe(srcs, pos, i, ev) ==
  IF i > Len(srcs) THEN Step(ev, "stop", "", NoneV, pos)
  ELSE IF Has(srcs, pos, i) THEN Step(Append(ev, Ev("pull", i, pos[i], <<>>)), "exc", "ValueError", NoneV,
                                      [pos EXCEPT ![i] = @ + 1])
  ELSE StrictProbe(srcs, pos, i + 1, ev \o StopEv(i))

RECURSIVE Sum(_)
Sum(s) == IF s = <<>> THEN 0 ELSE Head(s) + Sum(Tail(s))

RECURSIVE FilterScan(_, _, _, _)
FilterScan(src, fn, p, ev) ==
  IF p > Len(src.xs) THEN Step(ev \o StopEv(1), "stop", "", NoneV, <<p>>)
  ELSE LET x == src.xs[p]
           ev1 == Append(ev, Ev("pull", 1, p, <<>>))
       IN CASE fn.t = "none" -> IF x # 0 THEN Step(ev1, "yield", "", I(x), <<p + 1>>) ELSE FilterScan(src, fn, p + 1, ev1)
            [] fn.t = "int" -> Step(ev1, "exc", "TypeError", NoneV, <<p + 1>>)        \* 5(x): not callable
            [] OTHER -> LET ev2 == Append(ev1, Ev("call", 0, 0, <<x>>))
                            keep == IF fn.t = "fn_pos" THEN x > 0 ELSE x % 2 = 1
                        IN IF keep THEN Step(ev2, "yield", "", I(x), <<p + 1>>) ELSE FilterScan(src, fn, p + 1, ev2)

NextOf(f, srcs, fn, start, strict, lz) ==
  CASE f = "enumerate" ->
         IF Has(srcs, lz.pos, 1)
         THEN Step(<<Ev("pull", 1, lz.pos[1], <<>>)>>, "yield", "",
                   C("tuple", <<(IF start.t = "absent" THEN 0 ELSE start.n) + lz.k, srcs[1].xs[lz.pos[1]]>>),
                   [lz.pos EXCEPT ![1] = @ + 1])
         ELSE Step(StopEv(1), "stop", "", NoneV, lz.pos)
    [] f = "zip" ->
         IF srcs = <<>> THEN Step(<<>>, "stop", "", NoneV, lz.pos)
         ELSE LET r == PullRow(srcs, lz.pos, 1, <<>>, <<>>) IN
              IF r.stopped = 0 THEN Step(r.ev, "yield", "", C("tuple", r.items), r.pos)
              ELSE IF ~Truthy(strict) THEN Step(r.ev, "stop", "", NoneV, r.pos)
              ELSE IF r.stopped > 1 THEN Step(r.ev, "exc", "ValueError", NoneV, r.pos)
              ELSE StrictProbe(srcs, r.pos, 2, r.ev)
    [] f = "map" ->
         LET r == PullRow(srcs, lz.pos, 1, <<>>, <<>>) IN
         IF r.stopped # 0 THEN Step(r.ev, "stop", "", NoneV, r.pos)
         ELSE IF fn.t = "none" THEN Step(r.ev, "exc", "TypeError", NoneV, r.pos)
         ELSE Step(Append(r.ev, Ev("call", 0, 0, r.items)), "yield", "", I(Sum(r.items)), r.pos)
    [] f = "filter" -> FilterScan(srcs[1], fn, lz.pos[1], <<>>)

(* ======================= the state machine ============================== *)
VARIABLES phase, b, np, kw, slots, vals, rej, res, ev, pr, lz, steps
vars == <<phase, b, np, kw, slots, vals, rej, res, ev, pr, lz, steps>>

NoPr == [text |-> <<>>, to |-> "", flushes |-> 0]
NoLz == [pos |-> <<>>, k |-> 0]

Init == /\ phase = "start" /\ b = "" /\ np = 0 /\ kw = {} /\ slots = <<>> /\ vals = <<>> /\ rej = ""
        /\ res = Out("", "", NoneV) /\ ev = <<>> /\ pr = NoPr /\ lz = NoLz /\ steps = <<>>

PickBuiltin == /\ phase = "start"
               /\ b' \in Fns
               /\ phase' = "shape"
               /\ UNCHANGED <<np, kw, slots, vals, rej, res, ev, pr, lz, steps>>

PickShape == /\ phase = "shape"
             /\ \E n \in 0..MaxNp(b), k \in SUBSET KwUniverse(b) :
                  /\ np' = n /\ kw' = k
                  /\ slots' = MkSlots(b, n, k)
                  /\ rej' = Reject(b, n, k)
             /\ phase' = "args"
             /\ UNCHANGED <<b, vals, res, ev, pr, lz, steps>>

PickArg == /\ phase = "args" /\ Len(vals) < Len(slots)
           /\ LET sl == slots[Len(vals) + 1] IN
              \E v \in (IF rej # "" THEN {Placeholder(sl.p)} ELSE Dom(b, sl.p, kw, np)) :
                 vals' = Append(vals, v)
           /\ UNCHANGED <<phase, b, np, kw, slots, rej, res, ev, pr, lz, steps>>

Arg(name) == IF \E i \in DOMAIN slots : slots[i].p = name
             THEN vals[CHOOSE i \in DOMAIN slots : slots[i].p = name] ELSE Absent
VarIdx == SelectSeq([i \in DOMAIN slots |-> i], LAMBDA i : slots[i].how = "var")
VarArgs == [j \in 1..Len(VarIdx) |-> vals[VarIdx[j]]]
LazyFns == {"enumerate", "zip", "map", "filter"}
Sources == CASE b \in {"enumerate", "filter", "any", "all", "sorted"} -> <<Arg("iterable")>>
             [] b \in {"zip", "map"} -> VarArgs
             [] OTHER -> <<>>
FnArg == CASE b = "map" -> Arg("func") [] b = "filter" -> Arg("function") [] OTHER -> Absent

Call == /\ phase = "args" /\ Len(vals) = Len(slots)
        /\ IF rej # "" THEN
             /\ res' = Exc("TypeError") /\ ev' = <<>> /\ pr' = NoPr /\ lz' = NoLz /\ phase' = "done"
           ELSE IF b \in LazyFns THEN
             LET r == EvalLazyCtor(b, Sources, Arg("start")) IN
             /\ res' = r.out /\ ev' = r.ev /\ pr' = NoPr
             /\ lz' = [pos |-> [i \in DOMAIN Sources |-> 1], k |-> 0]
             /\ phase' = IF r.out.k = "lazy" THEN "iter" ELSE "done"
           ELSE IF b \in {"any", "all"} THEN
             LET r == EvalAnyAll(b, Arg("iterable")) IN
             /\ res' = r.out /\ ev' = r.ev /\ pr' = NoPr /\ lz' = NoLz /\ phase' = "done"
           ELSE IF b = "sorted" THEN
             LET r == EvalSorted(Arg("iterable"), Arg("key"), Arg("reverse")) IN
             /\ res' = r.out /\ ev' = r.ev /\ pr' = NoPr /\ lz' = NoLz /\ phase' = "done"
           ELSE IF b = "print" THEN
             LET r == EvalPrint(VarArgs, Arg("sep"), Arg("end"), Arg("file"), Arg("flush")) IN
             /\ res' = r.out /\ ev' = <<>> /\ pr' = [text |-> r.text, to |-> r.to, flushes |-> r.flushes]
             /\ lz' = NoLz /\ phase' = "done"
           ELSE
             /\ res' = CASE b = "abs" -> EvalAbs(Arg("x"))
                         [] b = "int" -> EvalInt(Arg("x"), Arg("base"))
                         [] b = "float" -> EvalFloat(Arg("x"))
                         [] b = "len" -> EvalLen(Arg("obj"))
                         [] b = "range" -> EvalRange(Arg("start"), Arg("stop"), Arg("step"))
             /\ ev' = <<>> /\ pr' = NoPr /\ lz' = NoLz /\ phase' = "done"
        /\ UNCHANGED <<b, np, kw, slots, vals, rej, steps>>

StepNext == /\ phase = "iter"
            /\ LET st == NextOf(b, Sources, FnArg, Arg("start"), Arg("strict"), lz) IN
               /\ steps' = Append(steps, [ev |-> st.ev, kind |-> st.kind, exc |-> st.exc, v |-> st.v])
               /\ lz' = [pos |-> st.pos, k |-> IF st.kind = "yield" THEN lz.k + 1 ELSE lz.k]
               /\ phase' = IF st.kind = "yield" THEN "iter" ELSE "done"
            /\ UNCHANGED <<b, np, kw, slots, vals, rej, res, ev, pr>>

Next == PickBuiltin \/ PickShape \/ PickArg \/ Call \/ StepNext
Spec == Init /\ [][Next]_vars

(* ======================= laws checked on the model ====================== *)
Done == phase = "done"
Accepted == Done /\ rej = ""
Yields == SelectSeq(steps, LAMBDA s : s.kind = "yield")
PullsOf(evs, s) == SelectSeq(evs, LAMBDA e : e.e = "pull" /\ e.s = s)
MinLen(srcs) == IF srcs = <<>> THEN 0
                ELSE CHOOSE m \in {Len(srcs[i].xs) : i \in DOMAIN srcs} : \A i \in DOMAIN srcs : m <= Len(srcs[i].xs)

(* calling a lazy builtin pulls nothing and calls nothing *)
CallIsLazy == (b \in LazyFns /\ phase \in {"iter", "done"}) => \A i \in DOMAIN ev : ev[i].e = "iter"
(* each __next__ of enumerate/zip/map pulls at most one item per source, sources in order *)
OnePullPerSource ==
  (b \in {"enumerate", "zip", "map"}) =>
     \A i \in DOMAIN steps :
        LET pulls == SelectSeq(steps[i].ev, LAMBDA e : e.e \in {"pull", "stop"}) IN
        /\ \A s \in DOMAIN Sources : Len(PullsOf(steps[i].ev, s)) <= 1
        /\ \A x, y \in DOMAIN pulls : x < y => pulls[x].s < pulls[y].s
(* map / zip (non-strict) stop at the shortest source; items are the rows *)
ShortestStops ==
  (Accepted /\ b \in {"zip", "map"} /\ res.k = "lazy" /\ ~Truthy(Arg("strict")) /\ FnArg.t # "none") =>
     /\ Len(Yields) = MinLen(Sources)
     /\ steps[Len(steps)].kind = "stop"
     /\ b = "zip" => \A i \in DOMAIN Yields : Yields[i].v.xs = [s \in DOMAIN Sources |-> Sources[s].xs[i]]
(* strict zip never ends silently on sources of different length *)
StrictLaw ==
  (Accepted /\ b = "zip" /\ res.k = "lazy" /\ Truthy(Arg("strict")) /\ Sources # <<>>) =>
     ((steps[Len(steps)].kind = "stop") <=> (\A i \in DOMAIN Sources : Len(Sources[i].xs) = Len(Sources[1].xs)))
EnumerateLaw ==
  (Accepted /\ b = "enumerate" /\ res.k = "lazy") =>
     /\ Len(Yields) = Len(Sources[1].xs)
     /\ \A i \in DOMAIN Yields : Yields[i].v.xs[2] = Sources[1].xs[i]
     /\ \A i \in 1..(Len(Yields) - 1) : Yields[i + 1].v.xs[1] = Yields[i].v.xs[1] + 1
FilterLaw ==
  (Accepted /\ b = "filter" /\ res.k = "lazy" /\ FnArg.t = "none") =>
     [i \in DOMAIN Yields |-> Yields[i].v.n] = SelectSeq(Sources[1].xs, LAMBDA x : x # 0)
(* any/all: result and short-circuit *)
AnyAllLaw ==
  (Accepted /\ b \in {"any", "all"} /\ res.k = "ok" /\ Arg("iterable").t # "mixlist") =>
     LET xs == Arg("iterable").xs IN
     /\ b = "any" => ((res.v.n = 1) <=> \E i \in DOMAIN xs : xs[i] # 0)
     /\ b = "all" => ((res.v.n = 1) <=> \A i \in DOMAIN xs : xs[i] # 0)
     /\ Len(PullsOf(ev, 1)) <= Len(xs)
     /\ (\E i \in DOMAIN ev : ev[i].e = "stop") <=> (res.v.n = IF b = "any" THEN 0 ELSE 1)
(* sorted: ordered permutation, stable *)
Count(s, x) == Cardinality({i \in DOMAIN s : s[i] = x})
SortedLaw ==
  (Accepted /\ b = "sorted" /\ res.k = "ok") =>
     LET xs == Arg("iterable").xs
         out == res.v.xs
         kf == IF Arg("key").t \in {"absent", "none"} THEN "id" ELSE Arg("key").t
         rev == Truthy(Arg("reverse"))
     IN /\ Len(out) = Len(xs) /\ \A i \in DOMAIN xs : Count(out, xs[i]) = Count(xs, xs[i])
        /\ \A i \in 1..(Len(out) - 1) :
             IF rev THEN KeyOf(kf, out[i]) >= KeyOf(kf, out[i + 1]) ELSE KeyOf(kf, out[i]) <= KeyOf(kf, out[i + 1])
        /\ Distinct(xs) => \A i, j \in DOMAIN out :
             (i < j /\ KeyOf(kf, out[i]) = KeyOf(kf, out[j])) =>
                (CHOOSE p \in DOMAIN xs : xs[p] = out[i]) < (CHOOSE p \in DOMAIN xs : xs[p] = out[j])
RangeLaw ==
  (Accepted /\ b = "range" /\ res.k = "ok") =>
     LET xs == res.v.xs IN \A i \in 1..(Len(xs) - 1) : xs[i + 1] - xs[i] = xs[2] - xs[1]
(* a rejected shape is always a TypeError, nothing else happens *)
RejectLaw == (Done /\ rej # "") => (res.k = "exc" /\ res.exc = "TypeError" /\ ev = <<>> /\ steps = <<>>)

(* ======================= expectations for the harness =================== *)
KwNames == SelectSeq(KwSeq(b), LAMBDA x : x \in kw)
Expect == Done =>
  PrintT(ToJson([b |-> b, np |-> np, kw |-> KwNames, vals |-> vals, rej |-> rej,
                 out |-> res, ev |-> ev, steps |-> steps, pr |-> pr,
                 srcs |-> [i \in DOMAIN Sources |-> Sources[i].t]]))
=============================================================================
