------------------------------ MODULE Activity ------------------------------
(***************************************************************************)
(* C08 (dynamic clause) - for every statement executed, every variable it  *)
(* actually reads is in the statement's read set and every variable it     *)
(* actually rebinds or deletes is in its modified or deleted set.          *)
(*                                                                         *)
(* Monitor over MiniPy: rd'/wr' are the cells read / (re)bound / unbound   *)
(* by the step that executed node cur'; aread/amod/adel are the sets the   *)
(* real activity analysis attached (anno.Static.SCOPE) to the AST node the *)
(* CFG uses for that statement (statement, if/while test, for iterable -   *)
(* which carries the loop target -, with item).  Parameter binding at a    *)
(* call is not a statement effect and is not judged; the assignment of a   *)
(* call's result is attributed to the calling statement.                   *)
(***************************************************************************)
EXTENDS MiniPyMon
VARIABLES bad
mvars == <<vars, bad>>

ARead(f, n) == Range(G(f).aread[Idx(n)])
AMod(f, n)  == Range(G(f).amod[Idx(n)])
ADel(f, n)  == Range(G(f).adel[Idx(n)])
NamesOfCell(e, c) == {nm \in NameSet : CellOf(envs, e, nm) = c}

MInit == Init /\ bad = <<>>
MStep ==
  /\ Step
  /\ LET nc == NC(ctrl)  nc2 == NC(ctrl')
         tc == TopCall(ctrl)  e == tc.env  f == envs[e].fn  n == cur'
         isPush == nc2 > nc
         isRet  == nc2 < nc /\ how' = "ret" /\ nc2 > 0
         \* the statement and activation the effects of this step belong to
         rc == IF isRet THEN RetCall(ctrl, nc2) ELSE tc
         se == IF isRet THEN rc.cenv ELSE e
         sf == envs[se].fn
         sn == IF isRet THEN rc.node ELSE n
         \* what the body of a called lambda value reads belongs to the statement that wrote the lambda (the analysis
         \* passes a lambda's reads on to the defining statement), not to the calling statement
         readNames == IF n = 0 THEN {} ELSE UNION {NamesOfCell(e, c) : c \in (rd' \ lrd') \ {0}}
         lamNames  == UNION {NamesOfCell(e, c) : c \in lrd'}
         lamBad    == IF lnode' = 0 THEN {} ELSE lamNames \ ARead(ND(lnode').fn, lnode')
         wrCells == IF isPush THEN {} ELSE {c \in wr' : c <= Len(cells)}
         modNames == UNION {NamesOfCell(se, c) : c \in {x \in wrCells : cells'[x] # Unbound /\ x \notin hb'}}
         \* leaving a handler unbinds its `as` name implicitly (also when the handler re-assigned it): not a statement effect
         delNames == UNION {NamesOfCell(se, c) : c \in {x \in wrCells : cells'[x] = Unbound}} \ Range(P.hnames)
         readBad == readNames \ ARead(f, n)
         \* binding / unbinding of an `except E as name` variable happens on entering / leaving the handler, not in a statement
         modBad  == IF sn = 0 THEN {} ELSE modNames \ AMod(sf, sn)
         delBad  == IF sn = 0 THEN {} ELSE delNames \ (ADel(sf, sn) \cup AMod(sf, sn))
     IN
     bad' = Note(bad,
            IF readBad # {} THEN ToString(<<"read", f, n, CHOOSE x \in readBad : TRUE>>)
            ELSE IF lamBad # {} THEN ToString(<<"lambdaread", ND(lnode').fn, lnode', CHOOSE x \in lamBad : TRUE>>)
            ELSE IF modBad # {} THEN ToString(<<"modified", sf, sn, CHOOSE x \in modBad : TRUE>>)
            ELSE IF delBad # {} THEN ToString(<<"deleted", sf, sn, CHOOSE x \in delBad : TRUE>>)
            ELSE "")
MSpec == MInit /\ [][MStep]_mvars
Report == (status[1] # "run") => PrintT(ToJson([pid |-> pid, dec |-> dec, inp |-> inp, bad |-> bad, log |-> log, out |-> Out, xlog |-> xlog, xnode |-> xnode, xfirst |-> xfirst, delx |-> delx, oc |-> oc, finx |-> finx, gl |-> Globals]))
=============================================================================
