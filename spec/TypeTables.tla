----------------------------- MODULE TypeTables -----------------------------
(***************************************************************************)
(* Typing tables of the small typed language of property C19.              *)
(*                                                                         *)
(* A run-time value is abstracted by its *type tag*: a sequence of strings *)
(*   <<"int">> <<"float">> <<"bool">> <<"str">> <<"none">> <<"fn">>        *)
(*   <<"list", e1, .., en>>   <<"tuple", e1, .., en>>                      *)
(* (ei the head of the element: a nested sequence is kept opaque - taking  *)
(* it out again is "unsup")                                                *)
(* The *Tag operators give the result head for operand heads (this is what *)
(* a truthful type_inference.Resolver answers - vf/c19_export.py builds    *)
(* its resolver from the dump of these operators, and every entry is       *)
(* validated against CPython by vf/props/c19.py).  The *Val operators give *)
(* the result on full tags; <<"!", kind>> is an exception of that kind,    *)
(* <<"!", "unsup">> marks results that depend on values the abstraction    *)
(* does not carry (executions reaching them are dropped and counted).      *)
(***************************************************************************)
EXTENDS Naturals, Sequences

Prims   == {"int", "float", "bool", "str"}
Num     == {"int", "float", "bool"}
Seqs    == {"list", "tuple"}
Heads   == Prims \cup Seqs \cup {"none", "fn"}
BinOps  == {"+", "-", "*"}
CmpOps  == {"<", "=="}
UnOps   == {"not", "neg"}
Err(k)  == <<"!", k>>
IsErr(t) == t[1] = "!"
IsPrim(t) == Len(t) = 1 /\ t[1] \in Prims
ElemOK(t) == t[1] \in Prims \cup Seqs \cup {"none"}     \* what a list / tuple display may contain

NumJoin(a, b) == IF "float" \in {a, b} THEN "float" ELSE "int"

(* ---- binary operators: result head, or "TypeError" ---------------------- *)
BinTag(op, a, b) ==
  IF a \in Num /\ b \in Num THEN NumJoin(a, b)
  ELSE IF op = "+" THEN (IF a = b /\ a \in {"str", "list", "tuple"} THEN a ELSE "TypeError")
  ELSE IF op = "*" THEN
         (IF a \in {"str", "list", "tuple"} /\ b \in {"int", "bool"} THEN a
          ELSE IF b \in {"str", "list", "tuple"} /\ a \in {"int", "bool"} THEN b
          ELSE "TypeError")
  ELSE "TypeError"

BinVal(op, ta, tb) ==
  LET h == BinTag(op, ta[1], tb[1]) IN
  IF h = "TypeError" THEN Err("TypeError")
  ELSE IF h \in Prims THEN <<h>>
  ELSE IF op = "+" THEN <<h>> \o Tail(ta) \o Tail(tb)      \* concatenation of two lists / two tuples
  ELSE Err("unsup")                                          \* sequence * int: length depends on the value

(* augmented assignment  x op= e : as x = x op e, except that a list on the  *)
(* left is extended in place (aliasing is not modelled)                      *)
AugVal(op, ta, tb) == IF ta[1] = "list" THEN Err("unsup") ELSE BinVal(op, ta, tb)

(* ---- comparisons -------------------------------------------------------- *)
CmpTag(op, a, b) ==
  IF op = "==" THEN "bool"
  ELSE IF a \in Num /\ b \in Num THEN "bool"
  ELSE IF a = b /\ a \in {"str", "list", "tuple"} THEN "bool"
  ELSE "TypeError"
CmpVal(op, ta, tb) ==
  LET h == CmpTag(op, ta[1], tb[1]) IN
  IF h = "TypeError" THEN Err("TypeError")
  ELSE IF op = "<" /\ ta[1] \in Seqs THEN Err("unsup")       \* element-wise, value dependent
  ELSE <<"bool">>

(* ---- unary operators ---------------------------------------------------- *)
UnTag(op, a) ==
  IF op = "not" THEN "bool"
  ELSE IF a \in {"int", "bool"} THEN "int"
  ELSE IF a = "float" THEN "float"
  ELSE "TypeError"
UnVal(op, ta) == LET h == UnTag(op, ta[1]) IN IF h = "TypeError" THEN Err("TypeError") ELSE <<h>>

(* ---- subscript with a constant index k (0-based) ------------------------ *)
SubVal(ta, k) ==
  IF ta[1] \in Seqs THEN (IF k + 2 > Len(ta) THEN Err("IndexError")
                          ELSE IF ta[k + 2] \in Seqs THEN Err("unsup") ELSE <<ta[k + 2]>>)
  ELSE IF ta[1] = "str" THEN Err("unsup")
  ELSE Err("TypeError")

(* ---- iteration (for loops, unpacking): the element tags ----------------- *)
IterKind(ta) == IF ta[1] \in Seqs THEN (IF \E i \in 2..Len(ta) : ta[i] \in Seqs THEN "unsup" ELSE "ok")
                ELSE IF ta[1] = "str" THEN "unsup" ELSE "TypeError"
Elems(ta)    == [i \in 1..(Len(ta) - 1) |-> <<ta[i + 1]>>]

(* ---- does a claimed set of types cover a run-time tag ------------------- *)
(* a claimed type is a tag; <<"any">> covers everything; a bare constructor  *)
(* (<<"list">>, <<"tuple">>) covers every value with that head; an element    *)
(* "any" of a tuple shape covers every element                                *)
CoversOne(c, t) ==
  \/ c = <<"any">>
  \/ (Len(c) = 1 /\ c[1] = t[1])
  \/ (Len(c) = Len(t) /\ c[1] = t[1] /\ \A i \in 2..Len(c) : c[i] = t[i] \/ c[i] = "any")
Covers(cs, t)   == \E i \in 1..Len(cs) : CoversOne(cs[i], t)
=============================================================================
