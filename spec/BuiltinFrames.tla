---------------------------- MODULE BuiltinFrames ----------------------------
(***************************************************************************)
(* Frame model for the context-sensitive builtins eval / locals / globals  *)
(* / zero-argument super (property C14, second sentence).                  *)
(*                                                                         *)
(* A user function (or method) F contains control statements nested to     *)
(* depth d (each an if, for or while); the builtin is called in the        *)
(* innermost body.  After conversion every body is a generated nested      *)
(* function that an operator (ag__.if_stmt / for_stmt / while_stmt) calls, *)
(* so between F's frame and the call there are 3 frames per level, and the *)
(* overload has to find "the calling user function's frame" again by       *)
(* searching the stack for the function-scope object.                      *)
(*                                                                         *)
(* Req*  - what Python demands: the call is evaluated in F's own frame:    *)
(*         every variable F has bound so far, F's module globals, F's      *)
(*         __class__ cell and first argument.  (Validated against the      *)
(*         unconverted function in the same run.)                          *)
(* Walk / Impl* - the search and the use of the found frame written like   *)
(*         py_builtins.py (_find_originating_frame, eval_in_original_      *)
(*         context, ...), over the frames of the generated code, where a   *)
(*         nested function's f_locals holds only what that function itself *)
(*         binds or references (Python's closure rule).  It is used to     *)
(*         check the search on the model (SearchSound, ...) and to name    *)
(*         the cause where the design itself departs from Req (cls).       *)
(* eval's namespace arguments are modelled as name -> value dictionaries   *)
(* (absent / None / full / empty / without the probed name) with Python's  *)
(* defaulting and lookup order, and the '__builtins__' key eval leaves in   *)
(* the globals dictionary it was given (ReqMark).                           *)
(* The verdict on the real code is always taken against Req.               *)
(***************************************************************************)
EXTENDS Integers, Sequences, FiniteSets, TLC, Json

CONSTANTS MaxDepth,   \* nesting depth of control statements around the call
          Forms,      \* argument forms of eval to enumerate
          DeepForms,  \* ... the ones enumerated under two or more levels of nesting as well
          Hosts       \* subset of {"function", "method"}

Kinds == {"if", "for", "while"}
Callees == {"eval", "locals", "globals", "super"}

(* ---- argument forms of eval(expr[, globals[, locals]]) ------------------------ *)
(* Each namespace argument is absent, None, or a dictionary: "full" binds every    *)
(* name of the program (to its value + 1000 in the globals dictionary, + 2000 in   *)
(* the locals dictionary), "empty" is {}, "other" binds every name except the      *)
(* probed one.  A form is named by its argument list: expr,g,l / expr,{} /         *)
(* expr,None,lo / ...                                                              *)
NsKinds == {"absent", "None", "full", "empty", "other"}
FormPairs == {<<"absent", "absent">>} \cup ((NsKinds \ {"absent"}) \X NsKinds)
ArgText(k, role) == CASE k = "None" -> "None" [] k = "full" -> role [] k = "empty" -> "{}" [] k = "other" -> role \o "o"
FormName(p) == "expr" \o (IF p[1] = "absent" THEN "" ELSE "," \o ArgText(p[1], "g"))
                      \o (IF p[2] = "absent" THEN "" ELSE "," \o ArgText(p[2], "l"))
AllForms == {FormName(p) : p \in FormPairs}
PairOf(f) == CHOOSE p \in FormPairs : FormName(p) = f
Given(k) == k \notin {"absent", "None"}                  \* an actual dictionary is passed
ASSUME Forms \subseteq AllForms /\ DeepForms \subseteq Forms /\ Hosts \subseteq {"function", "method"} /\ MaxDepth \in 0..3

(* ---- the user program ---------------------------------------------------- *)
AName(j) == <<"a0", "a1", "a2", "a3">>[j + 1]          \* assigned in the body of level j (0 = function body)
IName(j) == <<"i1", "i2", "i3">>[j]                     \* target of the for loop of level j
NName(j) == <<"n1", "n2", "n3">>[j]                     \* counter of the while loop of level j
AllNames == {"x", "G", "a0", "a1", "a2", "a3", "i1", "i2", "i3", "n1", "n2", "n3"}
ValueOf(v) ==
  CASE v = "x" -> 1 [] v = "G" -> 7
    [] v = "a0" -> 10 [] v = "a1" -> 11 [] v = "a2" -> 12 [] v = "a3" -> 13
    [] v = "i1" -> 21 [] v = "i2" -> 22 [] v = "i3" -> 23
    [] v = "n1" -> 31 [] v = "n2" -> 41 [] v = "n3" -> 51
HeaderVar(ks, j) == IF j = 0 THEN {} ELSE IF ks[j] = "for" THEN {IName(j)} ELSE IF ks[j] = "while" THEN {NName(j)} ELSE {}
(* bound in F's frame when the call executes *)
FrameVars(ks) == {"x"} \cup {AName(j) : j \in 0..Len(ks)} \cup UNION {HeaderVar(ks, j) : j \in 1..Len(ks)}
(* what the body function of level j binds or modifies itself *)
BodyOwn(ks, j) == {AName(j)} \cup HeaderVar(ks, j)

VARIABLES phase, ks, host, callee, form, tv, refd,   \* the program and the probe
          stack, cur, result                          \* the search
vars == <<phase, ks, host, callee, form, tv, refd, stack, cur, result>>

(* ---- frames of the converted program --------------------------------------- *)
Frame(kind, names, scope, mod, cls) == [kind |-> kind, names |-> names, scope |-> scope, mod |-> mod, cls |-> cls]
Refs == IF refd /\ tv # "G" THEN {tv} ELSE {}          \* extra syntactic reference in the innermost body
RECURSIVE BodyNames(_, _)
(* f_locals of the body function of level j: own bindings, the counter the next level's while  *)
(* modifies, and what deeper bodies reference from outside (free variables pass through)       *)
BodyNames(k, j) ==
  LET d == Len(k) IN
  IF j = d THEN BodyOwn(k, j) \cup Refs
  ELSE BodyOwn(k, j) \cup (IF k[j + 1] = "while" THEN {NName(j + 1)} ELSE {})
       \cup (BodyNames(k, j + 1) \ BodyOwn(k, j + 1))
Level(k, j) ==       \* operator frame, its python implementation frame, the generated body function
  <<Frame("op", {}, FALSE, "malt", FALSE), Frame("op", {}, FALSE, "malt", FALSE),
    Frame("body", BodyNames(k, j), TRUE, "user", FALSE)>>
RECURSIVE Levels(_, _)
Levels(k, j) == IF j > Len(k) THEN <<>> ELSE Level(k, j) \o Levels(k, j + 1)
ConvertedStack(k) ==
  <<Frame("caller", {}, FALSE, "harness", FALSE),
    (* all variables of F are declared in the converted function (ag__.Undefined placeholders) *)
    Frame("user", FrameVars(k), TRUE, "user", host = "method")>>
  \o Levels(k, 1)
  \o <<Frame("api", {}, FALSE, "malt", FALSE),        \* converted_call
       Frame("helper", {}, FALSE, "malt", FALSE),     \* eval_in_original_context & co.
       Frame("helper", {}, FALSE, "malt", FALSE)>>    \* _find_originating_frame

(* ---- state machine ----------------------------------------------------------- *)
Init == /\ phase = "depth" /\ ks = <<>> /\ host \in Hosts /\ callee = "" /\ form = "" /\ tv = "" /\ refd = FALSE
        /\ stack = <<>> /\ cur = 0 /\ result = 0

Grow == /\ phase = "depth" /\ Len(ks) < MaxDepth
        /\ \E k \in Kinds : ks' = Append(ks, k)
        /\ UNCHANGED <<phase, host, callee, form, tv, refd, stack, cur, result>>

PickProbe ==
  /\ phase = "depth"
  /\ \E c \in Callees :
       /\ callee' = c
       /\ (c = "super") => host = "method"
       /\ IF c = "eval" THEN form' \in (IF Len(ks) < 2 THEN Forms ELSE DeepForms) ELSE form' = ""
       /\ IF c = "eval" THEN /\ tv' \in FrameVars(ks) \cup {"G"} /\ refd' \in BOOLEAN
          ELSE IF c = "locals" THEN
               (* one non-own variable may be referenced in the innermost body, or none *)
               \/ (tv' \in FrameVars(ks) \ BodyOwn(ks, Len(ks)) /\ refd' = TRUE)
               \/ (tv' = "x" /\ refd' = FALSE)
          ELSE tv' = "x" /\ refd' = FALSE
  /\ phase' = "convert"
  /\ UNCHANGED <<ks, host, stack, cur, result>>

Convert == /\ phase = "convert"
           /\ stack' = ConvertedStack(ks)
           /\ cur' = Len(ConvertedStack(ks))           \* inspect.currentframe()
           /\ result' = 0
           /\ phase' = "walk"
           /\ UNCHANGED <<ks, host, callee, form, tv, refd>>

Innermost == callee # "super"
(* one iteration of the while loop of _find_originating_frame *)
Walk == /\ phase = "walk"
        /\ IF cur = 0 THEN phase' = "resolved" /\ UNCHANGED <<cur, result>>
           ELSE IF stack[cur].scope
                THEN /\ result' = cur
                     /\ IF Innermost THEN phase' = "resolved" /\ cur' = cur
                        ELSE phase' = "walk" /\ cur' = cur - 1
                ELSE phase' = "walk" /\ cur' = cur - 1 /\ UNCHANGED result
        /\ UNCHANGED <<ks, host, callee, form, tv, refd, stack>>

Next == Grow \/ PickProbe \/ Convert \/ Walk
Spec == Init /\ [][Next]_vars

(* ---- outcomes: uniform records ------------------------------------------------ *)
Val(n) == [k |-> "val", n |-> n, exc |-> ""]
Exc(e) == [k |-> "exc", n |-> 0, exc |-> e]
Resolved == phase = "resolved"
Found == stack[result]
D == Len(ks)

GK == IF callee = "eval" THEN PairOf(form)[1] ELSE "absent"     \* kind of the globals argument
LK == IF callee = "eval" THEN PairOf(form)[2] ELSE "absent"     \* kind of the locals argument
(* the dictionaries the program passes: name -> value *)
NoNames == [v \in {} |-> 0]
Ns(kind, off) == CASE kind = "full" -> [v \in AllNames |-> ValueOf(v) + off]
                   [] kind = "empty" -> NoNames
                   [] kind = "other" -> [v \in AllNames \ {tv} |-> ValueOf(v) + off]
ModuleNs == [v \in {"G"} |-> ValueOf("G")]                      \* F's module (the probes only mention G)
(* name resolution of the evaluated expression: locals, then globals (no probe is a builtin) *)
Lookup(g, l) == IF tv \in DOMAIN l THEN Val(l[tv]) ELSE IF tv \in DOMAIN g THEN Val(g[tv]) ELSE Exc("NameError")

(* Python: the call executes in F's frame.  eval's own defaulting: globals absent or None -> the  *)
(* frame's globals and (locals absent or None) the frame's locals; a globals dictionary without    *)
(* locals serves as both; whatever dictionary is given is used as it is - also an empty one.       *)
ReqEnv == [v \in FrameVars(ks) |-> ValueOf(v)]
ReqEval ==
  LET g == IF Given(GK) THEN Ns(GK, 1000) ELSE ModuleNs
      l == IF Given(LK) THEN Ns(LK, 2000) ELSE IF Given(GK) THEN g ELSE ReqEnv
  IN Lookup(g, l)
(* eval stores '__builtins__' into the dictionary it is given as globals (and into no other) *)
ReqMark == IF callee = "eval" /\ Given(GK) THEN {"g"} ELSE {}
ReqOut == CASE callee = "eval" -> ReqEval
            [] callee = "locals" -> Val(Cardinality(FrameVars(ks)))
            [] callee = "globals" -> Val(ValueOf("G"))       \* F's module dictionary (identity checked by the harness)
            [] callee = "super" -> Val(5)                     \* B.m(self, 5) through C's __class__ cell

(* the overloads as written, on the model stack *)
InLocals == tv \in Found.names
FrameGlobals == IF Found.mod = "user" THEN ModuleNs ELSE NoNames
FrameLocals == [v \in Found.names |-> ValueOf(v)]
ImplEval ==      \* eval_in_original_context
  LET g == IF Given(GK) THEN Ns(GK, 1000) ELSE FrameGlobals          \* if globals_ is None: globals_ = ctx_frame.f_globals
      l == IF Given(LK) THEN Ns(LK, 2000)
           ELSE IF ~Given(GK) THEN FrameLocals                        \*   if locals_ is None: locals_ = ctx_frame.f_locals
           ELSE g                                                     \* f(args[0], globals_): the builtin takes it for both
  IN Lookup(g, l)
ImplMark == IF callee = "eval" /\ Given(GK) THEN {"g"} ELSE {}      \* the caller's own dictionary object is handed on
ImplEnvNames == Found.names \cap FrameVars(ks)
ImplOut == IF result = 0 THEN Exc("AssertionError")
           ELSE CASE callee = "eval" -> ImplEval
                  [] callee = "locals" -> Val(Cardinality(ImplEnvNames))
                  [] callee = "globals" -> IF Found.mod = "user" THEN Val(ValueOf("G")) ELSE Exc("KeyError")
                  [] callee = "super" -> IF Found.cls THEN Val(5) ELSE Exc("KeyError")
Cls == IF ImplOut = ReqOut /\ ImplMark = ReqMark THEN ""
       ELSE CASE callee = "eval" /\ ~Given(GK) /\ ~Given(LK) /\ ~InLocals /\ tv # "G" ->
                   "variable-not-referenced-in-body"               \* the found frame's f_locals serve as locals
              [] callee = "locals" -> "variables-not-referenced-in-body"
              [] OTHER -> "unexpected"

(* ---- laws of the search, checked on the model ---------------------------------- *)
(* the scope object is always found, in a frame of the user's function or of one of its bodies *)
SearchSound == Resolved => (result # 0 /\ Found.kind \in {"user", "body"} /\ Found.mod = "user")
(* eval / locals / globals resolve against the block that contains the call *)
InnermostIsCallSite == (Resolved /\ Innermost) =>
                          (IF D = 0 THEN Found.kind = "user" ELSE Found.kind = "body" /\ \A i \in (result + 1)..Len(stack) : stack[i].kind # "body")
(* super resolves against the function frame, which holds __class__ and the first argument *)
OutermostIsFunction == (Resolved /\ ~Innermost) => (Found.kind = "user" /\ Found.cls)
(* at depth 0 the design meets the requirement for every form *)
DepthZeroComplete == (Resolved /\ D = 0) => Cls = ""
(* a namespace the caller passes is used as it is (also an empty one): the frame is consulted only for *)
(* what eval itself would take from the calling frame                                                  *)
NamespacesHonoured == (Resolved /\ callee = "eval" /\ (Given(GK) \/ Given(LK))) =>
                         /\ ImplOut = ReqOut /\ ImplMark = ReqMark
                         /\ (Given(GK) /\ tv \notin DOMAIN Ns(GK, 1000) /\ (Given(LK) => tv \notin DOMAIN Ns(LK, 2000)))
                              => ImplOut = Exc("NameError")
(* design divergences have a named cause *)
CausesNamed == Resolved => Cls # "unexpected"

(* ---- expectations for the harness ------------------------------------------------ *)
Expect == Resolved =>
  PrintT(ToJson([ks |-> ks, host |-> host, callee |-> callee, form |-> form, tv |-> tv, refd |-> refd,
                 gk |-> GK, lk |-> LK, req |-> ReqOut, impl |-> ImplOut, cls |-> Cls,
                 reqmark |-> ReqMark, implmark |-> ImplMark,
                 reqenv |-> ReqEnv, implenv |-> ImplEnvNames, found |-> Found.kind]))
=============================================================================
