----------------------------- MODULE OpContract -----------------------------
(***************************************************************************)
(* C03 - the calling contract of the control-flow operators                *)
(* (if_stmt / while_stmt / for_stmt) as a model of the enclosing frame's   *)
(* store, and validation of probe traces recorded from the real generated  *)
(* code against it.                                                        *)
(*                                                                         *)
(* For one operator invocation the relevant state is the tuple of values   *)
(* of the variables named by symbol_names in the calling frame: `store`.   *)
(* The contract's actions:                                                 *)
(*   Eval   evaluate every symbol name in the caller's frame: returns      *)
(*          store, no effect                                               *)
(*   Get    get_state(): returns store, no effect                          *)
(*   Set(v) set_state(v): store' = v (v must have the arity of the names)  *)
(* The laws of the property ("reading state has no effect, writing back    *)
(* what was just read changes nothing, a write followed by a read returns  *)
(* what was written, names/getter/setter denote position by position the   *)
(* same variables") all say: every observation equals the model store.     *)
(*                                                                         *)
(* The lazy operators (and_, or_, if_exp) have no state; their contract is  *)
(* that every operand / branch arrives as a zero-argument thunk.           *)
(*                                                                         *)
(* Trace validation: Calls (IOEnv.TRACE_FILE) is a batch of recorded       *)
(* invocations; each has the static facts (arities, nouts, opts flags) and *)
(* the probe events <<kind, values, law>> in the order they were performed *)
(* on the LIVE frame by the instrumented operator (vf/ops.py).  Values are *)
(* identity ids (0 = unbound).  The verdict is total: a mismatch latches   *)
(* the name of the violated law and validation continues with the observed *)
(* value, so one run classifies every call.                                *)
(***************************************************************************)
EXTENDS Naturals, Sequences, FiniteSets, TLC, Json, IOUtils

Calls == JsonDeserialize(IOEnv.TRACE_FILE)

VARIABLES cid, l, store, bad
vars == <<cid, l, store, bad>>

C  == Calls[cid]
Ev == C.events[l]

(* ---- static clauses of the contract ------------------------------------ *)
StaticBad ==
  IF C.ngetter # C.n THEN "arity:getter-vs-names"
  ELSE IF C.nsetter_params # 1 THEN "arity:setter-takes-one-tuple"
  ELSE IF C.ngetter_params # 0 THEN "arity:getter-takes-no-argument"
  ELSE IF C.op = "if_stmt" /\ (C.nouts > C.n) THEN "nouts-out-of-bounds"
  ELSE IF C.op = "if_stmt" /\ (C.nbody # 0 \/ C.norelse # 0) THEN "arity:if-branches-take-no-argument"
  ELSE IF C.op = "while_stmt" /\ (C.nbody # 0 \/ C.ntest # 0) THEN "arity:while-callbacks-take-no-argument"
  ELSE IF C.op = "for_stmt" /\ C.nbody # 1 THEN "arity:for-body-takes-the-iterate"
  ELSE IF C.op = "for_stmt" /\ C.ntest > 0 THEN "arity:extra-test-takes-no-argument"
  ELSE IF C.op = "for_stmt" /\ C.has_iterate_names = 0 THEN "opts:iterate_names-missing"
  ELSE IF C.opts_ok = 0 THEN "opts:directives-differ-from-those-placed-in-the-loop"
  ELSE IF C.op \in {"and_", "or_", "if_exp"} /\ (C.na # 0 \/ C.nb # 0) THEN "arity:lazy-operands-are-zero-argument-thunks"
  ELSE ""

Init == /\ cid \in 1..Len(Calls)
        /\ l = 1
        /\ store = IF Len(C.events) > 0 THEN C.events[1][2] ELSE <<>>
        /\ bad = StaticBad

Latch(obs, law) == bad' = IF bad = "" /\ obs # store THEN law ELSE bad

(* the three contract actions, each consuming one recorded event *)
Eval == /\ Ev[1] = "eval" /\ Latch(Ev[2], Ev[3]) /\ store' = Ev[2]
Get  == /\ Ev[1] = "get"  /\ Latch(Ev[2], Ev[3]) /\ store' = Ev[2]
Set  == /\ Ev[1] = "set"
        /\ bad' = IF bad = "" /\ Len(Ev[2]) # C.n THEN "arity:setter-vs-names" ELSE bad
        /\ store' = Ev[2]

Next == /\ l <= Len(C.events)
        /\ (Eval \/ Get \/ Set)
        /\ l' = l + 1 /\ UNCHANGED cid

Spec == Init /\ [][Next]_vars

Done == l > Len(C.events)
(* reporting invariant: one verdict per recorded call *)
Report == Done => PrintT(ToJson([cid |-> cid, bad |-> bad]))
=============================================================================
